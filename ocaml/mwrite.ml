(* write mode: the writer model W on a workload script *)
open Model
open Util

(* ---------- write mode ---------- *)
let parse_wopts (m : (string, string) Hashtbl.t) : wopts =
  let g k = try Hashtbl.find m k with Not_found -> "0" in
  let b k = g k = "1" in
  { o_crc = b "crc"; o_chunked = b "chunked"; o_chunksize = coqz_of_string (g "chunksize");
    o_comp = (let c = g "comp" in if c = "-" then [] else List.map (fun ch -> byte_tab.(Char.code ch)) (List.of_seq (String.to_seq c)));
    o_custom = b "custom"; o_skip_mi = b "skipmi"; o_skip_stats = b "skipstats";
    o_skip_rsh = b "skiprsh"; o_skip_rch = b "skiprch"; o_skip_ai = b "skipai";
    o_skip_mdi = b "skipmdi"; o_skip_ci = b "skipci"; o_skip_so = b "skipso";
    o_override_lib = b "overridelib"; o_skip_magic = b "skipmagic" }

let stats_line (s : wstate) : string =
  let cs = String.concat "," (List.map (fun (k, v) -> string_of_n k ^ ":" ^ string_of_n v) s.w_st_counts) in
  Printf.sprintf "%s %s %s %s %s %s %s %s %s"
    (string_of_n s.w_st_messages) (string_of_n s.w_st_schemas) (string_of_n s.w_st_channels)
    (string_of_n s.w_st_attachments) (string_of_n s.w_st_metadata) (string_of_n s.w_st_chunks)
    (string_of_n s.w_st_start) (string_of_n s.w_st_end) (if cs = "" then "-" else cs)

let run_write (lines : string list) : unit =
  let o = ref None and flt = ref None and lib = ref [] in
  let table : (byte list * byte list) list ref = ref [] in
  let calls = ref [] in
  List.iter (fun line ->
      let f = Array.of_list (fields line) in
      match f.(0) with
      | "wopts" -> o := Some (parse_wopts (opt (List.tl (Array.to_list f))))
      | "fault" ->
        if f.(1) <> "none" then
          flt := Some { ft_index = nat_of_int (int_of_string f.(1));
                        ft_mode = (if f.(2) = "short" then FShort else FErr);
                        ft_permanent = (f.(3) = "perm") }
      | "lib" -> lib := unhx f.(1)
      | "comp" -> table := (unhx f.(1), unhx f.(2)) :: !table
      | "H" -> calls := CHeader { h_profile = unhx f.(1); h_library = unhx f.(2) } :: !calls
      | "S" -> calls := CSchema { s_id = n_of_string f.(1); s_name = unhx f.(2); s_encoding = unhx f.(3); s_data = unhx f.(4) } :: !calls
      | "C" -> calls := CChannel { c_id = n_of_string f.(1); c_schema = n_of_string f.(2); c_topic = unhx f.(3); c_menc = unhx f.(4); c_meta = kvs f.(5) } :: !calls
      | "M" -> calls := CMessage { m_chan = n_of_string f.(1); m_seq = n_of_string f.(2); m_log = n_of_string f.(3); m_pub = n_of_string f.(4); m_data = unhx f.(5) } :: !calls
      | "A" ->
        let frags = if f.(7) = "-" then [] else List.filter (fun x -> x <> []) (List.map unhx (split_on ',' f.(7))) in
        calls := CAttachment ({ a_log = n_of_string f.(1); a_create = n_of_string f.(2); a_name = unhx f.(3);
                                a_media = unhx f.(4); a_size = n_of_string f.(5); a_data = [] },
                              { as_frags = frags; as_fail = (f.(6) = "1") }) :: !calls
      | "D" -> calls := CMetadata { md_name = unhx f.(1); md_meta = kvs f.(2) } :: !calls
      | "X" -> calls := CClose :: !calls
      | _ -> failwith ("bad script line: " ^ line)) lines;
  let o = match !o with Some o -> o | None -> failwith "no wopts" in
  let tbl = !table in
  let compress _k plain = match List.assoc_opt plain tbl with Some p -> p | None -> plain in
  let r = w o !lib compress !flt (List.rev !calls) in
  Printf.printf "new %s\n" (res r.r_new);
  List.iteri (fun i (e, nw) -> Printf.printf "call %d %s %d\n" i (res e) (int_of_nat nw)) r.r_calls;
  List.iter (fun p -> Printf.printf "write %s\n" (hx p)) r.r_writes;
  Printf.printf "stats %s\n" (stats_line r.r_final);
  Printf.printf "indexes %d %d %d\n" (List.length r.r_final.w_chunk_indexes)
    (List.length r.r_final.w_att_indexes) (List.length r.r_final.w_md_indexes)

