(* ros1msg mode: ParseMessageDefinition model *)
open Model
open Util

let rec type_string (t : ty) : string =
  let Ty (base, arr, fixed, isrec, items, fields) = t in
  let b x = if x then "1" else "0" in
  Printf.sprintf "%s:%s:%s:%s:%s:{%s}" (hx base) (b arr) (ZZ.to_string (z_of_coqz fixed)) (b isrec)
    (match items with Some i -> "[" ^ type_string i ^ "]" | None -> "-")
    (String.concat "," (List.map field_string fields))
and field_string (f : field) : string =
  let Fld (name, t) = f in hx name ^ "=" ^ type_string t

let run_ros1msg (lines : string list) : unit =
  List.iter (fun line ->
      let f = Array.of_list (fields line) in
      if f.(0) = "msgdef" then
        match parse_msgdef (unhx f.(1)) (unhx f.(2)) with
        | Ok fs -> Printf.printf "msgdef ok %s\n" (String.concat "," (List.map field_string fs))
        | Err _ -> print_endline "msgdef err"
        | Panic p -> Printf.printf "msgdef panic site%s\n" (string_of_n p)
        | Exit p -> Printf.printf "msgdef exit site%s\n" (string_of_n p)
        | OutOfFuel -> print_endline "msgdef outoffuel") lines
