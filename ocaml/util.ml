(* driver.ml - hand-written I/O shell around the extracted Coq model (model.ml).
   Reads the same workload scripts as the Go harness and prints the same observation lines. *)
module ZZ = Z
open Model

(* ---------- conversions ---------- *)
let rec pos_of_z (z : ZZ.t) : positive =
  if ZZ.equal z ZZ.one then XH
  else if ZZ.testbit z 0 then XI (pos_of_z (ZZ.shift_right z 1))
  else XO (pos_of_z (ZZ.shift_right z 1))
let n_of_z (z : ZZ.t) : n = if ZZ.sign z = 0 then N0 else Npos (pos_of_z z)
let rec z_of_pos (p : positive) : ZZ.t =
  match p with
  | XH -> ZZ.one
  | XO q -> ZZ.shift_left (z_of_pos q) 1
  | XI q -> ZZ.succ (ZZ.shift_left (z_of_pos q) 1)
let z_of_n (x : n) : ZZ.t = match x with N0 -> ZZ.zero | Npos p -> z_of_pos p
let n_of_int i = n_of_z (ZZ.of_int i)
let int_of_n x = ZZ.to_int (z_of_n x)
let n_of_string s = n_of_z (ZZ.of_string s)
let string_of_n x = ZZ.to_string (z_of_n x)
let coqz_of_z (v : ZZ.t) : z =
  if ZZ.sign v = 0 then Z0 else if ZZ.sign v > 0 then Zpos (pos_of_z v) else Zneg (pos_of_z (ZZ.neg v))
let coqz_of_string s = coqz_of_z (ZZ.of_string s)
let z_of_coqz (v : z) : ZZ.t = match v with Z0 -> ZZ.zero | Zpos p -> z_of_pos p | Zneg p -> ZZ.neg (z_of_pos p)
let nat_of_int i : nat = let rec go i acc = if i <= 0 then acc else go (i - 1) (S acc) in go i O
let int_of_nat (x : nat) : int = let rec go x acc = match x with O -> acc | S y -> go y (acc + 1) in go x 0

let byte_tab : byte array = Array.init 256 (fun i -> byte_of_N (n_of_int i))
let byte_idx : (byte, int) Hashtbl.t =
  let h = Hashtbl.create 512 in Array.iteri (fun i b -> Hashtbl.replace h b i) byte_tab; h
let int_of_byte (b : byte) : int = Hashtbl.find byte_idx b

let hexdig = "0123456789abcdef"
let hx (bs : byte list) : string =
  match bs with
  | [] -> "-"
  | _ ->
    let b = Buffer.create 64 in
    List.iter (fun x -> let i = int_of_byte x in
                Buffer.add_char b hexdig.[i lsr 4]; Buffer.add_char b hexdig.[i land 15]) bs;
    Buffer.contents b
let hv c = match c with
  | '0'..'9' -> Char.code c - 48 | 'a'..'f' -> Char.code c - 87 | 'A'..'F' -> Char.code c - 55
  | _ -> failwith "bad hex"
let unhx (s : string) : byte list =
  if s = "-" || s = "" then [] else begin
    let n = String.length s / 2 in
    let rec go i acc = if i < 0 then acc else go (i - 1) (byte_tab.(hv s.[2*i] * 16 + hv s.[2*i+1]) :: acc) in
    go (n - 1) []
  end

let split_on c s = String.split_on_char c s
let fields (l : string) : string list = List.filter (fun x -> x <> "") (split_on ' ' l)

let kvs (s : string) : (byte list * byte list) list =
  if s = "-" then [] else
    List.map (fun kv -> match split_on ':' kv with
        | [k; v] -> (unhx k, unhx v)
        | _ -> failwith "bad kv") (split_on ',' s)

let opt (fs : string list) : (string, string) Hashtbl.t =
  let h = Hashtbl.create 16 in
  List.iter (fun f -> match String.index_opt f '=' with
      | Some i -> Hashtbl.replace h (String.sub f 0 i) (String.sub f (i+1) (String.length f - i - 1))
      | None -> ()) fs; h

let err_name (e : err) : string = match e with
  | EShortBuffer -> "shortbuffer" | EEOF -> "eof" | EUnexpectedEOF -> "unexpectedeof"
  | ETruncated -> "truncated" | EBadMagic -> "badmagic" | ERecordTooLarge -> "recordtoolarge"
  | EChunkTooLarge -> "chunktoolarge" | ENestedChunk -> "nestedchunk"
  | EInvalidZeroOpcode -> "zeroopcode" | EInvalidChunkCrc -> "invalidchunkcrc"
  | ELengthOutOfRange -> "lengthoutofrange" | EBadOffset -> "badoffset"
  | EUnknownSchema -> "unknownschema" | EAttachmentSize -> "attachmentsize"
  | EUnexpectedToken -> "unexpectedtoken" | EMetadataNotFound -> "metadatanotfound"
  | EInjected -> "injected" | ECallback -> "callback" | EOther -> "other"
let err_of_name (s : string) : err = match s with
  | "shortbuffer" -> EShortBuffer | "eof" -> EEOF | "unexpectedeof" -> EUnexpectedEOF
  | "truncated" -> ETruncated | "badmagic" -> EBadMagic | "recordtoolarge" -> ERecordTooLarge
  | "chunktoolarge" -> EChunkTooLarge | "nestedchunk" -> ENestedChunk
  | "zeroopcode" -> EInvalidZeroOpcode | "invalidchunkcrc" -> EInvalidChunkCrc
  | "lengthoutofrange" -> ELengthOutOfRange | "badoffset" -> EBadOffset
  | "unknownschema" -> EUnknownSchema | "attachmentsize" -> EAttachmentSize
  | "unexpectedtoken" -> EUnexpectedToken | "metadatanotfound" -> EMetadataNotFound
  | "injected" -> EInjected | "callback" -> ECallback | _ -> EOther
let res (e : err option) : string = match e with None -> "ok" | Some e -> "err:" ^ err_name e

(* ---------- script reading ---------- *)
let read_cases (path : string) : string list list =
  let ic = open_in path in
  let cases = ref [] and cur = ref [] in
  (try while true do
      let line = input_line ic in
      if line = "" then ()
      else if String.length line >= 5 && String.sub line 0 5 = "case " then cur := [line]
      else if line = "end" then (cases := List.rev !cur :: !cases; cur := [])
      else cur := line :: !cur
    done with End_of_file -> ());
  close_in ic; List.rev !cases

