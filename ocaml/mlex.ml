(* lex mode: the lexer model on a byte string with a configurable source *)
open Model
open Util

let end_of_string (s : string) : err option = if s = "eof" || s = "ok" then None else Some (err_of_name s)
let string_of_end (e : err option) : string = match e with None -> "eof" | Some e -> err_name e

let parse_lopts (m : (string, string) Hashtbl.t) : lopts =
  let g k d = try Hashtbl.find m k with Not_found -> d in
  let b k = g k "0" = "1" in
  let cb = g "cb" "none" in
  { lo_skip_magic = b "skipmagic"; lo_validate = b "validate"; lo_compute_acrc = b "acrc";
    lo_emit_chunks = b "emitchunks"; lo_emit_invalid = b "emitinvalid";
    lo_max_record = n_of_string (g "maxrecord" "0"); lo_max_chunk = n_of_string (g "maxchunk" "0");
    lo_cb = (if cb = "none" then CbNone else if cb = "fail" then CbFail
             else if String.length cb > 8 && String.sub cb 0 8 = "partial:" then
               CbPartial (nat_of_int (int_of_string (String.sub cb 8 (String.length cb - 8))))
             else CbFull);
    lo_custom = (if b "custom" then [List.map (fun c -> byte_tab.(Char.code c)) ['x'; 'o'; 'r']] else []) }

let firstn_ml n l = let rec go n l acc = if n <= 0 then List.rev acc else match l with [] -> List.rev acc | x :: r -> go (n - 1) r (x :: acc) in go n l []

type dectab = ((byte list * byte list * string), (byte list * err option)) Hashtbl.t

let make_source (srcm : (string, string) Hashtbl.t) (data : byte list) : rdr =
  let g k d = try Hashtbl.find srcm k with Not_found -> d in
  let fail = int_of_string (g "fail" "-1") in
  let seek = g "seek" "0" = "1" in
  if fail >= 0 && fail <= List.length data then
    { r_buf = firstn_ml fail data; r_end = Some EInjected; r_seek = seek }
  else { r_buf = data; r_end = None; r_seek = seek }

let needs : (string, unit) Hashtbl.t = Hashtbl.create 16

let make_oracle (tab : dectab) : doracle =
  fun comp avail aend ->
    let key = (comp, avail, string_of_end aend) in
    match Hashtbl.find_opt tab key with
    | Some r -> r
    | None ->
      Hashtbl.replace needs (Printf.sprintf "need %s %s %s" (hx comp) (hx avail) (string_of_end aend)) ();
      ([], Some EOther)

let print_outcome_n (o : n outcome) : string = match o with
  | Ok v -> string_of_n v | Err e -> "err:" ^ err_name e | _ -> "crash"

let print_event (ev : event) : unit = match ev with
  | EvToken (op, body) -> Printf.printf "tok %d %s\n" (int_of_byte op) (hx body)
  | EvInvalidChunk -> print_endline "invalidchunk"
  | EvAttachment a ->
    Printf.printf "att %s %s %s %s %s %s %s %s %s\n" (string_of_n a.ao_log) (string_of_n a.ao_create)
      (hx a.ao_name) (hx a.ao_media) (string_of_n a.ao_size) (hx a.ao_data)
      (match a.ao_data_end with None -> "ok" | Some e -> "err:" ^ err_name e)
      (print_outcome_n a.ao_computed) (print_outcome_n a.ao_parsed)

let parse_common (lines : string list) =
  let lo = ref None and srcm = ref (Hashtbl.create 1) and data = ref [] in
  let tab : dectab = Hashtbl.create 16 in
  let extra = ref [] in
  List.iter (fun line ->
      let f = Array.of_list (fields line) in
      match f.(0) with
      | "lopts" -> lo := Some (parse_lopts (opt (List.tl (Array.to_list f))))
      | "src" -> srcm := opt (List.tl (Array.to_list f))
      | "file" -> data := unhx f.(1)
      | "dec" -> Hashtbl.replace tab (unhx f.(1), unhx f.(2), f.(3)) (unhx f.(4), end_of_string f.(5))
      | _ -> extra := line :: !extra) lines;
  (!lo, !srcm, !data, tab, List.rev !extra)

let total_plain (tab : dectab) = Hashtbl.fold (fun _ (p, _) acc -> acc + List.length p) tab 0

let run_lex (lines : string list) : unit =
  Hashtbl.reset needs;
  let (lo, srcm, data, tab, _) = parse_common lines in
  let lo = match lo with Some l -> l | None -> failwith "no lopts" in
  let src = make_source srcm data in
  let fuel = nat_of_int (List.length data + total_plain tab + 16) in
  (match lex_all lo (make_oracle tab) fuel src with
   | Ok ((evs, e), st) ->
     print_endline "new ok";
     List.iter print_event evs;
     Printf.printf "endtok %s\n" (if e = EEOF then "err:eof" else "err:" ^ err_name e);
     Printf.printf "allocs %s\n" (String.concat "," (List.map string_of_n st.lx_allocs))
   | Err e -> Printf.printf "new err:%s\n" (err_name e)
   | Panic p -> Printf.printf "panic site%s\n" (string_of_n p)
   | Exit p -> Printf.printf "exit site%s\n" (string_of_n p)
   | OutOfFuel -> print_endline "outoffuel");
  Hashtbl.iter (fun k () -> print_endline k) needs
