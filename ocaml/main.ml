(* main.ml - dispatch on mode; one case at a time *)
open Util
let () =
  let mode = Sys.argv.(1) in
  let cases = read_cases Sys.argv.(2) in
  List.iter (fun c ->
      print_endline (List.hd c);
      (match mode with
       | "write" -> Mwrite.run_write (List.tl c)
       | "lex" -> Mlex.run_lex (List.tl c)
       | "read" -> Mread.run_read (List.tl c)
       | "parse" -> Mparse.run_parse (List.tl c)
       | "ros1msg" -> Mros.run_ros1msg (List.tl c)
       | "bag" -> Mbag.run_bag (List.tl c)
       | "db3" -> Mdb3.run_db3 (List.tl c)
       | "schemas" -> Mschema.run_schemas (List.tl c)
       | "pyread" -> Mpy.run_pyread (List.tl c)
       | "pywrite" -> Mpy.run_pywrite (List.tl c)
       | _ -> failwith "unknown mode");
      print_endline "end") cases
