(* bag mode: Bag2MCAP model (bag walk + writer model) *)
open Model
open Util
open Mlex

let run_bag (lines : string list) : unit =
  Hashtbl.reset needs;
  let o = ref None and lib = ref [] and data = ref [] in
  let table : (byte list * byte list) list ref = ref [] in
  let dec : dectab = Hashtbl.create 8 in
  List.iter (fun line ->
      let f = Array.of_list (fields line) in
      match f.(0) with
      | "wopts" -> o := Some (Mwrite.parse_wopts (opt (List.tl (Array.to_list f))))
      | "lib" -> lib := unhx f.(1)
      | "comp" -> table := (unhx f.(1), unhx f.(2)) :: !table
      | "dec" -> Hashtbl.replace dec (unhx f.(1), unhx f.(2), f.(3)) (unhx f.(4), end_of_string f.(5))
      | "bag" -> data := unhx f.(1)
      | _ -> ()) lines;
  let o = match !o with Some o -> o | None -> failwith "no wopts" in
  let tbl = !table in
  let compress _k plain = match List.assoc_opt plain tbl with Some p -> p | None -> plain in
  let fuel = nat_of_int (List.length !data + total_plain dec + 16) in
  let r = bag2mcap o !lib compress (make_oracle dec) fuel !data in
  Printf.printf "bag %s\n" (res r.br_err);
  List.iter (fun p -> Printf.printf "write %s\n" (hx p)) r.br_writes;
  Hashtbl.iter (fun k () -> print_endline k) needs
