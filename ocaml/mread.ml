(* read mode: Reader model (NewReader, Info, Messages, GetAttachmentReader, GetMetadata) *)
open Model
open Util
open Mlex

let kv_string (m : (byte list * byte list) list) : string =
  match m with
  | [] -> "-"
  | _ -> String.concat "," (List.map (fun (k, v) ->
      (if k = [] then "" else hx k) ^ ":" ^ (if v = [] then "" else hx v)) m)

let schema_string (s : schema option) : string = match s with
  | None -> "noschema"
  | Some s -> Printf.sprintf "schema %s %s %s %s" (string_of_n s.s_id) (hx s.s_name) (hx s.s_encoding) (hx s.s_data)
let channel_string (c : channel) : string =
  Printf.sprintf "channel %s %s %s %s %s" (string_of_n c.c_id) (string_of_n c.c_schema) (hx c.c_topic) (hx c.c_menc) (kv_string c.c_meta)
let message_string (m : message) : string =
  Printf.sprintf "message %s %s %s %s %s" (string_of_n m.m_chan) (string_of_n m.m_seq) (string_of_n m.m_log) (string_of_n m.m_pub) (hx m.m_data)

let parse_ropts (tokens : string list) : ropt list =
  List.filter_map (fun t ->
      let (k, v) = match String.index_opt t ':' with
        | Some i -> (String.sub t 0 i, String.sub t (i+1) (String.length t - i - 1))
        | None -> (t, "") in
      match k with
      | "after" -> Some (OAfter (coqz_of_string v))
      | "before" -> Some (OBefore (coqz_of_string v))
      | "afternanos" -> Some (OAfterNanos (n_of_string v))
      | "beforenanos" -> Some (OBeforeNanos (n_of_string v))
      | "topics" -> Some (OTopics (if v = "-" then [] else List.map unhx (split_on ',' v)))
      | "order" -> Some (OInOrder (if v = "log" then LogTimeOrder else if v = "rev" then ReverseLogTimeOrder else FileOrder))
      | "index" -> Some (OUsingIndex (v = "1"))
      | "mdcb" -> Some OMetadataCb
      | _ -> None) tokens

type dalltab = ((byte list * byte list * string), byte list option) Hashtbl.t

let make_dall (tab : dalltab) : dalloracle =
  fun comp payload usize ->
    let key = (comp, payload, string_of_n usize) in
    match Hashtbl.find_opt tab key with
    | Some r -> r
    | None ->
      Hashtbl.replace needs (Printf.sprintf "needall %s %s %s" (hx comp) (hx payload) (string_of_n usize)) ();
      None

let stats_string (s : statistics) : string =
  let cs = String.concat "," (List.map (fun (k, v) -> string_of_n k ^ ":" ^ string_of_n v) s.st_counts) in
  Printf.sprintf "%s %s %s %s %s %s %s %s %s" (string_of_n s.st_messages) (string_of_n s.st_schemas) (string_of_n s.st_channels)
    (string_of_n s.st_attachments) (string_of_n s.st_metadata) (string_of_n s.st_chunks) (string_of_n s.st_start)
    (string_of_n s.st_end) (if cs = "" then "-" else cs)

let print_info (sm : summ) : unit =
  (match sm.sm_footer with
   | Some f -> Printf.printf "footer %s %s %s\n" (string_of_n f.f_summary_start) (string_of_n f.f_summary_offset_start) (string_of_n f.f_crc)
   | None -> print_endline "nofooter");
  (match sm.sm_stats with Some s -> Printf.printf "stats %s\n" (stats_string s) | None -> print_endline "nostats");
  List.iter (fun (_, s) -> print_endline ("i" ^ schema_string (Some s))) sm.sm_schemas;
  List.iter (fun (_, c) -> print_endline ("i" ^ channel_string c)) sm.sm_channels;
  List.iter (fun ci ->
      let offs = String.concat "," (List.map (fun (k, v) -> string_of_n k ^ ":" ^ string_of_n v) ci.ci_mioffsets) in
      Printf.printf "ci %s %s %s %s %s %s %s %s %s\n" (string_of_n ci.ci_start) (string_of_n ci.ci_end) (string_of_n ci.ci_offset)
        (string_of_n ci.ci_length) (if offs = "" then "-" else offs) (string_of_n ci.ci_milength) (hx ci.ci_comp)
        (string_of_n ci.ci_csize) (string_of_n ci.ci_usize)) sm.sm_cis;
  List.iter (fun ai -> Printf.printf "ai %s %s %s %s %s %s %s\n" (string_of_n ai.ai_offset) (string_of_n ai.ai_length)
                (string_of_n ai.ai_log) (string_of_n ai.ai_create) (string_of_n ai.ai_size) (hx ai.ai_name) (hx ai.ai_media)) sm.sm_ais;
  List.iter (fun mx -> Printf.printf "mx %s %s %s\n" (string_of_n mx.mx_offset) (string_of_n mx.mx_length) (hx mx.mx_name)) sm.sm_mxs

let crash_string (o : 'a outcome) : string = match o with
  | Panic p -> "panic site" ^ string_of_n p | Exit p -> "exit site" ^ string_of_n p | OutOfFuel -> "outoffuel" | _ -> "?"

let run_read (lines : string list) : unit =
  Hashtbl.reset needs;
  let (_, srcm, data, tab, extra) = parse_common lines in
  let dalltab : dalltab = Hashtbl.create 16 in
  let ropts = ref [] and ops = ref [] in
  List.iter (fun line ->
      let f = Array.of_list (fields line) in
      match f.(0) with
      | "ropts" -> ropts := parse_ropts (List.tl (Array.to_list f))
      | "op" -> ops := List.tl (Array.to_list f) :: !ops
      | "dall" -> Hashtbl.replace dalltab (unhx f.(1), unhx f.(2), f.(3)) (if f.(4) = "ok" then Some (unhx f.(5)) else None)
      | _ -> ()) extra;
  let g k d = try Hashtbl.find srcm k with Not_found -> d in
  let fail = int_of_string (g "fail" "-1") in
  let fsrc = { fs_data = data; fs_fail = (if fail >= 0 then Some (n_of_int fail) else None) } in
  let ds = make_oracle tab and da = make_dall dalltab in
  List.iter (fun op ->
      (match new_reader ds fsrc true with
       | Ok (h, _) ->
         Printf.printf "newreader ok %s %s\n" (hx h.h_profile) (hx h.h_library);
         (match op with
          | "info" :: _ ->
            (match info ds fsrc with
             | Ok sm -> print_endline "info ok"; print_info sm;
               let topics = match sm.sm_stats with
                 | None -> []
                 | Some st -> List.filter_map (fun (ch, _) -> match tab_get ch sm.sm_channels with
                     | Some c -> Some (hx c.c_topic) | None -> None) st.st_counts in
               Printf.printf "channelcounts %s\n" (String.concat "," (List.sort_uniq compare topics))
             | Err e -> Printf.printf "info err:%s\n" (err_name e)
             | o -> print_endline (crash_string o))
          | "getatt" :: off :: _ ->
            (match get_attachment fsrc (n_of_string off) with
             | Ok a -> Printf.printf "getatt ok %s %s %s %s %s %s %s %s %s\n" (string_of_n a.ao_log) (string_of_n a.ao_create)
                         (hx a.ao_name) (hx a.ao_media) (string_of_n a.ao_size) (hx a.ao_data)
                         (match a.ao_data_end with None -> "ok" | Some e -> "err:" ^ err_name e)
                         (print_outcome_n a.ao_computed) (print_outcome_n a.ao_parsed)
             | Err e -> Printf.printf "getatt err:%s\n" (err_name e)
             | o -> print_endline (crash_string o))
          | "getmd" :: off :: _ ->
            (match get_metadata ds fsrc (n_of_string off) with
             | Ok md -> Printf.printf "getmd ok %s %s\n" (hx md.md_name) (kv_string md.md_meta)
             | Err e -> Printf.printf "getmd err:%s\n" (err_name e)
             | o -> print_endline (crash_string o))
          | "messages" :: _ ->
            (match read_messages ds da fsrc !ropts with
             | Ok rr ->
               let slots = rr.rr_slots in
               (match rr.rr_mode with
                | None -> Printf.printf "messages err:%s\n" (err_name rr.rr_end)
                | Some m ->
                  Printf.printf "messages ok %s\n" (match m with MScan -> "scan" | MIndexed -> "indexed");
                  List.iter (fun md -> Printf.printf "md %s %s\n" (hx md.md_name) (kv_string md.md_meta)) rr.rr_mds;
                  List.iter (fun ((s, c), m) -> Printf.printf "msg %s %s %s\n" (schema_string s) (channel_string c) (message_string m)) rr.rr_msgs;
                  Printf.printf "endmsg err:%s\n" (err_name rr.rr_end);
                  print_endline "aliaschanged 0";
                  (match m with MIndexed -> let (a, b) = slots in Printf.printf "slots %d %d\n" (int_of_nat a) (int_of_nat b) | MScan -> ()))
             | Err e -> Printf.printf "newreader err:%s\n" (err_name e)
             | o -> print_endline (crash_string o))
          | _ -> ())
       | Err e -> Printf.printf "newreader err:%s\n" (err_name e)
       | o -> print_endline (crash_string o))) (List.rev !ops);
  Hashtbl.iter (fun k () -> print_endline k) needs
