(* parse mode: each Parse* function of the model on a byte string *)
open Model
open Util
open Mread

let nn_string (l : (n * n) list) : string =
  match l with [] -> "-" | _ -> String.concat "," (List.map (fun (k, v) -> string_of_n k ^ ":" ^ string_of_n v) l)

let show (o : 'a outcome) (f : 'a -> string) : string = match o with
  | Ok v -> "ok " ^ f v
  | Err e -> "err:" ^ err_name e
  | Panic _ -> "panic" | Exit _ -> "exit" | OutOfFuel -> "outoffuel"

let parse_one (kind : string) (b : byte list) : string =
  match kind with
  | "header" -> show (parse_header b) (fun v -> Printf.sprintf "%s %s" (hx v.h_profile) (hx v.h_library))
  | "footer" -> show (parse_footer b) (fun v -> Printf.sprintf "%s %s %s" (string_of_n v.f_summary_start) (string_of_n v.f_summary_offset_start) (string_of_n v.f_crc))
  | "schema" -> show (parse_schema b) (fun v -> schema_string (Some v))
  | "channel" -> show (parse_channel b) channel_string
  | "message" -> show (parse_message b) message_string
  | "chunk" -> show (parse_chunk b) (fun v -> Printf.sprintf "%s %s %s %s %s %s" (string_of_n v.k_start) (string_of_n v.k_end) (string_of_n v.k_usize) (string_of_n v.k_crc) (hx v.k_comp) (hx v.k_records))
  | "msgindex" -> show (parse_msgindex b) (fun v -> Printf.sprintf "%s %s" (string_of_n v.mi_chan) (nn_string v.mi_entries))
  | "chunkindex" -> show (parse_chunkindex b) (fun ci -> Printf.sprintf "%s %s %s %s %s %s %s %s %s" (string_of_n ci.ci_start) (string_of_n ci.ci_end) (string_of_n ci.ci_offset)
                                                  (string_of_n ci.ci_length) (nn_string ci.ci_mioffsets) (string_of_n ci.ci_milength) (hx ci.ci_comp) (string_of_n ci.ci_csize) (string_of_n ci.ci_usize))
  | "attindex" -> show (parse_attindex b) (fun ai -> Printf.sprintf "%s %s %s %s %s %s %s" (string_of_n ai.ai_offset) (string_of_n ai.ai_length) (string_of_n ai.ai_log) (string_of_n ai.ai_create) (string_of_n ai.ai_size) (hx ai.ai_name) (hx ai.ai_media))
  | "statistics" -> show (parse_statistics b) stats_string
  | "metadata" -> show (parse_metadata b) (fun v -> Printf.sprintf "%s %s" (hx v.md_name) (kv_string v.md_meta))
  | "mdindex" -> show (parse_mdindex b) (fun v -> Printf.sprintf "%s %s %s" (string_of_n v.mx_offset) (string_of_n v.mx_length) (hx v.mx_name))
  | "sumoffset" -> show (parse_sumoffset b) (fun v -> Printf.sprintf "%d %s %s" (int_of_byte v.so_op) (string_of_n v.so_start) (string_of_n v.so_length))
  | "dataend" -> show (parse_dataend b) (fun v -> string_of_n v)
  | _ -> "unknownkind"

let run_parse (lines : string list) : unit =
  List.iter (fun line ->
      let f = Array.of_list (fields line) in
      if f.(0) = "parse" then Printf.printf "parse %s %s\n" f.(1) (parse_one f.(1) (unhx f.(2)))) lines
