(* schemas mode: getSchemas of the db3 converter on a file tree given in the script *)
open Model
open Util

let comps (s : string) : byte list list =
  List.map unhx (List.filter (fun x -> x <> "") (split_on '/' s))

let run_schemas (lines : string list) : unit =
  let files = ref [] and dirs = ref [] and sdirs = ref [] and types = ref [] in
  List.iter (fun line ->
      match fields line with
      | "dir" :: p :: _ -> sdirs := comps p :: !sdirs
      | "dir" :: [] -> sdirs := [] :: !sdirs
      | "mkdir" :: p :: _ -> dirs := comps p :: !dirs
      | "file" :: p :: c :: _ -> files := (comps p, unhx c) :: !files
      | "file" :: p :: [] -> files := (comps p, []) :: !files
      | "type" :: t :: _ -> types := unhx t :: !types
      | "type" :: [] -> types := [] :: !types
      | _ -> ()) lines;
  let t = { ft_files = List.rev !files; ft_dirs = List.rev !dirs @ List.rev !sdirs } in
  match get_schemas t (List.rev !sdirs) (List.rev !types) [] with
  | Ok l ->
    let l = List.sort compare (List.map (fun (k, v) -> (hx k, hx v)) l) in
    List.iter (fun (k, v) -> Printf.printf "schema %s %s\n" k v) l;
    print_endline "schemas ok"
  | Err _ -> print_endline "schemas err"
  | Panic _ -> print_endline "schemas panic"
  | Exit _ -> print_endline "schemas exit"
  | OutOfFuel -> print_endline "schemas outoffuel"
