(* pyread / pywrite modes: the model of the Python package (Py.v) on the scripts of tools/py_harness.py *)
open Model
open Util

let kvp (l : (byte list * byte list) list) : string =
  match l with [] -> "-" | _ -> String.concat "," (List.map (fun (k, v) -> hx k ^ ":" ^ hx v) l)
let nnp (l : (n * n) list) : string =
  match l with [] -> "-" | _ -> String.concat "," (List.map (fun (k, v) -> string_of_n k ^ ":" ^ string_of_n v) l)
let sn = string_of_n

let show (r : prec) : string = match r with
  | PHeader h -> Printf.sprintf "header p=%s l=%s" (hx h.h_profile) (hx h.h_library)
  | PFooter f -> Printf.sprintf "footer ss=%s sos=%s crc=%s" (sn f.f_summary_start) (sn f.f_summary_offset_start) (sn f.f_crc)
  | PSchema s -> Printf.sprintf "schema id=%s name=%s enc=%s data=%s" (sn s.s_id) (hx s.s_name) (hx s.s_encoding) (hx s.s_data)
  | PChannel c -> Printf.sprintf "channel id=%s schema=%s topic=%s menc=%s meta=%s" (sn c.c_id) (sn c.c_schema) (hx c.c_topic) (hx c.c_menc) (kvp c.c_meta)
  | PMessage m -> Printf.sprintf "message chan=%s seq=%s log=%s pub=%s data=%s" (sn m.m_chan) (sn m.m_seq) (sn m.m_log) (sn m.m_pub) (hx m.m_data)
  | PChunk k -> Printf.sprintf "chunk start=%s end=%s usize=%s crc=%s comp=%s data=%s" (sn k.k_start) (sn k.k_end) (sn k.k_usize) (sn k.k_crc) (hx k.k_comp) (hx k.k_records)
  | PMsgIndex mi -> Printf.sprintf "msgindex chan=%s recs=%s" (sn mi.mi_chan) (nnp mi.mi_entries)
  | PChunkIndex ci -> Printf.sprintf "chunkindex start=%s end=%s off=%s len=%s mio=%s milen=%s comp=%s csize=%s usize=%s"
                        (sn ci.ci_start) (sn ci.ci_end) (sn ci.ci_offset) (sn ci.ci_length) (nnp ci.ci_mioffsets) (sn ci.ci_milength)
                        (hx ci.ci_comp) (sn ci.ci_csize) (sn ci.ci_usize)
  | PAttachment a -> Printf.sprintf "attachment log=%s create=%s name=%s media=%s data=%s" (sn a.a_log) (sn a.a_create) (hx a.a_name) (hx a.a_media) (hx a.a_data)
  | PAttIndex ai -> Printf.sprintf "attindex off=%s len=%s log=%s create=%s size=%s name=%s media=%s" (sn ai.ai_offset) (sn ai.ai_length) (sn ai.ai_log)
                      (sn ai.ai_create) (sn ai.ai_size) (hx ai.ai_name) (hx ai.ai_media)
  | PStatistics st -> Printf.sprintf "statistics mc=%s sc=%s cc=%s ac=%s mdc=%s kc=%s start=%s end=%s counts=%s" (sn st.st_messages) (sn st.st_schemas)
                        (sn st.st_channels) (sn st.st_attachments) (sn st.st_metadata) (sn st.st_chunks) (sn st.st_start) (sn st.st_end) (nnp st.st_counts)
  | PMetadata m -> Printf.sprintf "metadata name=%s meta=%s" (hx m.md_name) (kvp m.md_meta)
  | PMdIndex x -> Printf.sprintf "mdindex off=%s len=%s name=%s" (sn x.mx_offset) (sn x.mx_length) (hx x.mx_name)
  | PSumOffset so -> Printf.sprintf "sumoffset op=%d start=%s len=%s" (int_of_byte so.so_op) (sn so.so_start) (sn so.so_length)
  | PDataEnd d -> Printf.sprintf "dataend crc=%s" (sn d)

let pyerr_name (e : pyerr) : string = match e with
  | PEndOfFile -> "EndOfFile" | PStruct -> "Struct" | PUnicode -> "Unicode" | PInvalidMagic -> "InvalidMagic"
  | PRecordLimit -> "RecordLimit" | PCrc -> "Crc" | PUnsupported -> "Unsupported" | PMcap -> "Mcap" | PKey -> "Key"
  | PValue -> "Value" | POverflow -> "Overflow" | PStopIter -> "StopIter" | PSpent -> "Spent"

let ending_line (e : ending) : string = match e with
  | EStop -> "end stop" | ERaise x -> "end raise " ^ pyerr_name x | EFuel -> "end fuel"

let triple_line ((sc, c), m) : string =
  Printf.sprintf "triple %s | %s | %s" (match sc with None -> "none" | Some s -> show (PSchema s)) (show (PChannel c)) (show (PMessage m))

let drain (items : 'a list) (fmt : 'a -> string) (e : ending) : unit =
  List.iter (fun x -> print_endline (fmt x)) items; print_endline (ending_line e)

let show_summary (r : summary option pres) : unit = match r with
  | PRaise e -> print_endline ("summary raise " ^ pyerr_name e)
  | PFuel -> print_endline "summary fuel"
  | POk None -> print_endline "summary none"
  | POk (Some su) ->
    print_endline ("summary stats=" ^ (match su.su_stats with None -> "none" | Some st -> show (PStatistics st)));
    List.iter (fun (_, s) -> print_endline ("ss " ^ show (PSchema s))) su.su_schemas;
    List.iter (fun (_, c) -> print_endline ("sc " ^ show (PChannel c))) su.su_channels;
    List.iter (fun k -> print_endline ("sk " ^ show (PChunkIndex k))) su.su_chunks;
    List.iter (fun a -> print_endline ("sa " ^ show (PAttIndex a))) su.su_atts;
    List.iter (fun m -> print_endline ("sm " ^ show (PMdIndex m))) su.su_mds;
    print_endline "summary end"

let get o k d = match Hashtbl.find_opt o k with Some v -> v | None -> d
let flag o k = get o k "0" = "1"

let mfilter o : mfilter =
  let topics = match get o "topics" "*" with
    | "*" -> None
    | s -> Some (List.map unhx (List.filter (fun x -> x <> "") (split_on ',' s))) in
  let num k = match get o k "-" with "-" -> None | s -> Some (n_of_string s) in
  { mf_topics = topics; mf_start = num "start"; mf_end = num "end" }

let run_pyread (lines : string list) : unit =
  let data = ref [] in
  List.iter (fun line ->
      let f = split_on ' ' line in
      match f with
      | "file" :: rest -> data := (match rest with x :: _ -> unhx x | [] -> [])
      | "op" :: op :: rest ->
        let o = opt rest in
        let v = flag o "validate" in
        print_endline ("op " ^ String.concat " " (op :: rest));
        (match op with
         | "stream" ->
           let (rs, e) = stream_records !data (flag o "skip") (flag o "emit") v limit_4g in drain rs show e
         | "ns_messages" ->
           let (ts, e) = ns_iter_messages !data v (mfilter o) (get o "order" "log" = "log") (flag o "reverse") in drain ts triple_line e
         | "sk_messages" ->
           (match sk_init !data with
            | PRaise e -> print_endline ("end raise " ^ pyerr_name e)
            | PFuel -> print_endline "end fuel"
            | POk _ -> let (ts, e) = sk_iter_messages !data v (mfilter o) (get o "order" "log" = "log") (flag o "reverse") in drain ts triple_line e)
         | "ns_header" ->
           (match ns_get_header !data v with
            | POk h -> print_endline (show (PHeader h)) | PRaise e -> print_endline ("header raise " ^ pyerr_name e) | PFuel -> print_endline "header fuel")
         | "sk_header" ->
           (match sk_init !data with
            | PRaise e -> print_endline ("header raise " ^ pyerr_name e)
            | PFuel -> print_endline "header fuel"
            | POk _ ->
              match sk_get_header !data with
              | POk h -> print_endline (show (PHeader h)) | PRaise e -> print_endline ("header raise " ^ pyerr_name e) | PFuel -> print_endline "header fuel")
         | "ns_summary" -> show_summary (ns_get_summary !data v)
         | "sk_summary" ->
           (match sk_init !data with
            | PRaise e -> print_endline ("summary raise " ^ pyerr_name e)
            | PFuel -> print_endline "summary fuel"
            | POk _ -> show_summary (sk_get_summary !data))
         | "ns_attachments" -> let (rs, e) = ns_iter is_att !data v in drain rs show e
         | "ns_metadata" -> let (rs, e) = ns_iter is_md !data v in drain rs show e
         | "sk_attachments" | "sk_metadata" ->
           (match sk_init !data with
            | PRaise e -> print_endline ("end raise " ^ pyerr_name e)
            | PFuel -> print_endline "end fuel"
            | POk _ -> let (rs, e) = (if op = "sk_attachments" then sk_iter_attachments !data else sk_iter_metadata !data) in drain rs show e)
         | _ -> print_endline "unknown op")
      | _ -> ()) lines

let run_pywrite (lines : string list) : unit =
  let o = ref None and calls = ref [] in
  List.iter (fun line ->
      let f = split_on ' ' line in
      let h = opt (List.tl f) in
      let g k = Hashtbl.find h k in
      let num k = n_of_string (g k) in
      match List.hd f with
      | "popts" ->
        let idx = split_on ',' (get h "idx" "") in
        o := Some { po_chunk_size = num "chunk_size"; po_idx_att = List.mem "att" idx; po_idx_chunk = List.mem "chunk" idx;
                    po_idx_msg = List.mem "msg" idx; po_idx_md = List.mem "md" idx; po_repeat_channels = g "rc" = "1";
                    po_repeat_schemas = g "rs" = "1"; po_chunking = g "chunking" = "1"; po_statistics = g "stats" = "1";
                    po_summary_offsets = g "so" = "1"; po_crcs = g "crcs" = "1"; po_data_crcs = g "dcrcs" = "1" }
      | "start" -> calls := PcStart (unhx (g "profile"), unhx (g "library")) :: !calls
      | "schema" -> calls := PcSchema (unhx (g "name"), unhx (g "enc"), unhx (g "data")) :: !calls
      | "channel" -> calls := PcChannel (unhx (g "topic"), unhx (g "menc"), num "schema", kvs (g "meta")) :: !calls
      | "message" -> calls := PcMessage (num "chan", num "log", unhx (g "data"), num "pub", num "seq") :: !calls
      | "attachment" -> calls := PcAttachment (num "create", num "log", unhx (g "name"), unhx (g "media"), unhx (g "data")) :: !calls
      | "metadata" -> calls := PcMetadata (unhx (g "name"), kvs (g "meta")) :: !calls
      | "finish" -> calls := PcFinish :: !calls
      | _ -> ()) lines;
  match !o with
  | None -> print_endline "raise NoOptions"
  | Some o ->
    match py_write o (List.rev !calls) with
    | POk b -> print_endline ("out " ^ hx b)
    | PRaise e -> print_endline ("raise " ^ pyerr_name e)
    | PFuel -> print_endline "raise fuel"
