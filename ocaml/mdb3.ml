(* db3 mode: DB3ToMCAP model over logged query rows and assembled schemas *)
open Model
open Util

let run_db3 (lines : string list) : unit =
  let o = ref None and lib = ref [] in
  let table : (byte list * byte list) list ref = ref [] in
  let topics = ref [] and msgs = ref [] and schemas = ref [] and schemas_ok = ref true in
  List.iter (fun line ->
      let f = Array.of_list (fields line) in
      match f.(0) with
      | "wopts" -> o := Some (Mwrite.parse_wopts (opt (List.tl (Array.to_list f))))
      | "lib" -> lib := unhx f.(1)
      | "comp" -> table := (unhx f.(1), unhx f.(2)) :: !table
      | "topicrow" ->
        topics := { t_id = coqz_of_string f.(1); t_name = unhx f.(2); t_type = unhx f.(3); t_fmt = unhx f.(4);
                    t_qos = (if f.(5) = "NULL" then None else Some (unhx (String.sub f.(5) 1 (String.length f.(5) - 1)))) } :: !topics
      | "msgrow" -> msgs := { mr_topic = coqz_of_string f.(1); mr_ts = coqz_of_string f.(2); mr_data = unhx f.(3) } :: !msgs
      | "schema" -> schemas := (unhx f.(1), unhx f.(2)) :: !schemas
      | "schemas" -> if f.(1) = "err" then schemas_ok := false
      | _ -> ()) lines;
  let o = match !o with Some o -> o | None -> failwith "no wopts" in
  let tbl = !table in
  let compress _k plain = match List.assoc_opt plain tbl with Some p -> p | None -> plain in
  let r = db3_to_mcap o !lib compress (List.rev !topics) (if !schemas_ok then Some (List.rev !schemas) else None) (List.rev !msgs) in
  Printf.printf "db3 %s\n" (res r.dr_err);
  List.iter (fun p -> Printf.printf "write %s\n" (hx p)) r.dr_writes
