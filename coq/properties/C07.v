(* C07 - damaged chunk payloads and attachments.
   "When a reader is asked to validate chunk checksums, a file whose chunk payload has been altered
    never yields records that differ from the original without reporting it: it either returns the
    original records or stops with an error (or an invalid-chunk token when so configured) no later
    than the damaged chunk.  Likewise an altered attachment is exposed by a mismatch between the
    computed and the stored attachment CRC."

   Model: Lexer.v; files are render items (Writer.v items); specification side in LexSpec.v.
   with_records k r = the chunk k with its stored payload replaced by r, header unchanged.
   Hypothesis `k_crc k <> 0`: a chunk written without CRC (crc field 0) is never checked. *)
From Mcap Require ConstsTie LayoutTie DecisionTieL. (* regenerated ties to /repo's source that this property's model relies on *)
From Coq Require Import List NArith ZArith Bool.
From Coq.Strings Require Import Byte.
From Mcap Require Import Bytes GoSem Crc32 Records RecordsFacts Writer Lexer LexSpec LexerFactsB.
Import ListNotations.
Open Scope N_scope.

(* 1. uncompressed chunk, exactly one payload byte replaced (so any single bit flip): the read
      delivers exactly the events in front of the chunk and then reports the damage; with
      EmitInvalidChunks the marker is followed by exactly the events after the chunk.  No event of
      the damaged chunk is ever delivered. *)
Theorem C07_uncompressed_byte : forall lo dstream pre k post p1 b b' p2 sk,
  wf_file lo dstream (pre ++ IChunk k :: post) ->
  lo_validate lo = true -> lo_emit_chunks lo = false ->
  k_comp k = [] -> mem_bytes [] (lo_custom lo) = false -> k_crc k <> 0 ->
  k_records k = p1 ++ b :: p2 -> b <> b' ->
  let items' := pre ++ IChunk (with_records k (p1 ++ b' :: p2)) :: post in
  forall fuel, (file_steps lo dstream (pre ++ IChunk k :: post) + 1 <= fuel)%nat ->
  exists st, lex_all lo dstream fuel (src_of (render items') sk) =
    if lo_emit_invalid lo
    then Ok (file_events lo dstream pre ++ EvInvalidChunk :: file_events lo dstream post, EEOF, st)
    else Ok (file_events lo dstream pre, EInvalidChunkCrc, st).
Proof. exact C07_uncompressed_byte_thm. Qed.
Print Assumptions C07_uncompressed_byte.

(* 2. any compression, the stored payload replaced by arbitrary bytes of the same length: the read
      is identical to the undamaged one, or stops with an error right after the events in front of
      the chunk, or (EmitInvalidChunks) delivers those events and then the invalid-chunk marker, or
      the decoder produced different bytes with the same length and the same CRC-32 (all a 32-bit
      check can promise).  An error of class io.EOF is possible only if the decoder itself ends
      cleanly without a single byte (codec_reports_eof). *)
Definition C07_chunk_general_statement : Prop :=
  forall lo dstream pre k post recs' sk,
  wf_file lo dstream (pre ++ IChunk k :: post) ->
  lo_validate lo = true -> lo_emit_chunks lo = false -> k_crc k <> 0 ->
  blen recs' = blen (k_records k) ->
  let items := pre ++ IChunk k :: post in
  let items' := pre ++ IChunk (with_records k recs') :: post in
  forall fuel, (file_steps lo dstream items + 1 <= fuel)%nat ->
  let r := lex_all lo dstream fuel (src_of (render items') sk) in
  (exists st, r = Ok (file_events lo dstream items, EEOF, st))
  \/ (exists e st, r = Ok (file_events lo dstream pre, e, st)
                   /\ (e = EEOF -> codec_reports_eof lo dstream k recs'))
  \/ (lo_emit_invalid lo = true /\ lextends (file_events lo dstream pre ++ [EvInvalidChunk]) r)
  \/ crc_collision lo dstream k recs'.

Theorem C07_chunk_general : C07_chunk_general_statement.
Proof. exact C07_chunk_general_thm. Qed.
Print Assumptions C07_chunk_general.

(* 3. one content byte of an attachment replaced (data, name, media type, log time, create time;
      not a length prefix): the callback gets the altered content together with a computed CRC that
      differs from the stored one *)
Theorem C07_attachment : forall lo dstream pre a data a' data' post sk,
  let crc := crc32 (enc_attachment_fields a ++ data) in
  wf_file lo dstream (pre ++ IAttach a data crc :: post) ->
  lo_cb lo = CbFull -> lo_compute_acrc lo = true ->
  att_content_flip a data a' data' ->
  forall fuel, (file_steps lo dstream (pre ++ IAttach a data crc :: post) + 1 <= fuel)%nat ->
  exists st ob c1 c2,
    lex_all lo dstream fuel (src_of (render (pre ++ IAttach a' data' crc :: post)) sk)
      = Ok (file_events lo dstream pre ++ EvAttachment ob :: file_events lo dstream post, EEOF, st)
    /\ ao_name ob = a_name a' /\ ao_data ob = data'
    /\ ao_computed ob = Ok c1 /\ ao_parsed ob = Ok c2 /\ c1 <> c2.
Proof. exact C07_attachment_flip_thm. Qed.
Print Assumptions C07_attachment.

(* att_content_flip really is "one byte of the rendered record replaced", strictly between the
   9-byte record head and the 4 bytes of the stored CRC *)
Theorem C07_attachment_flip_is_one_byte : forall lo a data a' data' crc,
  att_content_flip a data a' data' -> wf_attach_item lo a data crc ->
  exists hd p1 b b' p2,
    render_item (IAttach a data crc) = hd ++ p1 ++ b :: p2 ++ u32 crc
    /\ render_item (IAttach a' data' crc) = hd ++ p1 ++ b' :: p2 ++ u32 crc
    /\ b <> b' /\ length hd = 9%nat.
Proof. exact att_content_flip_render. Qed.
Print Assumptions C07_attachment_flip_is_one_byte.

(* 3'. the same for ANY alteration of fields/data that still frames as an attachment and differs
       from the original in exactly one byte of the CRC-covered bytes *)
Theorem C07_attachment_semantic : forall lo dstream pre a data a' data' post p1 b b' p2 sk,
  let crc := crc32 (enc_attachment_fields a ++ data) in
  wf_file lo dstream (pre ++ IAttach a' data' crc :: post) ->
  lo_cb lo = CbFull -> lo_compute_acrc lo = true ->
  enc_attachment_fields a ++ data = p1 ++ b :: p2 ->
  enc_attachment_fields a' ++ data' = p1 ++ b' :: p2 ->
  b <> b' ->
  forall fuel, (file_steps lo dstream (pre ++ IAttach a' data' crc :: post) + 1 <= fuel)%nat ->
  exists st ob c1 c2,
    lex_all lo dstream fuel (src_of (render (pre ++ IAttach a' data' crc :: post)) sk)
      = Ok (file_events lo dstream pre ++ EvAttachment ob :: file_events lo dstream post, EEOF, st)
    /\ ao_name ob = a_name a' /\ ao_data ob = data'
    /\ ao_computed ob = Ok c1 /\ ao_parsed ob = Ok c2 /\ c1 <> c2.
Proof. exact C07_attachment_thm. Qed.
Print Assumptions C07_attachment_semantic.

(* 3''. the stored CRC itself altered *)
Theorem C07_attachment_crc : forall lo dstream pre a data crc' post sk,
  wf_file lo dstream (pre ++ IAttach a data crc' :: post) ->
  lo_cb lo = CbFull -> lo_compute_acrc lo = true ->
  crc' <> crc32 (enc_attachment_fields a ++ data) ->
  forall fuel, (file_steps lo dstream (pre ++ IAttach a data crc' :: post) + 1 <= fuel)%nat ->
  exists st ob c1 c2,
    lex_all lo dstream fuel (src_of (render (pre ++ IAttach a data crc' :: post)) sk)
      = Ok (file_events lo dstream pre ++ EvAttachment ob :: file_events lo dstream post, EEOF, st)
    /\ ao_computed ob = Ok c1 /\ ao_parsed ob = Ok c2 /\ c1 <> c2.
Proof. exact C07_attachment_crc_thm. Qed.
Print Assumptions C07_attachment_crc.

(* A replaced byte inside one of the three length prefixes of an attachment (name length, media-type
   length, data size) re-frames the record; no CRC statement is proved for that case here - it is
   left to the correspondence harness. *)

(* ----- non-vacuity ----- *)
Example C07_ex_chunk_hyps : forall emit_invalid,
  wf_file (ex_lopts true emit_invalid CbFull) ds_id (ex_pre ++ IChunk ex_k :: ex_mid ++ IAttach ex_att ex_adata ex_acrc :: ex_post)
  /\ k_comp ex_k = [] /\ mem_bytes [] (lo_custom (ex_lopts true emit_invalid CbFull)) = false /\ k_crc ex_k <> 0
  /\ k_records ex_k = ex_p1 ++ ex_b :: ex_p2 /\ ex_b <> ex_b'
  /\ blen (ex_p1 ++ ex_b' :: ex_p2) = blen (k_records ex_k).
Proof. exact ex_C07_chunk_hyps. Qed.

Example C07_ex_chunk_error :
  exists st, lex_all (ex_lopts true false CbFull) ds_id 30 (src_of (render ex_items_damaged) false)
  = Ok ([EvToken OpHeader (enc_header {| h_profile := []; h_library := [x6c] |})], EInvalidChunkCrc, st).
Proof. exact ex_C07_chunk_error. Qed.

Example C07_ex_chunk_marker :
  exists st, lex_all (ex_lopts true true CbFull) ds_id 30 (src_of (render ex_items_damaged) false)
  = Ok ([EvToken OpHeader (enc_header {| h_profile := []; h_library := [x6c] |}); EvInvalidChunk;
         EvAttachment (attach_obs (ex_lopts true true CbFull) ex_att ex_adata ex_acrc);
         EvToken OpDataEnd (u32 0);
         EvToken OpFooter (enc_footer {| f_summary_start := 0; f_summary_offset_start := 0; f_crc := 0 |})], EEOF, st).
Proof. exact ex_C07_chunk_marker. Qed.

(* the hypothesis lo_validate = true matters: without validation the altered message is delivered *)
Example C07_ex_not_validating :
  exists st body, lex_all (ex_lopts false false CbNone) ds_id 30 (src_of (render ex_items_damaged) false)
  = Ok ([EvToken OpHeader (enc_header {| h_profile := []; h_library := [x6c] |});
         EvToken OpMessage body; EvToken OpMessage ex_m2;
         EvToken OpDataEnd (u32 0);
         EvToken OpFooter (enc_footer {| f_summary_start := 0; f_summary_offset_start := 0; f_crc := 0 |})], EEOF, st)
  /\ body <> ex_m1.
Proof. exact ex_C07_not_validating. Qed.

Example C07_ex_attachment_hyps :
  wf_file (ex_lopts true false CbFull) ds_id ((ex_pre ++ IChunk ex_k :: ex_mid) ++ IAttach ex_att ex_adata ex_acrc :: ex_post)
  /\ ex_acrc = crc32 (enc_attachment_fields ex_att ++ ex_adata)
  /\ att_content_flip ex_att ex_adata (att_with ex_att (a_log ex_att) (a_create ex_att) (a_name ex_att) (a_media ex_att)) [x01; xff; x03].
Proof. exact ex_C07_attachment_hyps. Qed.

Example C07_ex_attachment_mismatch :
  exists st ob c1 c2,
    lex_all (ex_lopts true false CbFull) ds_id 30
      (src_of (render ((ex_pre ++ IChunk ex_k :: ex_mid) ++ IAttach ex_att [x01; xff; x03] ex_acrc :: ex_post)) false)
    = Ok ([EvToken OpHeader (enc_header {| h_profile := []; h_library := [x6c] |});
           EvToken OpMessage ex_m1; EvToken OpMessage ex_m2; EvAttachment ob;
           EvToken OpDataEnd (u32 0);
           EvToken OpFooter (enc_footer {| f_summary_start := 0; f_summary_offset_start := 0; f_crc := 0 |})], EEOF, st)
    /\ ao_computed ob = Ok c1 /\ ao_parsed ob = Ok c2 /\ c1 <> c2.
Proof. exact ex_C07_attachment_mismatch. Qed.
