(* C04, end to end over the writer model (all proofs in theories/EndToEnd2.v).

   C04 - "A read restricted by a time window and / or a topic list returns exactly the messages whose
   log time lies in the window and whose channel's topic is selected - none missing, none extra -
   whatever the order and the spelling of the options, with and without the index; chunk indexes are
   pruned without losing a selected message."

   properties/C04.v proves the window arithmetic of the option spellings (C04_spellings,
   C04_window_errors, the known finding C04_before_zero_refuted), the exactness of the ABSTRACT
   iterator for every selection (C04_exact_abstract) and the soundness of pruning for abstract chunks
   (the C04_pruning theorems).  Here the file is one the WRITER model produced (EndToEnd.e2e_hyps), the read is
   Reader.read_messages on its bytes with ANY option list os that apply_opts accepts (r0), that keeps
   the index (ro_use_index r0 = true) and installs no metadata callback, and the selection is

     tsel (finalize r0) t  =  topic_selected (ro_topics r0) (topic of t's channel) &&
                              in_window (finalize r0) (log time of t)

   (finalize merges the deprecated Start / End into StartNanos / EndNanos as Reader.Messages does).
   The comparison is with the forced scan of the same file without options ([OUsingIndex false]),
   known from C02_full to return every message written, in file order.
     * parseSummarySection prunes the chunk indexes by time and by topic (EndToEnd2.sm_fields_gen,
       prune_cis); the pruned list is what the iterator loads; the hypotheses of the C04_pruning theorems are
       DERIVED for writer-produced files (EndToEnd2.z_described: the chunk index range covers the
       chunk's messages; unless message indexes are skipped - then no chunk is pruned by topic - the
       message index offsets name every channel with a message in the chunk), so pruning drops no
       selected message (dropped_empty, kept_selection);
     * the sequential scan with the same options is shown to return the same selection
       (ascan_consistent_gen, scan_opts_filter), so in file order the result is identical with and
       without the index.
   Full: C04_e2e (every accepted option list, index enabled), C04_e2e_dispatched (every option list the
   dispatch sends to the indexed iterator), C04_e2e_nanos (nanosecond options, topics and an order in
   any number and order: the selection read off the options), C04_e2e_scan, C04_e2e_same.
   Not covered: option lists with a metadata callback together with a window (C02_full covers the
   callback without window). *)
From Mcap Require ConstsTie LayoutTie DecisionTieR. (* regenerated ties to /repo's source that this property's model relies on *)
From Coq Require Import List NArith ZArith Bool Permutation Sorted.
From Coq.Strings Require Import Byte.
From Mcap Require Import Bytes GoSem Crc32 Records RecordsFacts Writer WriterFactsC Lexer LexSpec LexerFactsB
  ComposeFacts Reader Iter ReaderFacts ReaderFacts2 EndToEnd EndToEnd2.
From McapProps Require Import C02.
Import ListNotations E2E_Writer.
Open Scope N_scope.

(* every accepted option list: read through the index, ends with io.EOF, returns the selection *)
Theorem C04_e2e : C04_e2e_statement.
Proof. exact C04_e2e_thm. Qed.
Print Assumptions C04_e2e.

(* the statement unfolded, for the reader of this file *)
Theorem C04_e2e_unfolded :
  forall ds dall o lib compress hd cs, e2e_hyps ds dall o lib compress hd cs ->
  index_enabled (effective_opts o) -> o_skip_stats o = false \/ (exists c, In (CChannel c) cs) ->
  let f := mem_file (file_of (W o lib compress None (CHeader hd :: cs ++ [CClose]))) in
  forall os r0 ri rs,
    apply_opts os default_ropts = Ok r0 -> ro_use_index r0 = true -> ro_md_cb r0 = false ->
    read_messages ds dall f os = Ok ri -> read_messages ds dall f [OUsingIndex false] = Ok rs ->
    let r := finalize r0 in
    rr_mode ri = Some MIndexed /\ rr_end ri = EEOF /\ rr_mode rs = Some MScan /\ rr_end rs = EEOF /\
    Permutation (rr_msgs ri) (filter (tsel r) (rr_msgs rs)) /\
    (ro_order r0 = FileOrder -> rr_msgs ri = filter (tsel r) (rr_msgs rs)) /\
    (forall d, ro_order r0 = order_of d ->
       StronglySorted (fun a b => led d (log_of a) (log_of b)) (rr_msgs ri)).
Proof. exact C04_e2e_thm. Qed.
Print Assumptions C04_e2e_unfolded.

(* without the index_enabled hypothesis: whenever the dispatch chose the indexed iterator, a read that
   ends with io.EOF meets read_spec (selection, order, ties within a chunk, slots) *)
Theorem C04_e2e_dispatched :
  forall ds dall o lib compress hd cs, e2e_hyps ds dall o lib compress hd cs ->
  let w := W o lib compress None (CHeader hd :: cs ++ [CClose]) in
  let f := mem_file (file_of w) in
  let cis := if o_skip_ci (effective_opts o) then [] else w_chunk_indexes (r_final w) in
  forall os r ri rs,
    messages_dispatch ds f os = Ok (MIndexed, r) -> ro_md_cb r = false ->
    read_messages ds dall f os = Ok ri -> read_messages ds dall f [OUsingIndex false] = Ok rs ->
    rr_mode ri = Some MIndexed /\ rr_mode rs = Some MScan /\ rr_end rs = EEOF /\
    (rr_end ri = EEOF -> read_spec cis r ri rs).
Proof. exact e2e_indexed_read_thm. Qed.
Print Assumptions C04_e2e_dispatched.

(* OAfterNanos / OBeforeNanos / OTopics / OInOrder, any number of them in any order: the selection is
   read off the final options *)
Theorem C04_e2e_nanos :
  forall ds dall o lib compress hd cs, e2e_hyps ds dall o lib compress hd cs ->
  index_enabled (effective_opts o) -> o_skip_stats o = false \/ (exists c, In (CChannel c) cs) ->
  let f := mem_file (file_of (W o lib compress None (CHeader hd :: cs ++ [CClose]))) in
  forall os r0 ri rs,
    forallb wt_opt os = true -> apply_opts os default_ropts = Ok r0 ->
    read_messages ds dall f os = Ok ri -> read_messages ds dall f [OUsingIndex false] = Ok rs ->
    let keep (t : triple) := topic_selected (ro_topics r0) (c_topic (snd (fst t))) &&
                             ((ro_start_n r0 <=? log_of t) && ((log_of t <? ro_end_n r0) || ro_unbounded r0)) in
    rr_mode ri = Some MIndexed /\ rr_end ri = EEOF /\
    Permutation (rr_msgs ri) (filter keep (rr_msgs rs)) /\
    (ro_order r0 = FileOrder -> rr_msgs ri = filter keep (rr_msgs rs)) /\
    (forall d, ro_order r0 = order_of d ->
       StronglySorted (fun a b => led d (log_of a) (log_of b)) (rr_msgs ri)).
Proof. exact C04_e2e_nanos_thm. Qed.
Print Assumptions C04_e2e_nanos.

(* the sequential scan with the same options returns the same selection of the forced scan *)
Theorem C04_e2e_scan :
  forall ds dall o lib compress hd cs, e2e_hyps ds dall o lib compress hd cs ->
  let f := mem_file (file_of (W o lib compress None (CHeader hd :: cs ++ [CClose]))) in
  forall os r0 rs' rs,
    apply_opts os default_ropts = Ok r0 -> ro_order r0 = FileOrder ->
    read_messages ds dall f (os ++ [OUsingIndex false]) = Ok rs' -> read_messages ds dall f [OUsingIndex false] = Ok rs ->
    rr_mode rs' = Some MScan /\ rr_end rs' = EEOF /\ rr_msgs rs' = filter (tsel (finalize r0)) (rr_msgs rs).
Proof. exact C04_e2e_scan_thm. Qed.
Print Assumptions C04_e2e_scan.

(* file order: identical with and without the index *)
Theorem C04_e2e_same :
  forall ds dall o lib compress hd cs, e2e_hyps ds dall o lib compress hd cs ->
  index_enabled (effective_opts o) -> o_skip_stats o = false \/ (exists c, In (CChannel c) cs) ->
  let f := mem_file (file_of (W o lib compress None (CHeader hd :: cs ++ [CClose]))) in
  forall os r0 ri rs',
    apply_opts os default_ropts = Ok r0 -> ro_use_index r0 = true -> ro_md_cb r0 = false -> ro_order r0 = FileOrder ->
    read_messages ds dall f os = Ok ri -> read_messages ds dall f (os ++ [OUsingIndex false]) = Ok rs' ->
    rr_mode ri = Some MIndexed /\ rr_mode rs' = Some MScan /\ rr_end ri = EEOF /\ rr_end rs' = EEOF /\
    rr_msgs ri = rr_msgs rs'.
Proof. exact C04_e2e_same_thm. Qed.
Print Assumptions C04_e2e_same.

(* ---------- non-vacuity ---------- *)
Example C04_e2e_ex_hyps :
  e2e_hyps ds_id ce_dall ov_o [x6c] ce_id ex_hd ov_cs /\
  index_enabled (effective_opts ov_o) /\ (exists c, In (CChannel c) ov_cs) /\
  e2e_hyps ds_id ce_dall y_o [x6c] ce_id ex_hd ex_cs /\
  index_enabled (effective_opts y_o) /\ (exists c, In (CChannel c) ex_cs).
Proof.
  exact (conj ov_hyps (conj (proj1 ov_enabled) (conj (proj1 (proj2 ov_enabled))
          (conj ex1_hyps (proj2 (proj2 ov_enabled)))))).
Qed.

Example C04_e2e_ex_reads_ok :
  Forall (fun os => read_messages ds_id ce_dall ov_f os = Ok (ov_read os) /\ rr_end (ov_read os) = EEOF)
    [[OUsingIndex false]; []; [OInOrder LogTimeOrder]; [OInOrder ReverseLogTimeOrder];
     [OAfterNanos 10; OBeforeNanos 50]; [OTopics [[x75]]; OBeforeNanos 50; OAfterNanos 10];
     [OInOrder LogTimeOrder; OTopics [[x75]]; OBeforeNanos 50; OAfterNanos 10]].
Proof. exact ov_read_ok. Qed.

(* the window [10, 50) and the topic of channel 2 on the overlapping run (forced scan: (chan, seq, log)
   = (1,1,50) (1,2,10) (2,3,40) (1,4,40) (2,5,20) (1,6,60) (2,7,20) (1,8,5)); both spellings, several
   orders of the options, the three read orders, with and without the index - computed independently
   of the theorems *)
Example C04_e2e_ex_reads :
  let win := [(1, 2, 10); (2, 3, 40); (1, 4, 40); (2, 5, 20); (2, 7, 20)] in
  let wint := [(2, 3, 40); (2, 5, 20); (2, 7, 20)] in
  ov_view (read_messages ds_id ce_dall ov_f [OAfterNanos 10; OBeforeNanos 50]) = Some (Some MIndexed, win, (1, 1)%nat, EEOF) /\
  ov_view (read_messages ds_id ce_dall ov_f [OBeforeNanos 50; OAfterNanos 10]) = Some (Some MIndexed, win, (1, 1)%nat, EEOF) /\
  ov_view (read_messages ds_id ce_dall ov_f [OAfter 10; OBefore 50]) = Some (Some MIndexed, win, (1, 1)%nat, EEOF) /\
  ov_view (read_messages ds_id ce_dall ov_f [OBefore 50; OAfter 10]) = Some (Some MIndexed, win, (1, 1)%nat, EEOF) /\
  ov_view (read_messages ds_id ce_dall ov_f [OTopics [[x75]]; OAfterNanos 10; OBeforeNanos 50]) = Some (Some MIndexed, wint, (1, 1)%nat, EEOF) /\
  ov_view (read_messages ds_id ce_dall ov_f [OAfterNanos 10; OTopics [[x75]]; OBeforeNanos 50]) = Some (Some MIndexed, wint, (1, 1)%nat, EEOF) /\
  ov_view (read_messages ds_id ce_dall ov_f [OBeforeNanos 50; OAfterNanos 10; OTopics [[x75]]]) = Some (Some MIndexed, wint, (1, 1)%nat, EEOF) /\
  ov_view (read_messages ds_id ce_dall ov_f [OInOrder LogTimeOrder; OTopics [[x75]]; OBeforeNanos 50; OAfterNanos 10])
    = Some (Some MIndexed, [(2, 5, 20); (2, 7, 20); (2, 3, 40)], (2, 2)%nat, EEOF) /\
  ov_view (read_messages ds_id ce_dall ov_f [OAfterNanos 10; OBeforeNanos 50; OInOrder ReverseLogTimeOrder])
    = Some (Some MIndexed, [(1, 4, 40); (2, 3, 40); (2, 7, 20); (2, 5, 20); (1, 2, 10)], (2, 2)%nat, EEOF) /\
  option_map (fun v => filter (fun x : N * N * N => (10 <=? snd x) && (snd x <? 50)) (snd (fst (fst v))))
             (ov_view (read_messages ds_id ce_dall ov_f [OUsingIndex false])) = Some win /\
  ov_view (read_messages ds_id ce_dall ov_f [OAfterNanos 10; OBeforeNanos 50; OUsingIndex false]) = Some (Some MScan, win, (0, 0)%nat, EEOF) /\
  ov_view (read_messages ds_id ce_dall ov_f [OTopics [[x75]]; OAfterNanos 10; OBeforeNanos 50; OUsingIndex false]) = Some (Some MScan, wint, (0, 0)%nat, EEOF).
Proof. exact ov_reads_window. Qed.

(* the theorems on the run *)
Example C04_e2e_ex_applies : forall os r0 ri rs,
  forallb wt_opt os = true -> apply_opts os default_ropts = Ok r0 ->
  read_messages ds_id ce_dall ov_f os = Ok ri -> read_messages ds_id ce_dall ov_f [OUsingIndex false] = Ok rs ->
  ro_order r0 = FileOrder ->
  rr_msgs ri = filter (fun t : triple => topic_selected (ro_topics r0) (c_topic (snd (fst t))) &&
                        ((ro_start_n r0 <=? log_of t) && ((log_of t <? ro_end_n r0) || ro_unbounded r0))) (rr_msgs rs).
Proof. exact ov_C04_applies. Qed.

Example C04_e2e_ex_same_applies : forall os r0 ri rs',
  apply_opts os default_ropts = Ok r0 -> ro_use_index r0 = true -> ro_md_cb r0 = false -> ro_order r0 = FileOrder ->
  read_messages ds_id ce_dall ov_f os = Ok ri -> read_messages ds_id ce_dall ov_f (os ++ [OUsingIndex false]) = Ok rs' ->
  rr_msgs ri = rr_msgs rs'.
Proof. exact ov_same_applies. Qed.

(* the dispatch hypothesis (MIndexed, no metadata callback) on the overlapping run *)
Example C04_e2e_ex_dispatch :
  ov_disp [] = Some (MIndexed, false, FileOrder) /\
  ov_disp [OAfterNanos 10; OBeforeNanos 50] = Some (MIndexed, false, FileOrder) /\
  ov_disp [OInOrder LogTimeOrder; OTopics [[x75]]; OBeforeNanos 50; OAfterNanos 10] = Some (MIndexed, false, LogTimeOrder) /\
  ov_disp [OAfter 10; OBefore 50; OInOrder ReverseLogTimeOrder] = Some (MIndexed, false, ReverseLogTimeOrder).
Proof. exact ov_dispatch. Qed.
