(* C16 (Go -> Python direction, streaming reader): the model of the repository's Python package
   (theories/Py.v, tied to python/mcap/mcap by differential testing) reads back exactly the content
   of every well-formed uncompressed file as the Go writer model renders it.

   A file is described by a list of typed items (PyReadFacts.pitem): any record but a chunk with the
   body Go's encoders produce, an attachment with an arbitrary crc field, a record with an unknown
   opcode, an uncompressed chunk given by its inner records.  `py_render` of such a list is literally
   Go's `render` of the corresponding writer items (C16_py_render_is_go_render); `pwf_file` asks for
   field ranges, valid UTF-8 strings, record lengths up to 4 GiB, and - only when CRC validation is on -
   chunk CRCs that are 0 or right and DataEnd CRCs that are 0 or the CRC-32 of everything before the
   record (leading magic included); exactly one Footer, last.  `py_expected` lists the records of the
   file in order with chunks replaced by their inner schema/channel/message records.

   Proofs: theories/PyReadFacts.v. *)
From Mcap Require ConstsTie LayoutTie PyDecisionTie. (* regenerated ties to /repo's source that this property's model relies on *)
From Coq Require Import List NArith ZArith Bool Permutation Sorted.
From Coq.Strings Require Import Byte.
From Mcap Require Import Bytes GoSem Crc32 Records RecordsFacts Writer Lexer LexSpec Py PyReadFacts.
Import ListNotations.
Open Scope N_scope.

(* ---------- the file description is Go's rendering ---------- *)
Theorem C16_py_render_is_go_render : forall ps, py_render ps = render (to_items ps).
Proof. exact py_render_go. Qed.
Print Assumptions C16_py_render_is_go_render.

(* ---------- StreamReader.records ---------- *)
Theorem C16_py_stream_records : forall validate ps,
  pwf_file validate false ps ->
  stream_records (magic ++ py_render ps ++ magic) false false validate limit_4g = (py_expected ps, EStop).
Proof. exact py_stream_records. Qed.
Print Assumptions C16_py_stream_records.

(* emit_chunks = True or False *)
Theorem C16_py_stream_records_emit : forall validate emit ps,
  pwf_file validate emit ps ->
  stream_records (magic ++ py_render ps ++ magic) false emit validate limit_4g
  = (py_expected_gen emit ps, EStop).
Proof. exact py_stream_records_gen. Qed.
Print Assumptions C16_py_stream_records_emit.

(* ---------- the building blocks ---------- *)
(* every record type against Go's encoder, the stream continuing afterwards *)
Theorem C16_py_read_record : forall r s D R,
  pwf_rec r ->
  read_record (Byte.to_N (rec_op r)) (blen (rec_body r)) (adv s D (rec_body r ++ R))
  = POk (Some (py_norm r), adv s (D ++ rec_body r) R).
Proof. exact read_record_adv. Qed.
Print Assumptions C16_py_read_record.

(* Go writes maps sorted by key; with distinct keys Python's dict lists them in that order *)
Theorem C16_py_map_order : forall m, NoDup (map fst m) -> pd_build (kv_sort m) = kv_sort m.
Proof. exact pd_build_kv_sort. Qed.
Print Assumptions C16_py_map_order.

Theorem C16_py_dataend_check : forall r s0 D d R,
  sr_s r = adv s0 D (frame OpDataEnd (enc_dataend d) ++ R) ->
  wf_dataend d -> limit_ok (sr_limit r) 4 ->
  sr_iter r =
    if sr_validate r && negb (sr_skip r) && negb (de_crc d =? 0)
       && negb (de_crc d =? match ps_crc (sr_s r) with Some c => c | None => 0 end)
    then PRaise PCrc
    else POk ([PDataEnd d], false, adv s0 (D ++ frame OpDataEnd (enc_dataend d)) R).
Proof. exact sr_iter_dataend. Qed.
Print Assumptions C16_py_dataend_check.

Theorem C16_py_chunk_inner : forall r s0 D st en crc l R,
  sr_s r = adv s0 D (frame OpChunk (enc_chunk (mk_chunk st en crc l)) ++ R) ->
  sr_emit r = false ->
  st < two64 -> en < two64 -> crc < two32 -> blen (chunk_bytes l) < two63 ->
  limit_ok (sr_limit r) (blen (enc_chunk (mk_chunk st en crc l))) ->
  Forall pwf_inner l -> chunk_crc_ok (sr_validate r) crc l ->
  sr_iter r = POk (chunk_recs l, false, adv s0 (D ++ frame OpChunk (enc_chunk (mk_chunk st en crc l))) R).
Proof. exact sr_iter_chunk_inner. Qed.
Print Assumptions C16_py_chunk_inner.

(* ---------- NonSeekingReader ---------- *)
Theorem C16_py_get_header : forall validate ps h rest,
  pwf_file validate false (PIRec (PHeader h) :: rest) -> ps = PIRec (PHeader h) :: rest ->
  ns_get_header (the_file ps) validate = POk h.
Proof. exact py_ns_get_header. Qed.
Print Assumptions C16_py_get_header.

Theorem C16_py_iter_attachments : forall validate ps,
  pwf_file validate false ps ->
  ns_iter is_att (the_file ps) validate = (map PAttachment (file_atts ps), EStop).
Proof. exact py_ns_iter_attachments. Qed.
Print Assumptions C16_py_iter_attachments.

Theorem C16_py_iter_metadata : forall validate ps,
  pwf_file validate false ps ->
  ns_iter is_md (the_file ps) validate
  = (map (fun m => PMetadata (py_metadata m)) (file_mds ps), EStop).
Proof. exact py_ns_iter_metadata. Qed.
Print Assumptions C16_py_iter_metadata.

Theorem C16_py_get_summary : forall validate body f,
  pwf_file validate false (body ++ [PIRec (PFooter f)]) ->
  Forall (fun p => is_footer_item p = false) body ->
  ns_get_summary (the_file (body ++ [PIRec (PFooter f)])) validate
  = POk (if f_summary_start f =? 0 then None
         else Some (fold_left summary_add (py_expected body) empty_summary)).
Proof. exact py_ns_get_summary. Qed.
Print Assumptions C16_py_get_summary.

Theorem C16_py_iter_messages_file_order : forall validate ps flt reverse,
  pwf_file validate false ps ->
  refs_ok [] (py_expected ps) = true ->
  ns_iter_messages (the_file ps) validate flt false reverse
  = (msgs_spec flt [] (py_expected ps), EStop).
Proof. exact py_ns_iter_messages_file_order. Qed.
Print Assumptions C16_py_iter_messages_file_order.

Theorem C16_py_iter_messages_log_order : forall validate ps flt reverse,
  pwf_file validate false ps ->
  refs_ok [] (py_expected ps) = true ->
  ns_iter_messages (the_file ps) validate flt true reverse
  = (py_sorted reverse (msgs_spec flt [] (py_expected ps)), EStop).
Proof. exact py_ns_iter_messages_log_order. Qed.
Print Assumptions C16_py_iter_messages_log_order.

Theorem C16_py_sorted_stable : forall reverse l,
  Permutation l (py_sorted reverse l)
  /\ StronglySorted (key_le reverse) (py_sorted reverse l)
  /\ forall k, filter (same_key k) (py_sorted reverse l) = filter (same_key k) l.
Proof. exact py_sorted_stable. Qed.
Print Assumptions C16_py_sorted_stable.

(* ---------- non-vacuity: px_file = header, schema, channel (2 metadata pairs), a chunk with two
   messages and an unknown inner record (correct crc), a message index, an attachment, an unknown
   record, a metadata record, DataEnd with the correct crc, repeated schema and channel, chunk index,
   attachment index, metadata index, statistics, summary offset, footer: all 15 record kinds ---------- *)
Example C16_py_example_wf : forall validate emit, pwf_file validate emit px_file.
Proof. exact px_file_wf. Qed.

Example C16_py_example_refs : refs_ok [] (py_expected px_file) = true.
Proof. exact px_refs_ok. Qed.

Example C16_py_example_rec_hyps :
  pwf_rec (PHeader px_header) /\ pwf_rec (PSchema px_schema) /\ pwf_rec (PChannel px_channel)
  /\ pwf_rec (PMessage px_msg1) /\ pwf_rec (PAttachment px_attachment) /\ pwf_rec (PMetadata px_metadata)
  /\ pwf_rec (PChunkIndex px_chunkindex) /\ pwf_rec (PStatistics px_statistics)
  /\ pwf_rec (PMsgIndex px_msgindex) /\ pwf_rec (PAttIndex px_attindex) /\ pwf_rec (PMdIndex px_mdindex)
  /\ pwf_rec (PSumOffset px_sumoffset) /\ pwf_rec (PFooter px_footer) /\ pwf_rec (PDataEnd px_dataend)
  /\ pwf_rec (PChunk (mk_chunk 10 20 px_chunk_crc px_inner)) /\ Forall pwf_inner px_inner
  /\ chunk_crc_ok true px_chunk_crc px_inner.
Proof.
  split; [exact px_header_wf|]. split; [exact px_schema_wf|]. split; [exact px_channel_wf|].
  split; [exact px_message_wf|]. split; [exact px_attachment_wf|]. split; [exact px_metadata_wf|].
  split; [exact px_chunkindex_wf|]. split; [exact px_statistics_wf|].
  split; [exact px_msgindex_wf|]. split; [exact px_attindex_wf|]. split; [exact px_mdindex_wf|].
  split; [exact px_sumoffset_wf|]. split; [exact px_footer_wf|]. split; [exact px_dataend_wf|].
  split; [exact px_chunk_wf|].
  split; [exact px_inner_wf|]. exact px_chunk_crc_ok.
Qed.

(* the model computed on the example agrees with the theorems *)
Example C16_py_example_stream_records :
  stream_records (the_file px_file) false false true limit_4g = (py_expected px_file, EStop).
Proof. vm_compute. reflexivity. Qed.

Example C16_py_example_stream_records_emit_novalidate :
  stream_records (the_file px_file) false true false limit_4g = (py_expected_gen true px_file, EStop).
Proof. vm_compute. reflexivity. Qed.

Example C16_py_example_messages :
  let flt := {| mf_topics := None; mf_start := None; mf_end := None |} in
  map (fun t => m_seq (snd t)) (fst (ns_iter_messages (the_file px_file) true flt false false)) = [1; 2]
  /\ map (fun t => m_seq (snd t)) (fst (ns_iter_messages (the_file px_file) true flt true false)) = [2; 1]
  /\ ns_iter_messages (the_file px_file) true flt true true
     = (py_sorted true (msgs_spec flt [] (py_expected px_file)), EStop)
  /\ ns_iter is_att (the_file px_file) true = ([PAttachment px_attachment], EStop)
  /\ ns_get_header (the_file px_file) true = POk px_header.
Proof. vm_compute. repeat split; reflexivity. Qed.
