(* C18 (bag half): converting a ROS 1 bag to MCAP.
   All proofs are in theories/BagFacts.v; the model is theories/Bag.v (bag2mcap.go) composed with theories/Writer.v.

   The ROS 2 db3 half of the property (Db3ToMCAP) depends on SQLite and the file system; SQLite is abstracted as row
   lists in theories/Db3.v, the theorems are in properties/C18_db3.v (proofs: theories/Db3Facts.v). *)
From Mcap Require ConstsTie LayoutTie. (* regenerated ties to /repo's source that this property's model relies on *)
From Coq Require Import List NArith ZArith Bool.
From Coq.Strings Require Import Byte.
From Mcap Require Import Bytes GoSem Records Writer Lexer Bag BagFacts.
Import ListNotations.
Open Scope N_scope.

(* ---------------------------------------------------------------------------------------------- *)
(* Task 1: never a crash, never a process exit, never "out of fuel"                                *)
(* ---------------------------------------------------------------------------------------------- *)

(* the header scans return Ok or Err with the fuel the model gives them *)
Theorem C18_extract_value_total : forall hdr key, no_crash (extract_value (S (length hdr)) hdr key) = true.
Proof. exact extract_value_total. Qed.
Print Assumptions C18_extract_value_total.

Theorem C18_header_to_map_total : forall data, no_crash (header_to_map (S (length data)) data []) = true.
Proof. exact header_to_map_total. Qed.
Print Assumptions C18_header_to_map_total.

(* the model's loop is the iteration of bag_step; bag_run is that iteration with exhaustion made visible *)
Theorem C18_bag_loop_is_iterated_step : forall o lib compress dstream f base chunk s,
  bag_loop o lib compress dstream (S f) base chunk s
  = match bag_step o lib compress dstream base chunk s with
    | BCont b c s' => bag_loop o lib compress dstream f b c s'
    | BStop r => r
    end.
Proof. exact bag_loop_step. Qed.
Print Assumptions C18_bag_loop_is_iterated_step.

Theorem C18_bag_run_sound : forall o lib compress dstream f base chunk s r,
  bag_run o lib compress dstream f base chunk s = Some r -> bag_loop o lib compress dstream f base chunk s = r.
Proof. exact bag_run_sound. Qed.
Print Assumptions C18_bag_run_sound.

(* the record walk never gives up for lack of fuel: decompressed chunks are bounded by B and contain no header
   of a compressed chunk (no "compression=lz4" / "compression=bz2"), fuel > L * (L + 1) * (B + 2) *)
Theorem C18_bag_total : forall o lib compress dstream B base s fuel,
  oracle_bounded_clean dstream B ->
  (walk_fuel (length (r_buf base)) B <= fuel)%nat ->
  exists r, bag_run o lib compress dstream fuel base None s = Some r /\
            forall fuel', (fuel <= fuel')%nat -> bag_loop o lib compress dstream fuel' base None s = r.
Proof. exact bag_loop_total. Qed.
Print Assumptions C18_bag_total.

Theorem C18_bag_fuel_independent : forall o lib compress dstream B input fuel1 fuel2,
  oracle_bounded_clean dstream B ->
  (walk_fuel (length input) B <= fuel1)%nat -> (walk_fuel (length input) B <= fuel2)%nat ->
  bag2mcap o lib compress dstream fuel1 input = bag2mcap o lib compress dstream fuel2 input.
Proof. exact bag2mcap_fuel_independent. Qed.
Print Assumptions C18_bag_fuel_independent.

Example C18_bag_total_ex : oracle_bounded_clean ex_table_oracle 200.
Proof. exact ex_table_oracle_ok. Qed.

(* with only a length bound on the oracle the walk need not terminate: a decompressed chunk that again contains a
   compressed chunk record decompressing to itself is walked forever (the model then answers EOther) *)
Definition C18_bag_total_given_statement : Prop := walk_terminates_for_length_bounded_oracles.
Theorem C18_bag_total_given_statement_false : ~ C18_bag_total_given_statement.
Proof. exact walk_terminates_for_length_bounded_oracles_false. Qed.
Print Assumptions C18_bag_total_given_statement_false.

Theorem C18_bag_run_diverges : forall o lib compress fuel s,
  bag_run o lib compress quine_oracle fuel {| r_buf := quine_chunk; r_end := None; r_seek := false |} None s = None.
Proof. exact bag_run_diverges. Qed.
Print Assumptions C18_bag_run_diverges.

(* input that does not start with the bag magic is an error *)
Theorem C18_not_a_bag : forall o lib compress dstream fuel input,
  (length input < 13)%nat \/ firstn 13 input <> bag_magic ->
  br_err (bag2mcap o lib compress dstream fuel input) <> None.
Proof. exact bag2mcap_not_a_bag. Qed.
Print Assumptions C18_not_a_bag.

Example C18_not_a_bag_ex : let input := str [35;82;79;83] in (length input < 13)%nat \/ firstn 13 input <> bag_magic.
Proof. left. vm_compute. repeat constructor. Qed.

(* a connection id above 65535 (connection or message record) after a well-formed prefix is an error *)
Theorem C18_bad_conn_id : forall o lib compress dstream b r rest fuel,
  bag_wf b = true -> bag_oracle dstream b -> (bag_fuel b <= fuel)%nat ->
  calls_ok (W o lib compress None (CHeader ros1_header :: fst (recs_calls (bag_recs b) ([], 0)))) ->
  bad_id_rec r ->
  br_err (bag2mcap o lib compress dstream fuel (render_bag b ++ render_brec r ++ rest)) <> None.
Proof. exact bag2mcap_bad_conn_id. Qed.
Print Assumptions C18_bad_conn_id.

Example C18_bad_conn_id_ex :
  bag_wf ex_bag = true /\ bag_oracle ex_dstream ex_bag /\ (bag_fuel ex_bag <= 100)%nat /\
  calls_ok (W (ex_opts true) ex_lib ex_compress None (CHeader ros1_header :: fst (recs_calls (bag_recs ex_bag) ([], 0)))) /\
  bad_id_rec ex_bad_rec.
Proof.
  split; [reflexivity|]. split; [repeat constructor|]. split; [vm_compute; repeat constructor|].
  split; [split; [reflexivity|vm_compute; repeat constructor]|exact ex_bad_rec_bad].
Qed.

(* ---------------------------------------------------------------------------------------------- *)
(* Task 2: a well-formed bag is converted by exactly the expected writer calls                     *)
(* ---------------------------------------------------------------------------------------------- *)

Theorem C18_bag : forall o lib compress dstream b fuel,
  bag_wf b = true -> bag_oracle dstream b -> (bag_fuel b <= fuel)%nat ->
  calls_ok (W o lib compress None (expected_calls b)) ->
  let R := bag2mcap o lib compress dstream fuel (render_bag b) in
  br_err R = None /\
  br_writes R = r_writes (W o lib compress None (expected_calls b)) /\
  br_final R = r_final (W o lib compress None (expected_calls b)).
Proof. exact bag2mcap_wf. Qed.
Print Assumptions C18_bag.

(* 2 connections (one repeated), 3 messages, an uncompressed chunk and top-level groups, other records *)
Example C18_bag_ex : forall chunked,
  bag_wf ex_bag = true /\ bag_oracle ex_dstream ex_bag /\ (bag_fuel ex_bag <= 12)%nat /\
  calls_ok (W (ex_opts chunked) ex_lib ex_compress None (expected_calls ex_bag)).
Proof.
  intros chunked. split; [reflexivity|]. split; [repeat constructor|]. split; [vm_compute; repeat constructor|].
  destruct chunked; (split; [reflexivity|vm_compute; repeat constructor]).
Qed.

(* with a compressed chunk, the oracle being a table *)
Example C18_bag_ex_comp :
  bag_wf ex_bag_comp = true /\ bag_oracle ex_table_oracle ex_bag_comp /\ (bag_fuel ex_bag_comp <= 20)%nat /\
  calls_ok (W (ex_opts true) ex_lib ex_compress None (expected_calls ex_bag_comp)).
Proof.
  split; [reflexivity|]. split; [repeat constructor|]. split; [vm_compute; repeat constructor|].
  split; [reflexivity|vm_compute; repeat constructor].
Qed.

Example C18_bag_ex_result :
  let R := bag2mcap (ex_opts true) ex_lib ex_compress ex_dstream 12 (render_bag ex_bag) in
  br_err R = None /\ br_writes R = r_writes (W (ex_opts true) ex_lib ex_compress None (expected_calls ex_bag)).
Proof.
  destruct (C18_bag_ex true) as (H1 & H2 & H3 & H4).
  destruct (C18_bag (ex_opts true) ex_lib ex_compress ex_dstream ex_bag 12 H1 H2 H3 H4) as (Ha & Hb & _).
  split; assumption.
Qed.

(* the stricter well-formedness of the property text (distinct field keys incl. type, md5sum, message_definition;
   every message's connection declared earlier; fewer than 65535 schemas; at most 2^32 messages) implies bag_wf *)
Theorem C18_bag_strict : forall o lib compress dstream b fuel,
  bag_wf_strict b = true -> bag_oracle dstream b -> (bag_fuel b <= fuel)%nat ->
  calls_ok (W o lib compress None (expected_calls b)) ->
  let R := bag2mcap o lib compress dstream fuel (render_bag b) in
  br_err R = None /\
  br_writes R = r_writes (W o lib compress None (expected_calls b)) /\
  br_final R = r_final (W o lib compress None (expected_calls b)).
Proof. exact bag2mcap_wf_strict. Qed.
Print Assumptions C18_bag_strict.
Example C18_bag_strict_ex : bag_wf_strict ex_bag = true /\ bag_wf_strict ex_bag_comp = true.
Proof. split; vm_compute; reflexivity. Qed.

Theorem C18_fields_strict_lookup : forall fields, fields_strict fields = true ->
  kv_find k_type fields = Some (conn_type fields) /\
  kv_find k_md5 fields = Some (conn_md5 fields) /\
  kv_find k_msgdef fields = Some (conn_msgdef fields).
Proof. exact fields_strict_lookup. Qed.
Print Assumptions C18_fields_strict_lookup.
Example C18_fields_strict_lookup_ex : fields_strict ex_fields1 = true.
Proof. reflexivity. Qed.

(* what the expected calls are, read off the bag *)
Theorem C18_expected_messages : forall b,
  calls_msgs (expected_calls b) = map msg_of (number_from 0 (bag_msgs b)).
Proof. exact expected_messages. Qed.
Print Assumptions C18_expected_messages.

Theorem C18_msg_of : forall i c s n d,
  let m := msg_of (i, (c, s, n, d)) in
  m_chan m = c /\ m_seq m = i mod two32 /\ m_log m = s * 1000000000 + n /\ m_pub m = s * 1000000000 + n /\ m_data m = d.
Proof. exact msg_of_fields. Qed.
Print Assumptions C18_msg_of.

Theorem C18_expected_messages_count : forall b, length (calls_msgs (expected_calls b)) = length (bag_msgs b).
Proof. exact expected_messages_count. Qed.
Print Assumptions C18_expected_messages_count.

Theorem C18_expected_messages_data : forall b,
  map m_data (calls_msgs (expected_calls b)) = map (fun x => snd x) (bag_msgs b).
Proof. exact expected_messages_data. Qed.
Print Assumptions C18_expected_messages_data.

Theorem C18_expected_messages_seq : forall b, N.of_nat (length (bag_msgs b)) <= two32 ->
  map m_seq (calls_msgs (expected_calls b)) = map fst (number_from 0 (bag_msgs b)).
Proof. exact expected_messages_seq. Qed.
Print Assumptions C18_expected_messages_seq.
Example C18_expected_messages_seq_ex : N.of_nat (length (bag_msgs ex_bag)) <= two32.
Proof. vm_compute. discriminate. Qed.

Theorem C18_expected_schemas : forall b,
  calls_schemas (expected_calls b) = map schema_of (number_from 0 (firsts (bag_conns b) [])).
Proof. exact expected_schemas. Qed.
Print Assumptions C18_expected_schemas.

Theorem C18_expected_schemas_distinct : forall b,
  NoDup (map conn_key (firsts (bag_conns b) [])) /\
  (forall c, In c (bag_conns b) -> In (conn_key (snd c)) (map conn_key (firsts (bag_conns b) []))).
Proof. exact expected_schemas_distinct. Qed.
Print Assumptions C18_expected_schemas_distinct.

Theorem C18_expected_schema_ids : forall b, N.of_nat (length (firsts (bag_conns b) [])) <= 65535 ->
  map s_id (calls_schemas (expected_calls b)) = map (fun x => fst x + 1) (number_from 0 (firsts (bag_conns b) [])).
Proof. exact expected_schema_ids. Qed.
Print Assumptions C18_expected_schema_ids.
Example C18_expected_schema_ids_ex : N.of_nat (length (firsts (bag_conns ex_bag) [])) <= 65535.
Proof. vm_compute. discriminate. Qed.

Theorem C18_expected_channels : forall b,
  calls_channels (expected_calls b)
  = map (channel_of (map entry_of (number_from 0 (firsts (bag_conns b) [])))) (bag_conns b).
Proof. exact expected_channels. Qed.
Print Assumptions C18_expected_channels.

(* type, md5sum, message_definition and the metadata are looked up in the connection data, last field wins *)
Theorem C18_conn_map_get : forall k fields,
  kv_get k (conn_map fields) = match kv_find k (rev fields) with Some v => v | None => [] end.
Proof. exact conn_map_get. Qed.
Print Assumptions C18_conn_map_get.

Theorem C18_conn_meta_get : forall k fields, bytes_eqb k_type k = false -> bytes_eqb k_msgdef k = false ->
  kv_get k (conn_meta fields) = match kv_find k (rev fields) with Some v => v | None => [] end.
Proof. exact conn_meta_get. Qed.
Print Assumptions C18_conn_meta_get.
Example C18_conn_meta_get_ex : bytes_eqb k_type k_md5 = false /\ bytes_eqb k_msgdef k_md5 = false.
Proof. split; reflexivity. Qed.

(* the example bag, evaluated: 1 header, schema 1, channel 0, message 0, schema 2, channel 1, message 1,
   channel 0 again (no new schema), message 2, close *)
Example C18_expected_calls_ex :
  map (fun c => match c with CHeader _ => 1 | CSchema s => 100 + s_id s | CChannel c => 200 + 10 * c_id c + c_schema c
                | CMessage m => 1000 + m_seq m | CClose => 9 | _ => 0 end) (expected_calls ex_bag)
  = [1; 101; 201; 1000; 102; 212; 1001; 201; 1002; 9].
Proof. vm_compute. reflexivity. Qed.
