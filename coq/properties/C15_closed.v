(* C15_closed - companion of C15.v for WRITER-PRODUCED files: hypotheses about the writer's inputs
   only (writer_ok / content_ok, see C09_closed.v), R = W o lib comp None (cs' ++ [CClose]).
   All proofs are in theories/Closed2.v; compositions of C15.v's theorems (LexerFactsA.v,
   Source.v) with C01_closed.writer_trace_wf / writer_trace_fuel / C01_file_is_trace.

   A `source` (Source.v) is what successive Read calls deliver: fragments (possibly empty,
   possibly data together with io.EOF) and an end marker; lex_all_frags runs the lexer over it
   (the lexer reads through io.ReadFull only: C15_read_full_norm).

   1. C15_closed_fragmentation  every source that delivers exactly the bytes of the written file
        and then ends cleanly gives the result of the in-memory reader: all events of the file,
        then io.EOF;
   2. C15_closed_roundtrip      ... and these decode to what the calls wrote;
   3. C15_closed_failing        a source that delivers (in any fragmentation) the first n bytes of
        the file and then fails with e: no panic/exit; if the run returns, its events are a prefix
        of the events of the file (the last one possibly an attachment observation with fewer data
        bytes) and the run ends with e - or the failure position was never reached and the run is
        the complete one (the C15_eof_not_caused_by_failure corner: clean EOF, all events).  Side
        conditions exactly as in C15_error_prefix: e is not EOF / UnexpectedEOF / ErrTruncated /
        the lexer's private CRC error, the decoder passes the source error through and is
        prefix-monotone;
   4. C15_closed_failing_no_callback  without attachment callback: a plain prefix; a clean EOF can
        only come from the reader of a chunk (C15_error_not_eof);
   5. C15_closed_failing_total  the run on the failing source does return (Ok, or ErrBadMagic
        when the failure is inside the leading magic) given n * (B + 2) + 1 fuel, for a decoder
        that expands its input by at most B bytes.  (No writer hypothesis is needed for this.) *)
From Mcap Require ConstsTie LayoutTie DecisionTieL. (* regenerated ties to /repo's source that this property's model relies on *)
From Coq Require Import List NArith ZArith Bool.
From Coq.Strings Require Import Byte.
From Mcap Require Import Source.
From Mcap Require Import Bytes GoSem Crc32 Records RecordsFacts Writer WriterFactsA WriterFactsB
  Lexer LexSpec LexerFactsB ComposeFacts C01Closed Closed2.
Import ListNotations.
Open Scope N_scope.

Theorem C15_closed_fragmentation : forall o lib comp lo ds cs' sk src,
  writer_ok o lib comp lo ds cs' ->
  let R := W o lib comp None (cs' ++ [CClose]) in
  concat_data src = file_of R -> src_end src = None ->
  forall fuel, (fuel_of (file_of R) cs' <= fuel)%nat ->
  lex_all_frags lo ds fuel sk src = lex_all lo ds fuel (src_of (file_of R) sk) /\
  exists st, lex_all_frags lo ds fuel sk src
             = Ok (file_events lo ds (rev (w_trace (r_final R))), EEOF, st).
Proof. exact C15_closed_fragmentation_thm. Qed.
Print Assumptions C15_closed_fragmentation.

Theorem C15_closed_roundtrip : forall o lib comp lo ds cs' sk src,
  writer_ok o lib comp lo ds cs' -> content_ok o lib lo cs' ->
  let R := W o lib comp None (cs' ++ [CClose]) in
  concat_data src = file_of R -> src_end src = None ->
  forall fuel, (fuel_of (file_of R) cs' <= fuel)%nat ->
  exists evs st,
    lex_all_frags lo ds fuel sk src = Ok (evs, EEOF, st) /\
    map decode_event (filter ev_direct (data_events evs))
      = map Ok (flat_map (call_contents lo o lib) (filter call_direct cs')) /\
    map decode_event (filter ev_auto (data_events evs))
      = map Ok (flat_map (call_contents lo o lib) (filter call_auto cs')).
Proof. exact C15_closed_roundtrip_thm. Qed.
Print Assumptions C15_closed_roundtrip.

Theorem C15_closed_failing : forall o lib comp lo ds cs' sk src e n,
  writer_ok o lib comp lo ds cs' ->
  e <> EEOF -> e <> EUnexpectedEOF -> e <> ETruncated -> e <> EInvalidChunkCrc ->
  (forall c a, snd (ds c a (Some e)) = Some e) ->
  (forall c a t, exists u, fst (ds c (a ++ t) None) = fst (ds c a (Some e)) ++ u) ->
  let R := W o lib comp None (cs' ++ [CClose]) in
  let full := file_events lo ds (rev (w_trace (r_final R))) in
  concat_data src = firstn n (file_of R) -> src_end src = Some e ->
  forall fuel,
  let r := lex_all_frags lo ds fuel sk src in
  (forall site, r <> Panic site /\ r <> Exit site) /\
  (forall evsF finF sF, r = Ok (evsF, finF, sF) ->
     ((exists t, full = evsF ++ t) \/
      (exists pre a' a t, evsF = pre ++ [EvAttachment a'] /\ full = pre ++ EvAttachment a :: t /\
         ao_log a' = ao_log a /\ ao_create a' = ao_create a /\ ao_name a' = ao_name a /\
         ao_media a' = ao_media a /\ ao_size a' = ao_size a /\ exists d, ao_data a = ao_data a' ++ d)) /\
     (finF = e \/ (finF = EEOF /\ evsF = full))).
Proof. exact C15_closed_failing_thm. Qed.
Print Assumptions C15_closed_failing.

Theorem C15_closed_failing_no_callback : forall o lib comp lo ds cs' sk src e n,
  writer_ok o lib comp lo ds cs' -> lo_cb lo = CbNone ->
  e <> EEOF -> e <> EUnexpectedEOF -> e <> ETruncated -> e <> EInvalidChunkCrc ->
  (forall c a, snd (ds c a (Some e)) = Some e) ->
  (forall c a t, exists u, fst (ds c (a ++ t) None) = fst (ds c a (Some e)) ++ u) ->
  let R := W o lib comp None (cs' ++ [CClose]) in
  let full := file_events lo ds (rev (w_trace (r_final R))) in
  concat_data src = firstn n (file_of R) -> src_end src = Some e ->
  forall fuel evsF finF sF,
    lex_all_frags lo ds fuel sk src = Ok (evsF, finF, sF) ->
    (exists t, full = evsF ++ t) /\
    (finF = e \/ (finF = EEOF /\ evsF = full)) /\
    (finF = EEOF -> exists rc, lx_chunk sF = Some rc /\ end_err rc = EEOF).
Proof. exact C15_closed_failing_no_callback_thm. Qed.
Print Assumptions C15_closed_failing_no_callback.

Theorem C15_closed_failing_total : forall o lib comp lo ds cs' sk src e n (B : nat),
  (forall c a e0, (length (fst (ds c a e0)) <= length a + B)%nat) ->
  let R := W o lib comp None (cs' ++ [CClose]) in
  concat_data src = firstn n (file_of R) -> src_end src = Some e ->
  forall fuel, (n * (B + 2) < fuel)%nat ->
  let r := lex_all_frags lo ds fuel sk src in
  r = Err EBadMagic \/ exists evsF finF sF, r = Ok (evsF, finF, sF).
Proof. exact C15_closed_failing_total_thm. Qed.
Print Assumptions C15_closed_failing_total.

(* ----- non-vacuity: the first workload of C01_closed.v (hypotheses writer_ok / content_ok:
   C09_closed_ex_hyps, C09_closed_ex_hyps_modes) ----- *)
(* one byte per Read; and 100 bytes, an empty Read, the rest together with io.EOF (what follows it
   is never reached); the first n bytes one at a time and then an injected error *)
Example C15_closed_ex_sources :
  ex2_src_bytes = {| s_frags := one_byte_frags ex2_file; s_end := None |} /\
  ex2_src_mixed = {| s_frags := [FData (firstn 100 ex2_file); FData []; FDataEOF (skipn 100 ex2_file); FData [x09]];
                     s_end := Some EInjected |} /\
  (forall n, ex2_src_fail n = {| s_frags := one_byte_frags (firstn n ex2_file); s_end := Some EInjected |}).
Proof. repeat split. Qed.

Example C15_closed_ex_hyps :
  concat_data ex2_src_bytes = ex2_file /\ src_end ex2_src_bytes = None /\
  concat_data ex2_src_mixed = ex2_file /\ src_end ex2_src_mixed = None /\
  (forall n, concat_data (ex2_src_fail n) = firstn n ex2_file /\ src_end (ex2_src_fail n) = Some EInjected) /\
  (forall c a, snd (ds_id c a (Some EInjected)) = Some EInjected) /\
  (forall c a t, exists u, fst (ds_id c (a ++ t) None) = fst (ds_id c a (Some EInjected)) ++ u) /\
  (forall c a e0, (length (fst (ds_id c a e0)) <= length a + 0)%nat).
Proof. exact ex2_C15_hyps. Qed.

(* the injected error is none of the excluded ones; fuel for C15_closed_failing_total with B = 0 *)
Example C15_closed_ex_err :
  EInjected <> EEOF /\ EInjected <> EUnexpectedEOF /\ EInjected <> ETruncated /\ EInjected <> EInvalidChunkCrc /\
  (300 * (0 + 2) < 1171)%nat.
Proof. exact ex2_C15_err. Qed.

(* the theorem applied to both fragmentations *)
Example C15_closed_ex_applies : forall sk,
  lex_all_frags ex_lo ds_id 1171 sk ex2_src_bytes = lex_all ex_lo ds_id 1171 (src_of ex2_file sk) /\
  lex_all_frags ex_lo ds_id 1171 sk ex2_src_mixed = lex_all ex_lo ds_id 1171 (src_of ex2_file sk) /\
  exists st, lex_all_frags ex_lo ds_id 1171 sk ex2_src_mixed
             = Ok (file_events ex_lo ds_id (rev (w_trace (r_final ex2_R))), EEOF, st).
Proof. exact ex2_C15_applies. Qed.

(* computed, independently of the theorems: the source fails after 300 bytes (compare
   C09_closed_ex_cut_300: same events, but the read ends with the injected error); and a failure
   inside the closing magic, after all 25 events: still the injected error *)
Example C15_closed_ex_fail_300 :
  lex_tags (lex_all_frags (ex_lopts false false CbFull) ds_id 1171 false (ex2_src_fail 300))
    = Some ([Some OpHeader; Some OpSchema; Some OpChannel; Some OpMessage; Some OpMessageIndex; Some OpMessage], EInjected) /\
  lex_tags (lex_all_frags (ex_lopts true false CbFull) ds_id 1171 false (ex2_src_fail 300))
    = Some ([Some OpHeader; Some OpSchema; Some OpChannel; Some OpMessage; Some OpMessageIndex], EInjected) /\
  match lex_all_frags ex_lo ds_id 1171 false (ex2_src_fail 1010), lex_all ex_lo ds_id 1171 (src_of ex2_file false) with
  | Ok (evsF, finF, _), Ok (evsC, finC, _) => evsF = evsC /\ length evsF = 25%nat /\ finF = EInjected /\ finC = EEOF
  | _, _ => False
  end.
Proof. exact ex2_C15_fail_300. Qed.
