(* C10 (reader part) - "For any byte string whatsoever, opening it, reading its summary, asking for its
   messages, a metadata record or an attachment at any offset terminates by returning data or an error: the
   library never panics, never terminates the process, never loops forever, and never requests memory beyond
   its documented ceilings."

   Statements about the executable reader model Reader.v (reader.go, indexed_message_iterator.go,
   unindexed_message_iterator.go, Info).  Every theorem quantifies over every file source `f : fsrc` (any
   bytes, any failure position), every option list, every offset `off : N` (including >= 2^63) and over
   ARBITRARY oracle functions, except where a hypothesis about the oracle is stated.  All proofs live in
   theories/ReaderTotal.v.

   no_crash x = true  means: x is `Ok _` or `Err _` (not Panic, not Exit, not OutOfFuel).
   never_pe x         means: x is neither `Panic _` nor `Exit _`.

   What is unconditional and what is not:
   - never Panic / Exit: everything, unconditionally, from any iterator state and with any fuel;
   - NewReader, GetMetadata, GetAttachmentReader: total unconditionally;
   - Info, Messages dispatch and the sequential read are total when the streaming decoder delivers at most
     9 * (|input| + 47) bytes (`oracle9`); without such a bound the model's fuel (file size + 1) can run out:
     C10_reader_ex_bomb_info is a 98-byte input with `info = OutOfFuel`;
   - the indexed read is total when additionally the chunk indexes make the iterator yield at most
     file-size many messages (`index_load_ok`); otherwise the fuel can run out even without compression:
     C10_reader_ex_dup_read (80 chunk indexes pointing at one chunk of 125 messages, 9878 bytes).
   Both OutOfFuel cases are artefacts of how Reader.v chooses its fuel, not behaviour of the Go code. *)
From Mcap Require ConstsTie LayoutTie DecisionTieL. (* regenerated ties to /repo's source that this property's model relies on *)
From Coq Require Import List NArith ZArith Bool Lia.
From Coq.Strings Require Import Byte.
From Mcap Require Import Bytes GoSem Crc32 Records Lexer LexerFactsA Reader ReaderTotal.
Import ListNotations.
Open Scope N_scope.

(* ---------- 1. entry points ---------- *)
Theorem C10_reader_new_reader_total : forall ds f sk, no_crash (new_reader ds f sk) = true.
Proof. exact new_reader_total. Qed.
Print Assumptions C10_reader_new_reader_total.

Theorem C10_reader_get_metadata_total : forall ds f off, no_crash (get_metadata ds f off) = true.
Proof. exact get_metadata_total. Qed.
Print Assumptions C10_reader_get_metadata_total.

Theorem C10_reader_get_attachment_total : forall f off, no_crash (get_attachment f off) = true.
Proof. exact get_attachment_total. Qed.
Print Assumptions C10_reader_get_attachment_total.

Theorem C10_reader_info_no_panic : forall ds f, never_pe (info ds f).
Proof. exact info_no_panic. Qed.
Print Assumptions C10_reader_info_no_panic.

Theorem C10_reader_info_total : forall ds, oracle9 ds -> forall f, no_crash (info ds f) = true.
Proof. exact info_total. Qed.
Print Assumptions C10_reader_info_total.

Theorem C10_reader_parse_summary_no_panic : forall ds f ro im, never_pe (parse_summary ds f ro im).
Proof. exact parse_summary_no_panic. Qed.
Print Assumptions C10_reader_parse_summary_no_panic.

Theorem C10_reader_parse_summary_total : forall ds, oracle9 ds ->
  forall f ro im, no_crash (parse_summary ds f ro im) = true.
Proof. exact parse_summary_total. Qed.
Print Assumptions C10_reader_parse_summary_total.

(* whatever the decoder does, a parsed summary holds at most size + 1 chunk indexes *)
Theorem C10_reader_summary_chunk_indexes : forall ds f ro im sm,
  parse_summary ds f ro im = Ok sm -> (length (sm_cis sm) <= S (N.to_nat (fs_size f)))%nat.
Proof. exact parse_summary_chunk_indexes. Qed.
Print Assumptions C10_reader_summary_chunk_indexes.

Theorem C10_reader_dispatch_no_panic : forall ds f os, never_pe (messages_dispatch ds f os).
Proof. exact messages_dispatch_no_panic. Qed.
Print Assumptions C10_reader_dispatch_no_panic.

Theorem C10_reader_dispatch_total : forall ds, oracle9 ds ->
  forall f os, no_crash (messages_dispatch ds f os) = true.
Proof. exact messages_dispatch_total. Qed.
Print Assumptions C10_reader_dispatch_total.

(* the unconditional statements for Info / dispatch are false of the model *)
Theorem C10_reader_info_total_full_statement_false : ~ (forall ds f, no_crash (info ds f) = true).
Proof. exact info_total_full_statement_false. Qed.
Print Assumptions C10_reader_info_total_full_statement_false.

(* ---------- 2. a complete read ---------- *)
Theorem C10_reader_read_no_panic : forall ds dall f os, never_pe (read_messages ds dall f os).
Proof. exact read_messages_no_panic. Qed.
Print Assumptions C10_reader_read_no_panic.

Theorem C10_reader_read_total_partial : forall ds dall f os,
  oracle9 ds ->
  (forall r sm, messages_dispatch ds f os = Ok (MIndexed, r) -> parse_summary ds f r false = Ok sm ->
     (index_load dall r sm f (sm_cis sm) <= N.to_nat (fs_size f))%nat) ->
  no_crash (read_messages ds dall f os) = true.
Proof. exact read_messages_total. Qed.
Print Assumptions C10_reader_read_total_partial.

Theorem C10_reader_read_scan_total : forall ds dall f os,
  oracle9 ds -> (forall r, messages_dispatch ds f os <> Ok (MIndexed, r)) ->
  no_crash (read_messages ds dall f os) = true.
Proof. exact read_messages_scan_total. Qed.
Print Assumptions C10_reader_read_scan_total.

(* size-based sufficient condition: the decompressed sizes of the indexed chunks add up to <= 31 * file size *)
Theorem C10_reader_read_total_bytes : forall ds dall f os,
  oracle9 ds ->
  (forall r sm, messages_dispatch ds f os = Ok (MIndexed, r) -> parse_summary ds f r false = Ok sm ->
     (index_bytes dall f (sm_cis sm) <= 31 * N.to_nat (fs_size f))%nat) ->
  no_crash (read_messages ds dall f os) = true.
Proof. exact read_messages_total_bytes. Qed.
Print Assumptions C10_reader_read_total_bytes.

Definition C10_reader_read_full_statement : Prop :=
  forall ds dall f os, no_crash (read_messages ds dall f os) = true.
Theorem C10_reader_read_full_statement_false : ~ C10_reader_read_full_statement.
Proof. exact read_messages_total_full_statement_false. Qed.
Print Assumptions C10_reader_read_full_statement_false.

(* ---------- 3. step level, from ANY state and with ANY fuel ---------- *)
Theorem C10_reader_u_next_no_panic : forall lo ds ro fuel s mds, never_pe (u_next lo ds ro fuel s mds).
Proof. exact u_next_no_panic. Qed.
Print Assumptions C10_reader_u_next_no_panic.

(* the lexer never calls the decoder (EmitChunks) or the decoder is bounded; one unit of fuel per byte of the
   base reader, one per 9 bytes of the chunk reader, one for leaving the chunk (`nu`) *)
Theorem C10_reader_u_next_total : forall lo ds ro fuel s mds,
  lo_emit_chunks lo = true \/ oracle9 ds -> (nu (u_lex s) < fuel)%nat ->
  no_crash (u_next lo ds ro fuel s mds) = true /\
  (forall x, u_next lo ds ro fuel s mds = Ok x -> u_dec s x).
Proof. exact u_next_total. Qed.
Print Assumptions C10_reader_u_next_total.

Theorem C10_reader_scan_all_no_panic : forall ds fuel n ro s acc mds,
  never_pe (scan_all ds fuel n ro s acc mds).
Proof. exact scan_all_no_panic. Qed.
Print Assumptions C10_reader_scan_all_no_panic.

Theorem C10_reader_scan_all_total : forall ds fuel n ro s acc mds,
  oracle9 ds -> (nu (u_lex s) < fuel)%nat -> (nu (u_lex s) < n)%nat ->
  no_crash (scan_all ds fuel n ro s acc mds) = true.
Proof. exact scan_all_total. Qed.
Print Assumptions C10_reader_scan_all_total.

Theorem C10_reader_walk_total : forall ro sm fuel buf off slot acc,
  (length buf - N.to_nat off < fuel)%nat -> no_crash (walk ro sm fuel buf off slot acc) = true.
Proof. exact walk_total. Qed.
Print Assumptions C10_reader_walk_total.

Theorem C10_reader_load_chunk_total : forall dall ro sm f ci s,
  no_crash (load_chunk_i dall ro sm f ci s) = true.
Proof. exact load_chunk_i_total. Qed.
Print Assumptions C10_reader_load_chunk_total.

Theorem C10_reader_i_next_no_panic : forall dall ro sm f fuel s, never_pe (i_next dall ro sm f fuel s).
Proof. exact i_next_no_panic. Qed.
Print Assumptions C10_reader_i_next_no_panic.

Theorem C10_reader_i_next_total : forall dall ro sm f fuel s,
  (length (i_cis s) < fuel)%nat -> no_crash (i_next dall ro sm f fuel s) = true.
Proof. exact i_next_total. Qed.
Print Assumptions C10_reader_i_next_total.

Theorem C10_reader_i_next_progress : forall dall ro sm f fuel s x,
  i_next dall ro sm f fuel s = Ok x -> i_dec dall ro sm f s x.
Proof. exact i_next_progress. Qed.
Print Assumptions C10_reader_i_next_progress.

Theorem C10_reader_indexed_all_no_panic : forall dall fuel n ro sm f s acc st,
  never_pe (indexed_all dall fuel n ro sm f s acc st).
Proof. exact indexed_all_no_panic. Qed.
Print Assumptions C10_reader_indexed_all_no_panic.

Theorem C10_reader_indexed_all_total : forall dall fuel n ro sm f s acc st,
  (length (i_cis s) < fuel)%nat -> (pot dall ro sm f s < n)%nat ->
  no_crash (indexed_all dall fuel n ro sm f s acc st) = true.
Proof. exact indexed_all_total. Qed.
Print Assumptions C10_reader_indexed_all_total.

(* ---------- 4. allocation ceilings ---------- *)
(* lexer log (lx_allocs): every request below MaxInt32 *)
Theorem C10_reader_alloc_new_reader : forall ds f sk h l,
  new_reader ds f sk = Ok (h, l) -> Forall (fun n => n < max_int32) (lx_allocs l).
Proof. exact new_reader_alloc_ceiling. Qed.
Print Assumptions C10_reader_alloc_new_reader.

Theorem C10_reader_alloc_u_next : forall lo ds ro fuel s mds mds' r s',
  Forall (fun n => n < max_int32) (lx_allocs (u_lex s)) ->
  u_next lo ds ro fuel s mds = Ok (mds', r, s') ->
  Forall (fun n => n < max_int32) (lx_allocs (u_lex s')).
Proof. exact u_next_alloc_ceiling. Qed.
Print Assumptions C10_reader_alloc_u_next.

Theorem C10_reader_alloc_u_next_refined : forall lo ds ro fuel s mds mds' r s',
  u_next lo ds ro fuel s mds = Ok (mds', r, s') ->
  exists l, lx_allocs (u_lex s') = l ++ lx_allocs (u_lex s) /\ Forall (step_alloc_ok lo) l.
Proof. exact u_next_allocs. Qed.
Print Assumptions C10_reader_alloc_u_next_refined.

(* indexed iterator log (i_allocs): the decompressed-chunk buffer is below MaxInt32, the record buffer is at
   most the file size (the chunk length is checked against the file before the buffer is requested) *)
Theorem C10_reader_alloc_load_chunk : forall dall ro sm f ci s s',
  load_chunk_i dall ro sm f ci s = Ok s' ->
  exists l, i_allocs s' = l ++ i_allocs s /\ Forall (fun n => n < max_int32 \/ n <= fs_size f) l.
Proof. exact load_chunk_i_alloc_ceiling. Qed.
Print Assumptions C10_reader_alloc_load_chunk.

Theorem C10_reader_alloc_i_next : forall dall ro sm f fuel s r s',
  Forall (fun n => n < max_int32 \/ n <= fs_size f) (i_allocs s) ->
  i_next dall ro sm f fuel s = Ok (r, s') ->
  Forall (fun n => n < max_int32 \/ n <= fs_size f) (i_allocs s').
Proof. exact i_next_alloc_ceiling. Qed.
Print Assumptions C10_reader_alloc_i_next.

(* ---------- non-vacuity ---------- *)
Example C10_reader_ex_oracle9_id : oracle9 id_oracle.
Proof. exact ex_oracle9_id. Qed.
Example C10_reader_ex_oracle9_expanding : oracle9 (fun _ a e => (a ++ a ++ a, e)).
Proof. exact ex_oracle9_expanding. Qed.

(* a well-formed indexed file (one chunk: a channel and 3 messages), and the same chunk indexed 4 times *)
Example C10_reader_ex_index_load_ok :
  index_load_ok id_oracle ex_no_dall (ex_mem (ex_dup_file 3 1)) [] /\
  index_load_ok id_oracle ex_no_dall (ex_mem (ex_dup_file 3 4)) [].
Proof. exact (conj ex_index_load_ok_1 ex_index_load_ok_4). Qed.
Example C10_reader_ex_read_ok :
  ex_strip (read_messages id_oracle ex_no_dall (ex_mem (ex_dup_file 3 1)) []) = Ok (Some MIndexed, 3%nat, EEOF) /\
  ex_strip (read_messages id_oracle ex_no_dall (ex_mem (ex_dup_file 3 4)) []) = Ok (Some MIndexed, 12%nat, EEOF) /\
  ex_strip (read_messages id_oracle ex_no_dall (ex_mem (ex_dup_file 3 4)) [OUsingIndex false]) = Ok (Some MScan, 3%nat, EEOF).
Proof. exact ex_read_ok. Qed.
Example C10_reader_ex_index_bytes_ok : index_bytes_ok id_oracle ex_no_dall (ex_mem (ex_dup_file 3 4)) [].
Proof. exact ex_index_bytes_ok_4. Qed.
Example C10_reader_ex_scan_dispatch : forall r,
  messages_dispatch id_oracle (ex_mem (ex_dup_file 3 4)) [OUsingIndex false] <> Ok (MIndexed, r).
Proof. exact ex_scan_dispatch. Qed.
(* allocation logs of real steps (NewReader; first NextInto of the scan; first step of the indexed read) *)
Example C10_reader_ex_alloc_logs :
  let f := ex_mem (ex_dup_file 3 1) in
  let ro := finalize default_ropts in
  match new_reader id_oracle f true with
  | Ok (_, l) =>
    (lx_allocs l,
     match u_next scan_lopts id_oracle ro 700 {| u_lex := l; u_schemas := []; u_channels := []; u_reccap := 0 |} [] with
     | Ok (_, UMsg _, s') => lx_allocs (u_lex s') | _ => [] end)
  | _ => ([], [])
  end = ([8], [22; 17; 8]) /\
  match info id_oracle f with
  | Ok sm =>
    match i_next ex_no_dall ro sm f 700 {| i_cis := sm_cis sm; i_queue := []; i_slots := []; i_reccap := 0; i_allocs := [] |} with
    | Ok (IMsg _, s') => i_allocs s' | _ => [] end
  | _ => []
  end = [119; 168].
Proof. exact ex_alloc_logs. Qed.
Example C10_reader_ex_walk_hyp :
  (length (ex_rep 4 ex_message) - N.to_nat 0 < S (length (ex_rep 4 ex_message)))%nat /\
  is_ok (walk (finalize default_ropts) empty_summ (S (length (ex_rep 4 ex_message))) (ex_rep 4 ex_message) 0 0 []) = true.
Proof. exact ex_walk_hyp. Qed.
(* the fuel hypotheses of the step-level theorems hold for the states read_messages starts from *)
Example C10_reader_ex_step_hyps :
  match new_reader id_oracle (ex_mem (ex_dup_file 3 1)) true with
  | Ok (_, l) => Nat.ltb (nu l) 329 && Nat.ltb 0 (nu l)
  | _ => false
  end = true /\
  fs_size (ex_mem (ex_dup_file 3 1)) = 329 /\
  lex_bounded scan_lopts id_oracle /\
  match info id_oracle (ex_mem (ex_dup_file 3 1)) with
  | Ok sm => Nat.ltb (length (sm_cis sm)) 330 && Nat.eqb (length (sm_cis sm)) 1 &&
             Nat.eqb (index_load ex_no_dall (finalize default_ropts) sm (ex_mem (ex_dup_file 3 1)) (sm_cis sm)) 3
  | _ => false
  end = true.
Proof. exact ex_step_hyps. Qed.

(* ---------- hostile inputs: the statements are about the interesting region ---------- *)
(* a footer pointing past the end of the file; a summary_start of 2^63 *)
Example C10_reader_ex_hostile_footer :
  info id_oracle (ex_mem ex_past_end_file) = Err EBadOffset /\
  info id_oracle (ex_mem ex_two63_file) = Err EBadOffset /\
  messages_dispatch id_oracle (ex_mem ex_two63_file) [] = Err EBadOffset /\
  ex_strip (read_messages id_oracle ex_no_dall (ex_mem ex_two63_file) []) = Ok (None, O, EBadOffset).
Proof. exact ex_hostile_footer. Qed.

(* a chunk index with chunk length 5: the indexed read ends with an error; a source failing inside the summary *)
Example C10_reader_ex_hostile_chunk_index :
  messages_dispatch id_oracle (ex_mem ex_short_ci_file) [] = Ok (MIndexed, finalize default_ropts) /\
  ex_strip (read_messages id_oracle ex_no_dall (ex_mem ex_short_ci_file) []) = Ok (Some MIndexed, O, EOther) /\
  info id_oracle {| fs_data := ex_short_ci_file; fs_fail := Some 140 |} = Err EInjected.
Proof. exact ex_hostile_chunk_index. Qed.

(* an attachment offset of 2^64 - 9 (offset + 9 wraps to 0, as in Go), 2^64 - 1, 2^63; metadata offsets *)
Example C10_reader_ex_hostile_offsets :
  get_attachment (ex_mem (magic ++ ex_header)) 18446744073709551607 = Err EUnexpectedEOF /\
  get_attachment (ex_mem ex_short_ci_file) 18446744073709551615 = Err EUnexpectedEOF /\
  get_attachment (ex_mem ex_short_ci_file) 9223372036854775808 = Err EOther /\
  get_attachment (ex_mem ex_short_ci_file) 1000 = Err EEOF /\
  get_metadata id_oracle (ex_mem ex_short_ci_file) 9223372036854775808 = Err EOther /\
  get_metadata id_oracle (ex_mem ex_short_ci_file) 1000 = Err EEOF /\
  get_metadata id_oracle (ex_mem ex_short_ci_file) 8 = Err EUnexpectedToken.
Proof. exact ex_hostile_offsets. Qed.

(* ---------- inputs on which the model's fuel runs out (model artefacts) ---------- *)
Example C10_reader_ex_bomb_info :
  fs_size (ex_mem ex_bomb_file) = 98 /\
  info ex_bomb_ds (ex_mem ex_bomb_file) = OutOfFuel /\
  messages_dispatch ex_bomb_ds (ex_mem ex_bomb_file) [] = OutOfFuel /\
  is_ok (info id_oracle (ex_mem ex_bomb_file)) = true.
Proof. exact ex_bomb_info. Qed.
Example C10_reader_ex_bomb_not_oracle9 : ~ oracle9 ex_bomb_ds.
Proof. exact ex_bomb_not_oracle9. Qed.
Example C10_reader_ex_sbomb_read :
  read_messages ex_sbomb_ds ex_no_dall (ex_mem ex_sbomb_file) [OUsingIndex false] = OutOfFuel.
Proof. exact ex_sbomb_read. Qed.
Example C10_reader_ex_zbomb_read :
  fs_size (ex_mem ex_zbomb_file) = 214 /\
  read_messages id_oracle ex_zbomb_dall (ex_mem ex_zbomb_file) [] = OutOfFuel.
Proof. exact ex_zbomb_read. Qed.
Example C10_reader_ex_dup_read :
  fs_size (ex_mem (ex_dup_file 125 80)) = 9878 /\
  read_messages id_oracle ex_no_dall (ex_mem (ex_dup_file 125 80)) [] = OutOfFuel.
Proof. exact ex_dup_read. Qed.
