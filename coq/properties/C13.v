(* C13 - the writer's output is a deterministic function of options and calls and does not
   depend on the insertion/iteration order of the map arguments (Channel.Metadata,
   Metadata.Metadata).  Determinism is by construction (W is a Gallina function); the content
   is the independence from map order.  Proofs: theories/WriterFactsA.v. *)
From Mcap Require ConstsTie LayoutTie. (* regenerated ties to /repo's source that this property's model relies on *)
From Coq Require Import List NArith ZArith Bool Permutation.
From Coq.Strings Require Import Byte.
From Mcap Require Import Bytes GoSem Records Writer WriterFactsA.
Import ListNotations.
Open Scope N_scope.

Theorem enc_map_perm : forall m m', NoDup (map fst m) -> Permutation m m' -> enc_map m = enc_map m'.
Proof. exact WriterFactsA.enc_map_perm. Qed.
Print Assumptions enc_map_perm.

Theorem C13_map_order : forall o lib comp flt cs cs', Forall2 call_equiv cs cs' ->
  let R := W o lib comp flt cs in let R' := W o lib comp flt cs' in
  r_new R = r_new R' /\ r_calls R = r_calls R' /\ r_writes R = r_writes R'.
Proof. exact C13_map_order_proof. Qed.
Print Assumptions C13_map_order.

(* ---- non-vacuity ---- *)
Definition ex_opts : wopts :=
  {| o_crc := true; o_chunked := true; o_chunksize := 1; o_comp := []; o_custom := false;
     o_skip_mi := false; o_skip_stats := false; o_skip_rsh := false; o_skip_rch := false;
     o_skip_ai := false; o_skip_mdi := false; o_skip_ci := false; o_skip_so := false;
     o_override_lib := false; o_skip_magic := false |}.
Definition ex_lib : bytes := [x6d; x63].
Definition ex_comp : nat -> bytes -> bytes := fun _ b => b.

Definition kA : bytes * bytes := ([x61], [x31]).
Definition kB : bytes * bytes := ([x62; x62], [x32]).
Definition kC : bytes * bytes := ([x61; x62], []).

Definition ex_calls (meta1 meta2 : kvs) : list wcall :=
  [ CHeader {| h_profile := []; h_library := [] |};
    CSchema {| s_id := 1; s_name := [x73]; s_encoding := [x65]; s_data := [x01] |};
    CChannel {| c_id := 1; c_schema := 1; c_topic := [x74]; c_menc := [x65]; c_meta := meta1 |};
    CMessage {| m_chan := 1; m_seq := 0; m_log := 7; m_pub := 7; m_data := [x01; x02] |};
    CMetadata {| md_name := [x6e]; md_meta := meta2 |};
    CMessage {| m_chan := 1; m_seq := 1; m_log := 3; m_pub := 3; m_data := [] |};
    CClose ].
Definition ex_cs : list wcall := ex_calls [kA; kB; kC] [kC; kA; kB].
Definition ex_cs' : list wcall := ex_calls [kC; kA; kB] [kB; kC; kA].

Example ex_cs_differ : ex_cs <> ex_cs'.
Proof. discriminate. Qed.

Example ex_enc_map_perm_applies : enc_map [kA; kB; kC] = enc_map [kC; kA; kB].
Proof.
  apply enc_map_perm.
  - repeat constructor; cbn; intuition discriminate.
  - apply Permutation_sym. apply (Permutation_cons_app [kA; kB] [] kC). apply Permutation_refl.
Qed.

Example ex_call_equiv : Forall2 call_equiv ex_cs ex_cs'.
Proof.
  unfold ex_cs, ex_cs', ex_calls.
  repeat (apply Forall2_cons; [try apply ce_refl|]); [| |apply Forall2_nil].
  - apply ce_channel; try reflexivity.
    + repeat constructor; cbn; intuition discriminate.
    + apply Permutation_sym. apply (Permutation_cons_app [kA; kB] [] kC). apply Permutation_refl.
  - apply ce_metadata; try reflexivity.
    + repeat constructor; cbn; intuition discriminate.
    + apply Permutation_sym. apply (Permutation_cons_app [kC; kA] [] kB). apply Permutation_refl.
Qed.

(* both runs succeed, produce the same, non-empty sequence of destination writes (chunked mode) *)
Example ex_runs_equal :
  let R := W ex_opts ex_lib ex_comp None ex_cs in
  let R' := W ex_opts ex_lib ex_comp None ex_cs' in
  r_new R = None /\ forallb (fun r => match fst r with None => true | Some _ => false end) (r_calls R) = true /\
  r_writes R = r_writes R' /\ length (r_writes R) = 40%nat /\ length (file_of R) = 909%nat.
Proof. vm_compute. repeat split. Qed.

Example ex_theorem_applies :
  r_writes (W ex_opts ex_lib ex_comp None ex_cs) = r_writes (W ex_opts ex_lib ex_comp None ex_cs').
Proof. apply (C13_map_order ex_opts ex_lib ex_comp None ex_cs ex_cs' ex_call_equiv). Qed.
