(* C09 - truncated files.
   "If a written file is truncated at any byte position, a sequential read of the remainder returns
    a prefix of the original record sequence and then ends with end-of-file or an error: it never
    returns a record that was not written, never returns altered content (an attachment cut inside
    its data may surface with fewer data bytes than it declares), and never crashes.  Every message
    of every chunk that was completely written before the cut is among the records returned."

   Model: Lexer.v (lex_all drives Lexer.Next until TokenError).  A written file is
   render items = concat (map render_item items) (Writer.v); wf_file / item_events are in LexSpec.v.
   "never crashes": the result is Ok (or Err EBadMagic from NewLexer), never Panic / Exit / OutOfFuel. *)
From Mcap Require ConstsTie LayoutTie DecisionTieL. (* regenerated ties to /repo's source that this property's model relies on *)
From Coq Require Import List NArith ZArith Bool.
From Coq.Strings Require Import Byte.
From Mcap Require Import Bytes GoSem Crc32 Records RecordsFacts Writer Lexer LexSpec LexerFactsB.
Import ListNotations.
Open Scope N_scope.

(* 0. what a sequential read of an intact well-formed file returns (also used by C01 and C11) *)
Theorem lex_render : forall lo dstream items sk,
  wf_file lo dstream items ->
  forall fuel, (file_steps lo dstream items + 1 <= fuel)%nat ->
  exists st, lex_all lo dstream fuel (src_of (render items) sk)
             = Ok (file_events lo dstream items, EEOF, st).
Proof. exact lex_render_thm. Qed.
Print Assumptions lex_render.

(* 1. the property, for every supported codec satisfying codec_prefix_ok, every option combination
      allowed by wf_file (validation on/off, callback none/full, seekable or not) *)
Definition C09_full_statement : Prop :=
  forall lo dstream items k sk,
  wf_file lo dstream items -> codec_prefix_ok dstream -> (k < length (render items))%nat ->
  forall fuel, (file_steps lo dstream items + 3 <= fuel)%nat ->
  let r := lex_all lo dstream fuel (src_of (firstn k (render items)) sk) in
  (lo_skip_magic lo = false /\ (k < 8)%nat /\ r = Err EBadMagic)
  \/ exists evs fin st,
       r = Ok (evs, fin, st)
       /\ event_prefix evs (file_events lo dstream items)
       /\ (forall pre it post, items = pre ++ it :: post ->
             (length (render (pre ++ [it])) <= k)%nat ->
             is_prefix (file_events lo dstream (pre ++ [it])) evs).

Theorem C09_lexer : C09_full_statement.
Proof. exact C09_lexer_thm. Qed.
Print Assumptions C09_lexer.

(* 2. the sharper form: the cut falls in item `it`; everything of the items before it is delivered,
      then a prefix of the events of `it` (a cut attachment may appear with a prefix of its data and
      a failing ParsedCRC) *)
Theorem C09_cut : forall lo dstream items k sk,
  wf_file lo dstream items -> codec_prefix_ok dstream -> (k < length (render items))%nat ->
  forall fuel, (file_steps lo dstream items + 3 <= fuel)%nat ->
  let r := lex_all lo dstream fuel (src_of (firstn k (render items)) sk) in
  (lo_skip_magic lo = false /\ (k < 8)%nat /\ r = Err EBadMagic)
  \/ exists done it post partial fin st,
       items = done ++ it :: post
       /\ (length (render done) <= k < length (render (done ++ [it])))%nat
       /\ r = Ok (file_events lo dstream done ++ partial, fin, st)
       /\ event_prefix partial (item_events lo dstream it).
Proof. exact C09_cut_thm. Qed.
Print Assumptions C09_cut.

(* 3. on ANY input (well-formed or not) the model of Next/NewLexer has no panic or exit path, and
      the events of a call sequence only grow *)
Theorem C09_no_crash : forall lo dstream fuel src,
  match lex_all lo dstream fuel src with
  | Ok _ | OutOfFuel | Err EBadMagic => True
  | _ => False
  end.
Proof. exact lex_all_no_crash. Qed.
Print Assumptions C09_no_crash.

(* ----- non-vacuity ----- *)
Example C09_ex_hyps :
  wf_file (ex_lopts false false CbFull) ds_id ex_items /\ codec_prefix_ok ds_id
  /\ (120 < length (render ex_items))%nat
  /\ (file_steps (ex_lopts false false CbFull) ds_id ex_items + 3 <= 30)%nat.
Proof. exact ex_C09_hyps. Qed.

Example C09_ex_wf_all_modes : forall validate emit_invalid cb,
  cb = CbNone \/ cb = CbFull -> wf_file (ex_lopts validate emit_invalid cb) ds_id ex_items.
Proof. exact ex_wf_file. Qed.

(* cut inside the second message of the chunk: the header and the first message are delivered *)
Example C09_ex_cut_in_chunk :
  exists st, lex_all (ex_lopts false false CbFull) ds_id 30 (src_of (firstn 120 (render ex_items)) false)
  = Ok ([EvToken OpHeader (enc_header {| h_profile := []; h_library := [x6c] |}); EvToken OpMessage ex_m1], ETruncated, st).
Proof. exact ex_cut_in_chunk. Qed.

(* the same cut with chunk CRC validation: nothing of the incomplete chunk is delivered *)
Example C09_ex_cut_in_chunk_validating :
  exists st, lex_all (ex_lopts true false CbFull) ds_id 30 (src_of (firstn 120 (render ex_items)) false)
  = Ok ([EvToken OpHeader (enc_header {| h_profile := []; h_library := [x6c] |})], EUnexpectedEOF, st).
Proof. exact ex_cut_in_chunk_validating. Qed.

(* cut inside the attachment data: 1 of 3 declared bytes, both CRC accessors fail *)
Example C09_ex_cut_in_attachment :
  exists st ob, lex_all (ex_lopts true false CbFull) ds_id 30 (src_of (firstn 195 (render ex_items)) false)
  = Ok ([EvToken OpHeader (enc_header {| h_profile := []; h_library := [x6c] |});
         EvToken OpMessage ex_m1; EvToken OpMessage ex_m2; EvAttachment ob], EEOF, st)
  /\ ao_data ob = [x01] /\ ao_size ob = 3 /\ ao_parsed ob = Err EOther /\ ao_computed ob = Err EOther.
Proof. exact ex_cut_in_attachment. Qed.

Example C09_ex_intact : forall validate sk cb, cb = CbNone \/ cb = CbFull ->
  exists st, lex_all (ex_lopts validate false cb) ds_id 20 (src_of (render ex_items) sk)
             = Ok (file_events (ex_lopts validate false cb) ds_id ex_items, EEOF, st).
Proof. exact ex_lex_render. Qed.
