(* C16 (source tie, Python side) - the decisions of python/mcap's readers are the ones written in reader.py and
   _message_queue.py today: `py_*` are regenerated from the Python AST on every run (theories/PyDecisions_gen.v,
   tools/pytrans.py); proofs: theories/PyDecisionTie.v. *)
From Mcap Require ConstsTie LayoutTie PyDecisionTie. (* regenerated ties to /repo's source that this property's model relies on *)
From Coq Require Import List NArith ZArith Bool.
From Mcap Require Import Bytes GoSem Records Py PyDecisions_gen PyDecisionTie.
Import ListNotations.
Open Scope N_scope.

(* the comparator of the model's heap is _Orderable.__lt__ *)
Theorem C16_tie_queue_order : forall (rev_ : bool) (x y : qitem), q_lt rev_ x y = py_lt rev_ x y.
Proof. exact tie_q_lt. Qed.
Print Assumptions C16_tie_queue_order.

(* both readers keep a message exactly when none of the three `continue` guards fires *)
Theorem C16_tie_filter_seeking : forall flt c m,
  msg_selected flt c m = negb (py_sk_skip_topic flt c m) && negb (py_sk_skip_start flt c m) && negb (py_sk_skip_end flt c m).
Proof. exact tie_msg_selected_sk. Qed.
Print Assumptions C16_tie_filter_seeking.
Theorem C16_tie_filter_streaming : forall flt c m,
  msg_selected flt c m = negb (py_ns_skip_topic flt c m) && negb (py_ns_skip_start flt c m) && negb (py_ns_skip_end flt c m).
Proof. exact tie_msg_selected_ns. Qed.
Print Assumptions C16_tie_filter_streaming.

(* the chunk selection of the seeking reader takes the tests of _chunks_matching_topics, in their order *)
Theorem C16_tie_chunk_selection : forall su flt ci r acc,
  chunks_matching su flt (ci :: r) acc =
  if py_cm_skip_start flt ci then chunks_matching su flt r acc
  else if py_cm_skip_end flt ci then chunks_matching su flt r acc
  else if py_cm_all_topics flt ci then chunks_matching su flt r (acc ++ [ci])
  else if py_cm_no_index flt ci then chunks_matching su flt r (acc ++ [ci])
  else match mf_topics flt with
       | Some ts => match any_topic 0 su ts (ci_mioffsets ci) with
                    | POk hit => chunks_matching su flt r (if hit then acc ++ [ci] else acc)
                    | PRaise e => PRaise e
                    | PFuel => PFuel
                    end
       | None => chunks_matching su flt r (acc ++ [ci])
       end.
Proof. exact chunks_matching_unfold. Qed.
Print Assumptions C16_tie_chunk_selection.
