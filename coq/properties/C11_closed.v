(* C11_closed - companion of C11.v (lexer half) for WRITER-PRODUCED files: hypotheses about the
   writer's inputs only (writer_ok / content_ok, see C09_closed.v),
   R = W o lib comp None (cs' ++ [CClose]).  Proofs in theories/Closed2.v: compositions of
   C11_unknown_records_skipped with C01_closed.writer_trace_wf / writer_trace_fuel /
   C01_file_is_trace and C01_roundtrip.

   decorate_file lo ds items items' (ComposeFacts.v, see C11.v): items' is items with extra
   records of unknown opcode at arbitrary top-level positions and inside chunks.  The decoration is
   an input of the statement: its fuel bound (file_steps of the decorated item list) is a
   hypothesis about the decoration, not about the writer's output.

   1. C11_closed            the lexer returns the same events, then io.EOF, for the written file
                            and for its decorated version;
   2. C11_closed_roundtrip  hence the decorated file reads back as what the calls wrote. *)
From Mcap Require ConstsTie LayoutTie. (* regenerated ties to /repo's source that this property's model relies on *)
From Coq Require Import List NArith ZArith Bool.
From Coq.Strings Require Import Byte.
From Mcap Require Import Bytes GoSem Crc32 Records RecordsFacts Writer WriterFactsA WriterFactsB
  Lexer LexSpec LexerFactsB ComposeFacts C01Closed Closed2.
Import ListNotations.
Open Scope N_scope.

Theorem C11_closed : forall o lib comp lo ds cs' items' sk sk',
  writer_ok o lib comp lo ds cs' ->
  let R := W o lib comp None (cs' ++ [CClose]) in
  let items := rev (w_trace (r_final R)) in
  decorate_file lo ds items items' ->
  forall fuel, (fuel_of (file_of R) cs' <= fuel)%nat -> (file_steps lo ds items' + 1 <= fuel)%nat ->
  exists st st',
    lex_all lo ds fuel (src_of (file_of R) sk) = Ok (file_events lo ds items, EEOF, st) /\
    lex_all lo ds fuel (src_of (render items') sk') = Ok (file_events lo ds items, EEOF, st').
Proof. exact C11_closed_thm. Qed.
Print Assumptions C11_closed.

Theorem C11_closed_roundtrip : forall o lib comp lo ds cs' items' sk',
  writer_ok o lib comp lo ds cs' -> content_ok o lib lo cs' ->
  let R := W o lib comp None (cs' ++ [CClose]) in
  decorate_file lo ds (rev (w_trace (r_final R))) items' ->
  forall fuel, (fuel_of (file_of R) cs' <= fuel)%nat -> (file_steps lo ds items' + 1 <= fuel)%nat ->
  exists evs st',
    lex_all lo ds fuel (src_of (render items') sk') = Ok (evs, EEOF, st') /\
    map decode_event (filter ev_direct (data_events evs))
      = map Ok (flat_map (call_contents lo o lib) (filter call_direct cs')) /\
    map decode_event (filter ev_auto (data_events evs))
      = map Ok (flat_map (call_contents lo o lib) (filter call_auto cs')).
Proof. exact C11_closed_roundtrip_thm. Qed.
Print Assumptions C11_closed_roundtrip.

(* ----- non-vacuity: the first workload of C01_closed.v; its trace decorated with unknown records
   before the header (opcode 0x81), after the first chunk (0x82, empty) and after the footer
   (0xfe); validation on/off, callback none/full ----- *)
Example C11_closed_ex_decoration :
  ex2_recs = middle (rev (w_trace (r_final ex2_R))) /\
  ex2_items_dec = [IMagic] ++ ((IRec x81 [x00; x01] :: firstn 2 ex2_recs) ++ (IRec x82 [] :: skipn 2 ex2_recs)
                               ++ [IRec xfe [xde; xad]]) ++ [IMagic].
Proof. split; reflexivity. Qed.

Example C11_closed_ex_hyps : forall validate cb, cb = CbNone \/ cb = CbFull ->
  let lo := ex_lopts validate false cb in
  writer_ok ex_o ex_lib ex_comp lo ds_id ex_cs_pre /\ content_ok ex_o ex_lib lo ex_cs_pre /\
  decorate_file lo ds_id (rev (w_trace (r_final ex2_R))) ex2_items_dec /\
  (fuel_of (file_of ex2_R) ex_cs_pre <= 1171)%nat /\ (file_steps lo ds_id ex2_items_dec + 1 <= 1171)%nat /\
  length (render ex2_items_dec) = (length ex2_file + 11 + 9 + 11)%nat.
Proof. exact ex2_C11_hyps. Qed.

(* computed independently of the theorem: the model lexer on both byte strings *)
Example C11_closed_ex_computed :
  match lex_all ex_lo ds_id 1171 (src_of ex2_file false),
        lex_all ex_lo ds_id 1171 (src_of (render ex2_items_dec) false) with
  | Ok (evs, EEOF, _), Ok (evs', EEOF, _) => evs = evs' /\ length evs = 25%nat
  | _, _ => False
  end.
Proof. exact ex2_C11_computed. Qed.
