(* C20 (second half) - "a sequential read keeps at most one chunk or record, and attachments of any
   size stream through both the reader and the writer in constant memory".

   Lexer side (Lexer.v): lx_allocs logs every size the lexer requests from make/makeSafe.  One
   iteration of the loop in Lexer.Next (lex_step; lex_next is its iteration, C20_next_is_iterated_step)
   reads one record.  Its requests are the explicit function rec_reqs of: the caller's buffer
   capacity, the sizes of the two buffers the lexer retains (32-byte scratch, grown for long
   compression names; the decompressed-chunk buffer of a validating lexer) and the bytes of the
   record in front of the reader - not of the log, not of the source's end, not of the decoder, not
   of anything behind the record.  An attachment record requests nothing: the Go code parses the
   name and media type with io.ReadAll over a limited reader (no make/makeSafe call, so the model
   logs nothing for them) and hands the data to the callback as a reader.

   Writer side (Writer.v): r_writes lists the bytes handed to each destination Write; an attachment's
   data is a list of source fragments (what io.Copy reads).  WriteAttachment makes one Write per
   fragment, as it is.

   All proofs live in theories/SeqMemFacts.v. *)
From Mcap Require ConstsTie LayoutTie. (* regenerated ties to /repo's source that this property's model relies on *)
From Coq Require Import List NArith ZArith Bool.
From Coq.Strings Require Import Byte.
From Mcap Require Import Bytes GoSem Crc32 Records Writer Lexer LexSpec LexerFactsA LexerFactsB WriterFactsB
  SeqMemFacts.
Import ListNotations.
Open Scope N_scope.

(* ---------- 1. one chunk or record at a time ---------- *)
(* Next is the iteration of lex_step *)
Theorem C20_next_is_iterated_step : forall lo dstream f pcap s evs,
  lex_next lo dstream (S f) pcap s evs =
  match lex_step lo dstream pcap s evs with
  | SDone a b c => Ok (a, b, c)
  | SCont s' evs' => lex_next lo dstream f pcap s' evs'
  end.
Proof. exact lex_next_S. Qed.
Print Assumptions C20_next_is_iterated_step.

(* the log grows by rec_reqs (newest first) *)
Theorem C20_step_requests : forall lo dstream pcap s evs,
  lx_allocs (step_state (lex_step lo dstream pcap s evs)) =
  rec_reqs lo pcap (lx_bufcap s) (lx_ubuf s) (is_in_chunk s) (r_buf (cur s)) ++ lx_allocs s.
Proof. exact lex_step_requests. Qed.
Print Assumptions C20_step_requests.

(* rec_reqs looks at the current record only: the 9-byte head and the rec_len b bytes it announces *)
Theorem C20_step_requests_current_record_only : forall lo pcap bufcap ubuf inck b,
  rec_reqs lo pcap bufcap ubuf inck (take (9 + rec_len b) b) = rec_reqs lo pcap bufcap ubuf inck b.
Proof. exact rec_reqs_trunc. Qed.
Print Assumptions C20_step_requests_current_record_only.

(* every request is below MaxInt32 and is one of: the record's own length (only when the caller's
   buffer is smaller); for a chunk, compression-name length + 8 (fits in the record; only when the
   retained scratch is smaller); for a chunk of a validating lexer, twice its declared uncompressed
   size (only when the retained chunk buffer is smaller than that size; within MaxDecompressedChunkSize
   when set) *)
Theorem C20_step_request_sizes : forall lo pcap bufcap ubuf inck b,
  Forall (fun n =>
    n < max_int32 /\
    ((n = rec_len b /\ pcap < n /\ rec_op b <> OpAttachment) \/
     (rec_op b = OpChunk /\ lo_emit_chunks lo = false /\
      n = chunk_clen (drop 9 b) + 8 /\ n + 32 <= rec_len b /\ bufcap < n) \/
     (rec_op b = OpChunk /\ lo_emit_chunks lo = false /\ lo_validate lo = true /\
      n = 2 * chunk_usize (drop 9 b) /\ ubuf < chunk_usize (drop 9 b) /\
      (0 < lo_max_chunk lo -> chunk_usize (drop 9 b) <= lo_max_chunk lo))))
    (rec_reqs lo pcap bufcap ubuf inck b).
Proof. exact rec_reqs_ok. Qed.
Print Assumptions C20_step_request_sizes.

(* at most two requests per step; at most one unless a validating lexer opens a chunk; none for an
   attachment; a streaming (non-validating) lexer opening a chunk asks for the scratch only *)
Theorem C20_step_request_count : forall lo pcap bufcap ubuf inck b,
  (length (rec_reqs lo pcap bufcap ubuf inck b) <= 2)%nat /\
  (rec_op b <> OpChunk \/ lo_emit_chunks lo = true \/ lo_validate lo = false ->
     (length (rec_reqs lo pcap bufcap ubuf inck b) <= 1)%nat) /\
  (rec_op b = OpAttachment -> rec_reqs lo pcap bufcap ubuf inck b = []) /\
  (rec_op b = OpChunk -> lo_emit_chunks lo = false -> lo_validate lo = false ->
     Forall (fun n => n = chunk_clen (drop 9 b) + 8) (rec_reqs lo pcap bufcap ubuf inck b)).
Proof. exact rec_reqs_count. Qed.
Print Assumptions C20_step_request_count.

(* ---------- 2. attachments through the lexer ---------- *)
(* an attachment record adds no request: any state, any options (every callback mode), any declared
   length, any content, any source *)
Theorem C20_attachment_no_request : forall lo dstream pcap s evs,
  rec_op (r_buf (cur s)) = OpAttachment ->
  lx_allocs (step_state (lex_step lo dstream pcap s evs)) = lx_allocs s.
Proof. exact att_step_no_request. Qed.
Print Assumptions C20_attachment_no_request.

(* the callback is handed the data bytes it reads, not the attachment: at most k under CbPartial k *)
Theorem C20_attachment_callback_data : forall lo rl r k ev oe r',
  lo_cb lo = CbPartial k -> do_attachment lo rl r = (ev, oe, r') ->
  match ev with Some (EvAttachment ob) => blen (ao_data ob) <= N.of_nat k | _ => True end.
Proof. exact do_attachment_partial_data. Qed.
Print Assumptions C20_attachment_callback_data.

(* two attachment records (any fields, any data, any crc; each shorter than 2^63 and within
   MaxRecordSize when set) in front of the same continuation: the step leaves the lexer in one and
   the same state, with the log unchanged *)
Theorem C20_attachment_same_state : forall lo dstream pcap s evs body1 body2 rest e sk,
  lo_cb lo <> CbFail -> att_body_ok lo body1 -> att_body_ok lo body2 ->
  exists ev1 ev2,
    lex_step lo dstream pcap (set_cur (rd (frame OpAttachment body1 ++ rest) e sk) s) evs
      = SCont (set_cur (rd rest e sk) s) (evs ++ ev1) /\
    lex_step lo dstream pcap (set_cur (rd (frame OpAttachment body2 ++ rest) e sk) s) evs
      = SCont (set_cur (rd rest e sk) s) (evs ++ ev2) /\
    lx_allocs (set_cur (rd rest e sk) s) = lx_allocs s.
Proof. exact att_step_same_state. Qed.
Print Assumptions C20_attachment_same_state.

Theorem C20_attachment_body_ok : forall lo a data crc,
  att_fields_ok a ->
  blen (attach_body a data crc) < two63 -> len_ok lo (blen (attach_body a data crc)) ->
  att_body_ok lo (attach_body a data crc).
Proof. exact attach_body_ok. Qed.
Print Assumptions C20_attachment_body_ok.

(* hence the whole call of Next that meets one or the other attachment ends with the same result and
   the same lexer state (next_forget drops the event list, where the attachment events differ):
   in particular the same allocation log, whatever the two data sizes *)
Theorem C20_attachment_data_independent :
  forall lo dstream f pcap s evs a1 data1 crc1 a2 data2 crc2 rest e sk,
  lo_cb lo <> CbFail ->
  att_fields_ok a1 -> att_fields_ok a2 ->
  blen (attach_body a1 data1 crc1) < two63 -> blen (attach_body a2 data2 crc2) < two63 ->
  len_ok lo (blen (attach_body a1 data1 crc1)) -> len_ok lo (blen (attach_body a2 data2 crc2)) ->
  next_forget (lex_next lo dstream f pcap
     (set_cur (rd (frame OpAttachment (attach_body a1 data1 crc1) ++ rest) e sk) s) evs) =
  next_forget (lex_next lo dstream f pcap
     (set_cur (rd (frame OpAttachment (attach_body a2 data2 crc2) ++ rest) e sk) s) evs).
Proof. exact att_data_independent. Qed.
Print Assumptions C20_attachment_data_independent.

Theorem C20_attachment_same_allocs :
  forall lo dstream f pcap s evs body1 body2 rest e sk evs1 res1 t1 evs2 res2 t2,
  lo_cb lo <> CbFail -> att_body_ok lo body1 -> att_body_ok lo body2 ->
  lex_next lo dstream f pcap (set_cur (rd (frame OpAttachment body1 ++ rest) e sk) s) evs = Ok (evs1, res1, t1) ->
  lex_next lo dstream f pcap (set_cur (rd (frame OpAttachment body2 ++ rest) e sk) s) evs = Ok (evs2, res2, t2) ->
  res1 = res2 /\ t1 = t2 /\ lx_allocs t1 = lx_allocs t2.
Proof. exact att_next_same_allocs. Qed.
Print Assumptions C20_attachment_same_allocs.

(* ---------- 3. attachments through the writer ---------- *)
(* a WriteAttachment call that returns nil made exactly these destination writes, after the ones
   accepted before it: record head (9 bytes), header fields, every source fragment as it is, crc *)
Theorem C20_write_attachment_writes : forall o flt a src s s',
  write_attachment o flt a src s = (s', None) ->
  rev (w_out s') = rev (w_out s) ++ att_writes a src /\
  w_nw s' = (w_nw s + 3 + length (as_frags src))%nat /\
  a_size a = blen (concat (as_frags src)) /\ as_fail src = false.
Proof. exact write_attachment_writes. Qed.
Print Assumptions C20_write_attachment_writes.

Theorem C20_attachment_write_sizes : forall a src,
  map blen (att_writes a src) =
  [9; 32 + blen (a_name a) + blen (a_media a)] ++ map blen (as_frags src) ++ [4].
Proof. exact att_writes_sizes. Qed.
Print Assumptions C20_attachment_write_sizes.

Theorem C20_attachment_write_max : forall a src,
  Forall (fun p => blen p <= N.max (32 + blen (a_name a) + blen (a_media a)) (max_blen (as_frags src)))
         (att_writes a src).
Proof. exact att_writes_max. Qed.
Print Assumptions C20_attachment_write_max.

(* the same for a whole writer run W: the writes of the i-th call are r_writes[m, n) where m and n are
   the write counts reported before and after the call *)
Theorem C20_W_attachment_writes : forall o lib comp flt cs i a src n,
  let R := W o lib comp flt cs in
  let n0 := w_nw (fst (new_writer (effective_opts o) flt)) in
  nth_error cs i = Some (CAttachment a src) ->
  nth_error (r_calls R) i = Some (None, n) ->
  let m := writes_before n0 (r_calls R) i in
  n = (m + 3 + length (as_frags src))%nat /\
  firstn (n - m) (skipn m (r_writes R)) = att_writes a src /\
  a_size a = blen (concat (as_frags src)).
Proof. exact W_attachment_writes. Qed.
Print Assumptions C20_W_attachment_writes.

(* ---------- examples / non-vacuity ---------- *)
(* a file with a 1-byte and the same file with a 5000-byte attachment (same name, same media type):
   equal allocation logs, under every callback mode; the callback saw 1 / 5000 / at most 10 bytes *)
Example C20_ex_lexer_1_vs_5000 :
  ex_allocs (sq_run CbFull 1) = [20; 23; 24; 23; 130; 8] /\
  ex_allocs (sq_run CbFull 5000) = [20; 23; 24; 23; 130; 8] /\
  ex_allocs (sq_run CbNone 1) = ex_allocs (sq_run CbNone 5000) /\
  ex_allocs (sq_run (CbPartial 10) 1) = ex_allocs (sq_run (CbPartial 10) 5000) /\
  sq_att_data_lens (sq_run CbFull 1) = [1] /\ sq_att_data_lens (sq_run CbFull 5000) = [5000] /\
  sq_att_data_lens (sq_run (CbPartial 10) 5000) = [10] /\ sq_att_data_lens (sq_run CbNone 5000) = [] /\
  blen (sq_file 1) = 257 /\ blen (sq_file 5000) = 5256.
Proof. vm_compute. repeat split; reflexivity. Qed.

(* the hypotheses of C20_attachment_no_request / _same_state / _data_independent hold for these two records *)
Example C20_ex_attachment_hyps :
  rec_op (frame OpAttachment (sq_att_body 5000) ++ sq_tail) = OpAttachment /\
  lo_cb (ex_lo true (CbPartial 10) 0 0) <> CbFail /\
  att_fields_ok (sq_att 1) /\ att_fields_ok (sq_att 5000) /\
  blen (sq_att_body 1) < two63 /\ blen (sq_att_body 5000) < two63 /\
  len_ok (ex_lo true (CbPartial 10) 0 0) (blen (sq_att_body 1)) /\
  len_ok (ex_lo true (CbPartial 10) 0 0) (blen (sq_att_body 5000)).
Proof. vm_compute. repeat split; try reflexivity; discriminate. Qed.

(* one step on each record from the same state: the same next state, log untouched *)
Example C20_ex_attachment_step :
  sres_forget (lex_step (ex_lo true CbFull 0 0) id_oracle 0
                 (set_cur (rd (frame OpAttachment (sq_att_body 1) ++ sq_tail) None false) sq_state0) []) =
  sres_forget (lex_step (ex_lo true CbFull 0 0) id_oracle 0
                 (set_cur (rd (frame OpAttachment (sq_att_body 5000) ++ sq_tail) None false) sq_state0) []) /\
  lx_allocs (step_state (lex_step (ex_lo true CbFull 0 0) id_oracle 0
                 (set_cur (rd (frame OpAttachment (sq_att_body 5000) ++ sq_tail) None false) sq_state0) [])) = [7].
Proof. vm_compute. split; reflexivity. Qed.

(* rec_reqs on a chunk record with a 30-byte compression name (scratch 32 < 30 + 8), caller buffer 0:
   validating: chunk buffer 2 * 65 and scratch 38; streaming: scratch only; scratch already grown:
   nothing / chunk buffer only; chunk buffer large enough: nothing; a message record: its length,
   unless the caller's buffer is large enough *)
Example C20_ex_rec_reqs :
  rec_reqs (sq_lo_custom true) 0 32 0 false (sq_chunk_rec ++ [x01; x02]) = [130; 38] /\
  rec_reqs (sq_lo_custom false) 0 32 0 false (sq_chunk_rec ++ [x01; x02]) = [38] /\
  rec_reqs (sq_lo_custom false) 0 38 0 false sq_chunk_rec = [] /\
  rec_reqs (sq_lo_custom true) 0 38 0 false sq_chunk_rec = [130] /\
  rec_reqs (sq_lo_custom true) 0 38 130 false sq_chunk_rec = [] /\
  rec_reqs (sq_lo_custom true) 0 32 0 false (LexerFactsA.ex_msg [x64]) = [23] /\
  rec_reqs (sq_lo_custom true) 23 32 0 false (LexerFactsA.ex_msg [x64]) = [] /\
  rec_reqs (sq_lo_custom true) 0 32 0 false (frame OpAttachment (sq_att_body 5000)) = [] /\
  rec_op sq_chunk_rec = OpChunk /\ rec_len sq_chunk_rec = 135 /\
  chunk_clen (drop 9 sq_chunk_rec) = 30 /\ chunk_usize (drop 9 sq_chunk_rec) = 65.
Proof. vm_compute. repeat split; reflexivity. Qed.

(* writer: header, an attachment whose 13 data bytes come as fragments of 5, 1 and 7 bytes, close.
   The attachment call is call 1; it made the writes [3, 9) of sizes 9, 35, 5, 1, 7, 4 *)
Example C20_ex_writer_fragments :
  r_new sq_R = None /\
  nth_error sq_cs 1 = Some (CAttachment sq_watt sq_src3) /\
  nth_error (r_calls sq_R) 1 = Some (None, 9%nat) /\
  writes_before (w_nw (fst (new_writer (effective_opts ex_o) None))) (r_calls sq_R) 1 = 3%nat /\
  map blen (firstn (9 - 3) (skipn 3 (r_writes sq_R))) = [9; 35; 5; 1; 7; 4] /\
  firstn (9 - 3) (skipn 3 (r_writes sq_R)) = att_writes sq_watt sq_src3 /\
  N.max (32 + blen (a_name sq_watt) + blen (a_media sq_watt)) (max_blen (as_frags sq_src3)) = 35.
Proof. vm_compute. repeat split; reflexivity. Qed.
