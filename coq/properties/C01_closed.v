(* C01_closed - companion of C01.v: the write/read round trip of the writer and lexer models with
   the hypotheses of C01_lexer_roundtrip that speak about the OUTPUT of the writer
   (`wf_file lo ds (rev (w_trace (r_final R)))` and the universally quantified fuel bound)
   discharged from hypotheses about the INPUTS: writer options o, library id, compressor oracle
   comp, call list cs', lexer options lo, decompression oracle ds.  All proofs are in
   theories/C01Closed.v.

   Setting (as in C01.v): R = W o lib comp None (cs' ++ [CClose]), NewWriter and every call
   succeed, no CClose in cs' (C06_hyps); the header call may be anywhere.

   Hypotheses, all about inputs (or the length of the produced file):
     codec_ok lo ds o comp          the lexer's decoder undoes the writer's compressor
     lo_skip_magic lo = o_skip_magic o
     o_chunked o = true -> comp_supported lo (o_comp o) = true
                                    the lexer knows the compression name (built in, or registered
                                    as caller-supplied in lo_custom)
     lo_cb lo = CbNone \/ CbFull    attachment callback mode
     lo_validate lo = true -> mem_bytes (o_comp o) (lo_custom lo) = true ->
       forall n b, blen (comp n b) = blen b
                                    when it validates chunk CRCs the lexer model treats a
                                    caller-supplied decompressor as a pass-through reader, so a
                                    caller-supplied codec must preserve the length (C01Closed.
                                    ex_custom_not_passthrough: without this the read ends with
                                    ErrTruncated after 4 tokens)
     call_times_ok / call_att_ok    message log times and attachment log/create times are 64-bit
                                    values (the model's N is unbounded; C01Closed.
                                    ex_att_time_above_u64: 2^64+7 is read back as 7)
     lex_limits lo F Uc             F < MaxInt32, Uc < MaxInt32, MaxRecordSize = 0 or >= F and Uc,
                                    and with ValidateChunkCRCs: 2*Uc < MaxInt32 and
                                    MaxDecompressedChunkSize = 0 or >= Uc
       with F = blen (file_of R) and Uc = auto_bytes cs' (sum of 9 + encoded length of the schema,
       channel and message calls: a bound on the uncompressed bytes of the chunks; 0 for an
       unchunked writer), or Uc = F for compressors that never shrink their input (identity).

   1. writer_trace_struct   the shape of the complete trace: [IMagic]? ++ recs ++ [IMagic], every
                            item of recs described by fgood (opcodes, chunk contents = frames of
                            schema/channel/message records stored through comp, CRC fields,
                            attachment sizes, footer offsets within the file)
   2. writer_trace_wf /     wf_file from input hypotheses
      writer_trace_wf_noshrink
   3. writer_trace_fuel /   file_steps + 1 <= fuel_of (file_of R) cs' = S (|file| + auto_bytes cs'),
      writer_trace_fuel_noshrink                          resp. <= S |file|
   4. C01_closed /          the round trip with concrete fuel and no wf_file hypothesis
      C01_closed_noshrink *)
From Mcap Require ConstsTie LayoutTie. (* regenerated ties to /repo's source that this property's model relies on *)
From Coq Require Import List NArith ZArith Bool.
From Coq.Strings Require Import Byte.
From Mcap Require Import Bytes GoSem Crc32 Records RecordsFacts Writer WriterFactsA WriterFactsB
  Lexer LexSpec LexerFactsB ComposeFacts C01Closed.
Import ListNotations.
Open Scope N_scope.

Theorem writer_trace_struct : forall o lib comp cs',
  C06_hyps o lib comp cs' -> Forall call_times_ok cs' ->
  let R := W o lib comp None (cs' ++ [CClose]) in
  exists recs,
    rev (w_trace (r_final R)) = (if o_skip_magic o then [] else [IMagic]) ++ recs ++ [IMagic] /\
    Forall (fgood o comp (blen (file_of R))) recs /\
    tr_usize recs <= auto_bytes cs'.
Proof. exact C01Closed.writer_trace_struct. Qed.
Print Assumptions writer_trace_struct.

Theorem writer_trace_wf : forall o lib comp cs' lo ds,
  C06_hyps o lib comp cs' -> codec_ok lo ds o comp ->
  lo_skip_magic lo = o_skip_magic o ->
  (o_chunked o = true -> comp_supported lo (o_comp o) = true) ->
  (lo_cb lo = CbNone \/ lo_cb lo = CbFull) ->
  (lo_validate lo = true -> mem_bytes (o_comp o) (lo_custom lo) = true -> forall n b, blen (comp n b) = blen b) ->
  Forall call_times_ok cs' ->
  let R := W o lib comp None (cs' ++ [CClose]) in
  lex_limits lo (blen (file_of R)) (if o_chunked o then auto_bytes cs' else 0) ->
  wf_file lo ds (rev (w_trace (r_final R))).
Proof. exact writer_trace_wf_thm. Qed.
Print Assumptions writer_trace_wf.

Theorem writer_trace_wf_noshrink : forall o lib comp cs' lo ds,
  C06_hyps o lib comp cs' -> codec_ok lo ds o comp ->
  (forall n b, blen b <= blen (comp n b)) ->
  lo_skip_magic lo = o_skip_magic o ->
  (o_chunked o = true -> comp_supported lo (o_comp o) = true) ->
  (lo_cb lo = CbNone \/ lo_cb lo = CbFull) ->
  (lo_validate lo = true -> mem_bytes (o_comp o) (lo_custom lo) = true -> forall n b, blen (comp n b) = blen b) ->
  Forall call_times_ok cs' ->
  let R := W o lib comp None (cs' ++ [CClose]) in
  lex_limits lo (blen (file_of R)) (blen (file_of R)) ->
  wf_file lo ds (rev (w_trace (r_final R))).
Proof. exact writer_trace_wf_noshrink_thm. Qed.
Print Assumptions writer_trace_wf_noshrink.

Theorem writer_trace_fuel : forall o lib comp cs' lo ds,
  C06_hyps o lib comp cs' -> codec_ok lo ds o comp ->
  lo_skip_magic lo = o_skip_magic o ->
  (o_chunked o = true -> comp_supported lo (o_comp o) = true) ->
  (lo_cb lo = CbNone \/ lo_cb lo = CbFull) ->
  (lo_validate lo = true -> mem_bytes (o_comp o) (lo_custom lo) = true -> forall n b, blen (comp n b) = blen b) ->
  Forall call_times_ok cs' ->
  let R := W o lib comp None (cs' ++ [CClose]) in
  lex_limits lo (blen (file_of R)) (if o_chunked o then auto_bytes cs' else 0) ->
  (file_steps lo ds (rev (w_trace (r_final R))) + 1 <= fuel_of (file_of R) cs')%nat.
Proof. exact writer_trace_fuel_thm. Qed.
Print Assumptions writer_trace_fuel.

Theorem writer_trace_fuel_noshrink : forall o lib comp cs' lo ds,
  C06_hyps o lib comp cs' -> codec_ok lo ds o comp ->
  (forall n b, blen b <= blen (comp n b)) ->
  lo_skip_magic lo = o_skip_magic o ->
  (o_chunked o = true -> comp_supported lo (o_comp o) = true) ->
  (lo_cb lo = CbNone \/ lo_cb lo = CbFull) ->
  (lo_validate lo = true -> mem_bytes (o_comp o) (lo_custom lo) = true -> forall n b, blen (comp n b) = blen b) ->
  Forall call_times_ok cs' ->
  let R := W o lib comp None (cs' ++ [CClose]) in
  lex_limits lo (blen (file_of R)) (blen (file_of R)) ->
  (file_steps lo ds (rev (w_trace (r_final R))) + 1 <= S (length (file_of R)))%nat.
Proof. exact writer_trace_fuel_noshrink_thm. Qed.
Print Assumptions writer_trace_fuel_noshrink.

(* the lexer half of C01 with input-only hypotheses *)
Definition C01_closed_statement : Prop :=
  forall o lib comp lo ds cs' sk,
  C06_hyps o lib comp cs' -> codec_ok lo ds o comp ->
  Forall call_small cs' -> Forall (call_wf o lib) cs' -> Forall call_att_ok cs' ->
  lo_emit_chunks lo = false ->
  lo_skip_magic lo = o_skip_magic o ->
  (o_chunked o = true -> comp_supported lo (o_comp o) = true) ->
  (lo_cb lo = CbNone \/ lo_cb lo = CbFull) ->
  (lo_validate lo = true -> mem_bytes (o_comp o) (lo_custom lo) = true -> forall n b, blen (comp n b) = blen b) ->
  let R := W o lib comp None (cs' ++ [CClose]) in
  lex_limits lo (blen (file_of R)) (if o_chunked o then auto_bytes cs' else 0) ->
  exists evs st,
    lex_all lo ds (fuel_of (file_of R) cs') (src_of (file_of R) sk) = Ok (evs, EEOF, st) /\
    map decode_event (filter ev_direct (data_events evs))
      = map Ok (flat_map (call_contents lo o lib) (filter call_direct cs')) /\
    map decode_event (filter ev_auto (data_events evs))
      = map Ok (flat_map (call_contents lo o lib) (filter call_auto cs')).

Theorem C01_closed : C01_closed_statement.
Proof. exact C01_closed_thm. Qed.
Print Assumptions C01_closed.

(* compressors that never shrink their input (the identity of an uncompressed writer): bounds on
   the file length alone, fuel = file length + 1 *)
Theorem C01_closed_noshrink : forall o lib comp lo ds cs' sk,
  C06_hyps o lib comp cs' -> codec_ok lo ds o comp ->
  (forall n b, blen b <= blen (comp n b)) ->
  Forall call_small cs' -> Forall (call_wf o lib) cs' -> Forall call_att_ok cs' ->
  lo_emit_chunks lo = false ->
  lo_skip_magic lo = o_skip_magic o ->
  (o_chunked o = true -> comp_supported lo (o_comp o) = true) ->
  (lo_cb lo = CbNone \/ lo_cb lo = CbFull) ->
  (lo_validate lo = true -> mem_bytes (o_comp o) (lo_custom lo) = true -> forall n b, blen (comp n b) = blen b) ->
  let R := W o lib comp None (cs' ++ [CClose]) in
  lex_limits lo (blen (file_of R)) (blen (file_of R)) ->
  exists evs st,
    lex_all lo ds (S (length (file_of R))) (src_of (file_of R) sk) = Ok (evs, EEOF, st) /\
    map decode_event (filter ev_direct (data_events evs))
      = map Ok (flat_map (call_contents lo o lib) (filter call_direct cs')) /\
    map decode_event (filter ev_auto (data_events evs))
      = map Ok (flat_map (call_contents lo o lib) (filter call_auto cs')).
Proof. exact C01_closed_noshrink_thm. Qed.
Print Assumptions C01_closed_noshrink.

(* ----- non-vacuity: the four workloads of C01.v (two uncompressed chunks; a toy compressing
   codec; unchunked with Skip* flags; one big chunk written at Close) satisfy every hypothesis of
   C01_closed, by computation.  C01_closed_hyps is the conjunction of the hypotheses. ----- *)
Example C01_closed_ex_hyps :
  C01_closed_hyps ex_o ex_lib ex_comp ex_lo ds_id ex_cs_pre /\
  C01_closed_hyps ex_o_z ex_lib comp_z ex_lo ds_z ex_cs_pre /\
  C01_closed_hyps ex_o_u ex_lib ex_comp ex_lo ds_z ex_cs_pre /\
  C01_closed_hyps ex_o_big ex_lib ex_comp ex_lo ds_z ex_cs_pre.
Proof.
  split; [exact ex_closed_hyps|]. split; [exact ex_closed_hyps_z|].
  split; [exact ex_closed_hyps_u|exact ex_closed_hyps_big].
Qed.

Example C01_closed_ex_times : Forall call_times_ok ex_cs_pre.
Proof. exact ex_call_times_ok. Qed.

(* the hypotheses of the *_noshrink variants that differ *)
Example C01_closed_ex_noshrink_hyps :
  (forall n b, blen b <= blen (ex_comp n b)) /\ (forall n b, blen b <= blen (comp_z n b)) /\
  lex_limits ex_lo (blen (file_of (W ex_o ex_lib ex_comp None (ex_cs_pre ++ [CClose]))))
                   (blen (file_of (W ex_o ex_lib ex_comp None (ex_cs_pre ++ [CClose])))) /\
  lex_limits ex_lo (blen (file_of (W ex_o_z ex_lib comp_z None (ex_cs_pre ++ [CClose]))))
                   (blen (file_of (W ex_o_z ex_lib comp_z None (ex_cs_pre ++ [CClose])))) /\
  lex_limits ex_lo (blen (file_of (W ex_o_u ex_lib ex_comp None (ex_cs_pre ++ [CClose]))))
                   (blen (file_of (W ex_o_u ex_lib ex_comp None (ex_cs_pre ++ [CClose])))) /\
  lex_limits ex_lo (blen (file_of (W ex_o_big ex_lib ex_comp None (ex_cs_pre ++ [CClose]))))
                   (blen (file_of (W ex_o_big ex_lib ex_comp None (ex_cs_pre ++ [CClose])))).
Proof. exact ex_noshrink_hyps. Qed.

Example C01_closed_ex_sizes :
  blen (file_of (W ex_o ex_lib ex_comp None (ex_cs_pre ++ [CClose]))) = 1015 /\
  blen (file_of (W ex_o_z ex_lib comp_z None (ex_cs_pre ++ [CClose]))) = 1033 /\
  blen (file_of (W ex_o_u ex_lib ex_comp None (ex_cs_pre ++ [CClose]))) = 395 /\
  blen (file_of (W ex_o_big ex_lib ex_comp None (ex_cs_pre ++ [CClose]))) = 559 /\
  auto_bytes ex_cs_pre = 155 /\
  fuel_of (file_of (W ex_o ex_lib ex_comp None (ex_cs_pre ++ [CClose]))) ex_cs_pre = 1171%nat.
Proof. exact ex_closed_sizes. Qed.

(* the theorem applied to the first workload *)
Example C01_closed_ex_applies : forall sk,
  let R := W ex_o ex_lib ex_comp None (ex_cs_pre ++ [CClose]) in
  exists evs st,
    lex_all ex_lo ds_id (fuel_of (file_of R) ex_cs_pre) (src_of (file_of R) sk) = Ok (evs, EEOF, st) /\
    map decode_event (filter ev_direct (data_events evs))
      = map Ok (flat_map (call_contents ex_lo ex_o ex_lib) (filter call_direct ex_cs_pre)) /\
    map decode_event (filter ev_auto (data_events evs))
      = map Ok (flat_map (call_contents ex_lo ex_o ex_lib) (filter call_auto ex_cs_pre)).
Proof. exact ex_closed_applies. Qed.

(* ----- the extra hypotheses cannot be dropped (computed on the two models) ----- *)
(* a length-changing caller-supplied codec, registered with the lexer, ValidateChunkCRCs on:
   everything else holds, the read ends with ErrTruncated after 4 tokens; without validation the
   same file is read to the end *)
Example C01_closed_ex_custom_not_passthrough :
  let R := W ex_o_cz ex_lib comp_z None (ex_cs_pre ++ [CClose]) in
  C06_hyps ex_o_cz ex_lib comp_z ex_cs_pre /\
  (forall v, codec_ok (ex_lo_cz v) ds_z ex_o_cz comp_z) /\
  (forall v, comp_supported (ex_lo_cz v) (o_comp ex_o_cz) = true) /\
  (forall v, lex_limits (ex_lo_cz v) (blen (file_of R)) (auto_bytes ex_cs_pre)) /\
  mem_bytes (o_comp ex_o_cz) (lo_custom (ex_lo_cz true)) = true /\
  blen (comp_z 0 []) <> blen [] /\
  lex_summary (lex_all (ex_lo_cz true) ds_z (fuel_of (file_of R) ex_cs_pre) (src_of (file_of R) false))
    = Some (4%nat, ETruncated) /\
  lex_summary (lex_all (ex_lo_cz false) ds_z (fuel_of (file_of R) ex_cs_pre) (src_of (file_of R) false))
    = Some (25%nat, EEOF).
Proof. exact ex_custom_not_passthrough. Qed.

(* a compression name the lexer does not know *)
Example C01_closed_ex_custom_not_registered :
  let R := W ex_o_cz ex_lib comp_z None (ex_cs_pre ++ [CClose]) in
  comp_supported ex_lo (o_comp ex_o_cz) = false /\
  lex_summary (lex_all ex_lo ds_z (fuel_of (file_of R) ex_cs_pre) (src_of (file_of R) false)) = Some (1%nat, EOther).
Proof. exact ex_custom_not_registered. Qed.

(* an attachment log time above 2^64 - 1 *)
Example C01_closed_ex_att_time_above_u64 :
  let cs' := [CHeader {| h_profile := []; h_library := [] |}; CAttachment ex_att_big ex_src] in
  let R := W ex_o ex_lib ex_comp None (cs' ++ [CClose]) in
  C06_hyps ex_o ex_lib ex_comp cs' /\ Forall (call_wf ex_o ex_lib) cs' /\ ~ Forall call_att_ok cs' /\
  match lex_all ex_lo ds_id (fuel_of (file_of R) cs') (src_of (file_of R) false) with
  | Ok (evs, EEOF, _) =>
    match filter ev_att evs with
    | [EvAttachment obs] => ao_log obs = 7 /\ ao_log obs <> a_log ex_att_big
    | _ => False
    end
  | _ => False
  end.
Proof. exact ex_att_time_above_u64. Qed.
