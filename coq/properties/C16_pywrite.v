(* C16_pywrite - what the model of the Python writer (theories/Py.v, section "writer.py": pwopts, pcall,
   pw_step, pw_finish, pw_run, py_write; tied to python/mcap/mcap/writer.py + _chunk_builder.py byte for
   byte by differential testing) writes, and how the Go lexer model reads it.  Proofs: theories/PyWriteFacts.v.

   Vocabulary (all defined in Mcap.PyWriteFacts):
     py_trace o calls          ghost trace: the list of Writer.item the calls make the writer emit
                               (pt_step o w c = items of one call from state w; chunks are
                               IChunk (chunk_of o cb): k_comp = [], k_usize = blen (k_records k),
                               k_crc = crc32 (k_records k) or 0 by po_crcs; message indexes are
                               mi_items o cb = IRec OpMessageIndex ..; attachments are
                               IAttach a data (crc32 (enc_attachment_fields a ++ data)))
     data_calls cs / no_start cs   no PcStart (and no PcFinish) among cs
     started, final_state, closed_state   the writer state after start(), when finish() is called,
                               after finish() has closed the last chunk
     data_items / tail_items   header + what the data calls wrote + last chunk / DataEnd, summary, footer
     before_dataend            [IMagic] ++ data_items
     item_size_ok lo it        the size side conditions of LexSpec.wf_item (len_ok, max_int32, two63)
     chunk_small it            chunk payloads shorter than 2^64 (implied by item_size_ok)
     msgs_of / atts_of / mds_of cs, reg_schemas 0 cs / reg_channels 0 cs
                               what the calls ask for; schemas and channels numbered 1, 2, 3, ...
     dropped o p l cs          the schema / channel records still in the chunk builder at finish() when it
                               holds no message: these are NOT written to the data section
     chunk_located / md_located / chunk_offsets / md_offsets / att_entries   index entry <-> position
     log_min / log_max / chan_count    least / greatest log time, messages per channel
   ComposeFacts: all_records unz items (logical records, chunks replaced by their content), crec (CR / CA),
     is_op, is_att, ev_op, ev_att, decode_event.

   Findings stated below rather than hidden:
     - py_dataend_crc_refuted: without chunking and with enable_data_crcs, schema / channel records
       registered after the last flush are written together with the DataEnd record but are not covered
       by its data_section_crc (the real package gives the same two numbers);
     - pyex_dropped / pyex_late_schema_written: with chunking, schema / channel records registered after
       the last chunk was closed and followed by no message are dropped from the data section (they still
       appear in the summary section and are counted by the statistics record); "exactly those registered
       before the last message are written" is false in the other direction (pyex_late_schema_written). *)
From Mcap Require ConstsTie LayoutTie PyDecisionTie. (* regenerated ties to /repo's source that this property's model relies on *)
From Coq Require Import List NArith ZArith Bool.
From Coq.Strings Require Import Byte.
From Mcap Require Import Bytes GoSem Crc32 Records RecordsFacts Writer Lexer LexSpec LexerFactsB ComposeFacts Py
  PyWriteFacts.
Import ListNotations.
Open Scope N_scope.

(* ---------- 1. the bytes written are the rendering of the trace ---------- *)
Theorem C16_pywrite_bytes_are_trace : forall (o : pwopts) (p l : bytes) (cs : list pcall) (b : bytes),
  py_write o (PcStart p l :: cs ++ [PcFinish]) = POk b -> no_start cs = true ->
  b = render (py_trace o (PcStart p l :: cs ++ [PcFinish])).
Proof. exact py_write_is_trace. Qed.
Print Assumptions C16_pywrite_bytes_are_trace.

(* at any point after start(): stream ++ record builder *)
Theorem C16_pywrite_run_is_trace : forall (o : pwopts) (p l : bytes) (cs : list pcall) (w : pw),
  pw_run o (pw_init o) (PcStart p l :: cs) = POk w -> no_start cs = true ->
  pw_out w ++ pw_rb w = render (py_trace o (PcStart p l :: cs)).
Proof. exact py_run_is_trace. Qed.
Print Assumptions C16_pywrite_run_is_trace.

(* shape: magic, header, data items, last chunk, DataEnd, summary, summary offsets, footer, magic *)
Theorem C16_pywrite_trace_sections : forall (o : pwopts) (p l : bytes) (cs : list pcall),
  py_trace o (PcStart p l :: cs ++ [PcFinish])
  = [IMagic] ++ data_items o p l cs ++ tail_items o p l cs ++ [IMagic]
  /\ data_items o p l cs
     = header_item p l :: trace_from o (started o p l) cs ++ fin_items o (pw_cb (final_state o p l cs))
  /\ tail_items o p l cs
     = (let w1 := closed_state o p l cs in
        [dataend_item w1] ++ (sum_items o w1 ++ so_items o (grp_offs (summary_start_of w1) (sum_groups o w1)))
        ++ [IFooter (footer_ss o w1) (footer_sos o w1) (footer_crc o w1)]).
Proof. exact C16_pywrite_trace_sections_thm. Qed.
Print Assumptions C16_pywrite_trace_sections.

(* ---------- 2. the trace is a well-formed file; the Go lexer reads it ---------- *)
Theorem C16_pywrite_wf : forall (o : pwopts) (lo : lopts) (ds : doracle) (p l : bytes) (cs : list pcall) (b : bytes),
  lo_skip_magic lo = false -> lo_emit_chunks lo = false -> mem_bytes [] (lo_custom lo) = false ->
  lo_cb lo = CbNone \/ lo_cb lo = CbFull ->
  py_write o (PcStart p l :: cs ++ [PcFinish]) = POk b -> data_calls cs = true ->
  Forall (item_size_ok lo) (py_trace o (PcStart p l :: cs ++ [PcFinish])) ->
  wf_file lo ds (py_trace o (PcStart p l :: cs ++ [PcFinish])).
Proof. exact py_trace_wf. Qed.
Print Assumptions C16_pywrite_wf.

Theorem C16_pywrite_lex : forall (o : pwopts) (lo : lopts) (ds : doracle) (p l : bytes) (cs : list pcall) (b : bytes) (sk : bool),
  lo_skip_magic lo = false -> lo_emit_chunks lo = false -> mem_bytes [] (lo_custom lo) = false ->
  lo_cb lo = CbNone \/ lo_cb lo = CbFull ->
  py_write o (PcStart p l :: cs ++ [PcFinish]) = POk b -> data_calls cs = true ->
  Forall (item_size_ok lo) (py_trace o (PcStart p l :: cs ++ [PcFinish])) ->
  forall fuel, (file_steps lo ds (py_trace o (PcStart p l :: cs ++ [PcFinish])) + 1 <= fuel)%nat ->
  exists st, lex_all lo ds fuel (src_of b sk)
             = Ok (file_events lo ds (py_trace o (PcStart p l :: cs ++ [PcFinish])), EEOF, st).
Proof. exact py_write_lex. Qed.
Print Assumptions C16_pywrite_lex.

(* the size conditions hold for every file below 1 GiB that does not exceed the lexer's limits *)
Theorem C16_pywrite_sizes_from_total : forall (o : pwopts) (lo : lopts) (p l : bytes) (cs : list pcall) (b : bytes),
  py_write o (PcStart p l :: cs ++ [PcFinish]) = POk b -> data_calls cs = true ->
  blen b < 1073741824 ->
  lo_max_record lo = 0 \/ blen b <= lo_max_record lo ->
  lo_max_chunk lo = 0 \/ blen b <= lo_max_chunk lo ->
  Forall (item_size_ok lo) (py_trace o (PcStart p l :: cs ++ [PcFinish])).
Proof. exact py_sizes_from_total. Qed.
Print Assumptions C16_pywrite_sizes_from_total.

(* ---------- 3. content ---------- *)
(* (c) messages, (a) attachments, (b) metadata: the records of the data section are the calls, in order *)
Theorem C16_pywrite_data_content : forall (o : pwopts) (p l : bytes) (cs : list pcall) (unz : bytes -> bytes -> bytes),
  (forall stored, unz [] stored = stored) ->
  forall b, py_write o (PcStart p l :: cs ++ [PcFinish]) = POk b -> data_calls cs = true ->
  Forall chunk_small (py_trace o (PcStart p l :: cs ++ [PcFinish])) ->
  let recs := all_records unz (data_items o p l cs) in
  filter (is_op OpMessage) recs = map (fun m => CR OpMessage (enc_message m)) (msgs_of cs)
  /\ filter ComposeFacts.is_att recs
     = map (fun x => CA (fst x) (snd x) (crc32 (enc_attachment_fields (fst x) ++ snd x))) (atts_of cs)
  /\ filter (is_op OpMetadata) recs = map (fun m => CR OpMetadata (py_enc_metadata m)) (mds_of cs)
  (* (d) schemas / channels: all registered ones except the dropped *)
  /\ filter (is_op OpSchema) recs ++ filter (is_op OpSchema) (map cr_of (dropped o p l cs))
     = map (fun s => CR OpSchema (enc_schema s)) (reg_schemas 0 cs)
  /\ filter (is_op OpChannel) recs ++ filter (is_op OpChannel) (map cr_of (dropped o p l cs))
     = map (fun c => CR OpChannel (py_enc_channel c)) (reg_channels 0 cs).
Proof. exact C16_pywrite_data_content_thm. Qed.
Print Assumptions C16_pywrite_data_content.

(* which records are dropped: none of those registered before a message; none at all without chunking *)
Theorem C16_pywrite_registered_before_message : forall (o : pwopts) (p l : bytes) (unz : bytes -> bytes -> bytes),
  (forall stored, unz [] stored = stored) ->
  forall cs1 ch lg d pb sq cs2 b,
  let cs := cs1 ++ PcMessage ch lg d pb sq :: cs2 in
  py_write o (PcStart p l :: cs ++ [PcFinish]) = POk b -> data_calls cs = true ->
  Forall chunk_small (py_trace o (PcStart p l :: cs ++ [PcFinish])) ->
  (exists rest, filter (is_op OpSchema) (all_records unz (data_items o p l cs))
                = map (fun s => CR OpSchema (enc_schema s)) (reg_schemas 0 cs1) ++ rest)
  /\ (exists rest, filter (is_op OpChannel) (all_records unz (data_items o p l cs))
                   = map (fun c => CR OpChannel (py_enc_channel c)) (reg_channels 0 cs1) ++ rest).
Proof. exact py_registered_before_message_written. Qed.
Print Assumptions C16_pywrite_registered_before_message.

Theorem C16_pywrite_nochunk_all_written : forall (o : pwopts) (p l : bytes) (unz : bytes -> bytes -> bytes),
  (forall stored, unz [] stored = stored) ->
  forall cs b, po_chunking o = false ->
  py_write o (PcStart p l :: cs ++ [PcFinish]) = POk b -> data_calls cs = true ->
  Forall chunk_small (py_trace o (PcStart p l :: cs ++ [PcFinish])) ->
  filter (is_op OpSchema) (all_records unz (data_items o p l cs)) = map (fun s => CR OpSchema (enc_schema s)) (reg_schemas 0 cs)
  /\ filter (is_op OpChannel) (all_records unz (data_items o p l cs))
     = map (fun c => CR OpChannel (py_enc_channel c)) (reg_channels 0 cs).
Proof. exact py_nochunk_all_written. Qed.
Print Assumptions C16_pywrite_nochunk_all_written.

(* the same at the level of what the Go lexer reports (file_events = what lex_all returns, C16_pywrite_lex) *)
Theorem C16_pywrite_lex_content : forall (o : pwopts) (p l : bytes) (cs : list pcall) (lo : lopts) (ds : doracle),
  lo_emit_chunks lo = false -> mem_bytes [] (lo_custom lo) = false ->
  forall b, py_write o (PcStart p l :: cs ++ [PcFinish]) = POk b -> data_calls cs = true ->
  Forall chunk_small (py_trace o (PcStart p l :: cs ++ [PcFinish])) ->
  let evs := file_events lo ds (py_trace o (PcStart p l :: cs ++ [PcFinish])) in
  filter (ev_op OpMessage) evs = map (fun m => EvToken OpMessage (enc_message m)) (msgs_of cs)
  /\ map decode_event (filter (ev_op OpMessage) evs) = map (fun m => Ok (KMessage m)) (msgs_of cs)
  /\ filter (ev_op OpMetadata) evs = map (fun m => EvToken OpMetadata (py_enc_metadata m)) (mds_of cs)
  /\ (Forall (fun m => blen (py_enc_metadata m) < two32) (mds_of cs) ->
      map decode_event (filter (ev_op OpMetadata) evs)
      = map (fun m => Ok (KMetadata {| md_name := md_name m; md_meta := kv_build (md_meta m) |})) (mds_of cs))
  /\ (lo_cb lo = CbFull ->
      filter ev_att evs
      = map (fun x => EvAttachment (attach_obs lo (fst x) (snd x) (crc32 (enc_attachment_fields (fst x) ++ snd x))))
            (atts_of cs)).
Proof. exact C16_pywrite_lex_content_thm. Qed.
Print Assumptions C16_pywrite_lex_content.

(* (b) Go's ParseMetadata on a metadata record written by Python (map in dict order, not sorted) *)
Theorem C16_pywrite_parse_metadata : forall m : metadata,
  blen (md_name m) < two32 -> Forall wf_kv (md_meta m) -> blen (py_enc_metadata m) < two32 ->
  parse_metadata (py_enc_metadata m) = Ok {| md_name := md_name m; md_meta := kv_build (md_meta m) |}.
Proof. exact parse_py_metadata. Qed.
Print Assumptions C16_pywrite_parse_metadata.

Theorem C16_pywrite_parse_metadata_distinct : forall m : metadata,
  blen (md_name m) < two32 -> wf_kvs (md_meta m) -> blen (py_enc_metadata m) < two32 ->
  parse_metadata (py_enc_metadata m) = Ok {| md_name := md_name m; md_meta := kv_sort (rev (md_meta m)) |}.
Proof. exact parse_py_metadata_distinct. Qed.
Print Assumptions C16_pywrite_parse_metadata_distinct.

(* (d) ids 1, 2, 3, ... in registration order; (e) the statistics record (pw_stats of closed_state is what
   sum_items encodes) *)
Theorem C16_pywrite_registered : forall (o : pwopts) (p l : bytes) (cs : list pcall),
  pw_schemas (closed_state o p l cs) = reg_schemas 0 cs /\ pw_channels (closed_state o p l cs) = reg_channels 0 cs.
Proof. exact py_registered. Qed.
Print Assumptions C16_pywrite_registered.

Theorem C16_pywrite_statistics : forall (o : pwopts) (p l : bytes) (cs : list pcall),
  no_start cs = true ->
  let w1 := closed_state o p l cs in
  let st := pw_stats w1 in
  let ms := msgs_of cs in
  st_messages st = N.of_nat (length ms)
  /\ st_schemas st = N.of_nat (length (pw_schemas w1)) /\ st_channels st = N.of_nat (length (pw_channels w1))
  /\ st_attachments st = N.of_nat (length (atts_of cs)) /\ st_metadata st = N.of_nat (length (mds_of cs))
  /\ st_chunks st = N.of_nat (length (pw_chunks w1))
  /\ st_start st = log_min ms /\ st_end st = log_max ms
  /\ forall ch, pn_get ch (st_counts st) = if chan_count ch ms =? 0 then None else Some (chan_count ch ms).
Proof. exact py_statistics. Qed.
Print Assumptions C16_pywrite_statistics.

Theorem C16_pywrite_log_min_max : forall ms : list message,
  (ms <> [] -> In (log_min ms) (map m_log ms) /\ Forall (fun m => log_min ms <= m_log m) ms)
  /\ Forall (fun m => m_log m <= log_max ms) ms /\ (ms <> [] -> In (log_max ms) (map m_log ms))
  /\ log_min [] = 0 /\ log_max [] = 0.
Proof. exact C16_pywrite_log_min_max_thm. Qed.
Print Assumptions C16_pywrite_log_min_max.

(* (f) index entries designate the rendering position of the items they describe *)
Theorem C16_pywrite_index_positions : forall (o : pwopts) (p l : bytes) (cs : list pcall),
  no_start cs = true ->
  let w1 := closed_state o p l cs in
  let its := before_dataend o p l cs in
  pw_out w1 ++ pw_rb w1 = render its
  /\ Forall (fun ci => exists pre cb post,
               its = pre ++ IChunk (chunk_of o cb) :: mi_items o cb ++ post
               /\ ci = ci_of o (blen (render pre)) cb) (pw_chunks w1)
  /\ map ci_offset (pw_chunks w1) = chunk_offsets 0 its
  /\ pw_atts w1 = (if po_idx_att o then att_entries 0 its else [])
  /\ Forall (fun mx => exists pre m post,
               its = pre ++ IRec OpMetadata (py_enc_metadata m) :: post
               /\ mx = {| mx_offset := blen (render pre);
                          mx_length := blen (render_item (IRec OpMetadata (py_enc_metadata m)));
                          mx_name := md_name m |}) (pw_mds w1)
  /\ map mx_offset (pw_mds w1) = (if po_idx_md o then md_offsets 0 its else []).
Proof. exact py_index_positions. Qed.
Print Assumptions C16_pywrite_index_positions.

(* the fields of ci_of: offset, length, times, sizes, and the message index offsets *)
Theorem C16_pywrite_chunk_index_fields : forall (o : pwopts) (off : N) (cb : pcb),
  let ci := ci_of o off cb in
  let k := chunk_of o cb in
  ci_offset ci = off /\ ci_length ci = blen (render_item (IChunk k))
  /\ ci_start ci = k_start k /\ ci_end ci = k_end k /\ ci_comp ci = k_comp k
  /\ ci_csize ci = blen (k_records k) /\ ci_usize ci = k_usize k
  /\ ci_milength ci = blen (render (mi_items o cb))
  /\ (forall ch pos, pn_get ch (ci_mioffsets ci) = Some pos ->
        po_idx_msg o = true /\
        exists l1 es l2, cb_indices cb = l1 ++ (ch, es) :: l2
          /\ pos = off + blen (render_item (IChunk k)) + blen (render (map mi_item l1))
          /\ ~ In ch (map fst l2))
  /\ (po_idx_msg o = true -> forall ch, In ch (map fst (cb_indices cb)) -> exists pos, pn_get ch (ci_mioffsets ci) = Some pos).
Proof. exact C16_pywrite_chunk_index_fields_thm. Qed.
Print Assumptions C16_pywrite_chunk_index_fields.

(* the chunk records of the data section: uncompressed, sizes and crc as chunk_of says; content = schema /
   channel / message records; start / end time = least / greatest log time of the chunk's messages *)
Theorem C16_pywrite_chunks : forall (o : pwopts) (p l : bytes) (cs : list pcall) (b : bytes),
  py_write o (PcStart p l :: cs ++ [PcFinish]) = POk b -> data_calls cs = true ->
  Forall (fun it => match it with
                    | IChunk k =>
                      (exists cb, k = {| k_start := cb_start cb; k_end := cb_end cb; k_usize := blen (cb_buf cb);
                                         k_crc := if po_crcs o then crc32 (cb_buf cb) else 0; k_comp := [];
                                         k_records := cb_buf cb |})
                      /\ exists inner ms, k_records k = frames inner /\ Forall auto_rec inner
                                          /\ filter is_msg_rec inner = map (fun m => (OpMessage, enc_message m)) ms
                                          /\ ms <> [] /\ k_start k = log_min ms /\ k_end k = log_max ms
                    | _ => True
                    end) (data_items o p l cs).
Proof. exact C16_pywrite_chunks_thm. Qed.
Print Assumptions C16_pywrite_chunks.

Theorem C16_pywrite_footer_fields : forall (o : pwopts) (p l : bytes) (cs : list pcall),
  no_start cs = true ->
  let w1 := closed_state o p l cs in
  let pre := before_dataend o p l cs ++ [dataend_item w1] in
  footer_ss o w1 = (if blen (render (summary_of o w1)) =? 0 then 0 else blen (render pre))
  /\ footer_sos o w1 = (if po_summary_offsets o then blen (render (pre ++ sum_items o w1)) else 0)
  /\ footer_crc o w1 = (if po_crcs o
                         then crc32 (render (summary_of o w1)
                                     ++ firstn 25 (render_item (IFooter (footer_ss o w1) (footer_sos o w1) (footer_crc o w1))))
                         else 0).
Proof. exact py_footer_fields. Qed.
Print Assumptions C16_pywrite_footer_fields.

(* ---------- the DataEnd crc ---------- *)
Theorem C16_pywrite_dataend_crc : forall (o : pwopts) (p l : bytes) (cs : list pcall),
  data_calls cs = true ->
  (* the value written *)
  dataend_item (closed_state o p l cs) = IRec OpDataEnd (enc_dataend {| de_crc := pw_crc (closed_state o p l cs) |})
  /\ (po_data_crcs o = false -> pw_crc (closed_state o p l cs) = 0)
  /\ (po_data_crcs o = true ->
      render (before_dataend o p l cs) = pw_out (closed_state o p l cs) ++ pw_rb (closed_state o p l cs)
      /\ pw_crc (closed_state o p l cs) = crc32 (pw_out (closed_state o p l cs)))
  (* correct with chunking, or when the last data call is not a registration *)
  /\ (po_data_crcs o = true -> po_chunking o = true \/ ends_with_reg cs = false ->
      pw_crc (closed_state o p l cs) = crc32 (render (before_dataend o p l cs))).
Proof. exact C16_pywrite_dataend_crc_thm. Qed.
Print Assumptions C16_pywrite_dataend_crc.

(* false in general: a call list where de_crc <> crc32 of the bytes before the DataEnd record *)
Theorem C16_pywrite_dataend_crc_refuted :
  (exists b, py_write pyex_nochunk_o (PcStart [] [] :: pyex_quirk_cs ++ [PcFinish]) = POk b)
  /\ data_calls pyex_quirk_cs = true /\ po_data_crcs pyex_nochunk_o = true
  /\ In (IRec OpDataEnd (enc_dataend {| de_crc := 3959079795 |}))
        (py_trace pyex_nochunk_o (PcStart [] [] :: pyex_quirk_cs ++ [PcFinish]))
  /\ pw_crc (closed_state pyex_nochunk_o [] [] pyex_quirk_cs) = 3959079795
  /\ crc32 (render (before_dataend pyex_nochunk_o [] [] pyex_quirk_cs)) = 2949608179
  /\ ends_with_reg pyex_quirk_cs = true.
Proof. exact py_dataend_crc_refuted. Qed.
Print Assumptions C16_pywrite_dataend_crc_refuted.

(* ---------- 4. a concrete session: all hypotheses hold by computation ---------- *)
(* 3 schemas, 2 channels with metadata maps, 5 messages over 2 chunks (chunk size 100), an attachment, a
   metadata record *)
Example C16_pywrite_example_written :
  py_write pyex_o pyex_calls = POk pyex_bytes /\ blen pyex_bytes = 1371
  /\ data_calls pyex_cs = true /\ no_start pyex_cs = true.
Proof. exact pyex_written. Qed.

Example C16_pywrite_example_is_trace : pyex_bytes = render (py_trace pyex_o pyex_calls).
Proof. exact pyex_is_trace. Qed.

Example C16_pywrite_example_kinds :
  map item_kind (py_trace pyex_o pyex_calls)
  = [0; 1; 6; 7; 9; 12; 6; 7; 7; 15; 3; 3; 3; 4; 4; 11; 8; 8; 10; 13; 14; 14; 14; 14; 14; 14; 2; 0].
Proof. exact pyex_trace_kinds. Qed.

Example C16_pywrite_example_hyps : forall validate cb,
  cb = CbNone \/ cb = CbFull ->
  let lo := pyex_lo validate cb in
  lo_skip_magic lo = false /\ lo_emit_chunks lo = false /\ mem_bytes [] (lo_custom lo) = false
  /\ (lo_cb lo = CbNone \/ lo_cb lo = CbFull)
  /\ Forall (item_size_ok lo) (py_trace pyex_o pyex_calls)
  /\ Forall chunk_small (py_trace pyex_o pyex_calls)
  /\ wf_file lo ds_id (py_trace pyex_o pyex_calls)
  /\ (file_steps lo ds_id (py_trace pyex_o pyex_calls) + 1 <= 40)%nat.
Proof. exact C16_pywrite_example_hyps_thm. Qed.

(* the Go lexer model on the Python-written bytes, by computation *)
Example C16_pywrite_example_lexed :
  exists evs st,
    lex_all (pyex_lo true CbFull) ds_id 40 (src_of pyex_bytes false) = Ok (evs, EEOF, st)
    /\ length evs = 33%nat
    /\ filter (ev_op OpMessage) evs = map (fun m => EvToken OpMessage (enc_message m)) (msgs_of pyex_cs)
    /\ map decode_event (filter (ev_op OpMessage) evs) = map (fun m => Ok (KMessage m)) (msgs_of pyex_cs)
    /\ msgs_of pyex_cs = [msg_of 1 10 [x01; x02; x03; x04; x05; x06; x07; x08] 11 0; msg_of 2 12 [x09] 13 1;
                          msg_of 1 14 [x0a; x0b] 15 2; msg_of 2 9 [x0c] 16 3; msg_of 1 20 [] 21 4].
Proof. exact pyex_lex_computed. Qed.

Example C16_pywrite_example_dropped :
  dropped pyex_o pyex_p pyex_l pyex_cs = [(OpSchema, enc_schema {| s_id := 3; s_name := [x73; x33]; s_encoding := [x65]; s_data := [] |})]
  /\ reg_schemas 0 pyex_cs
     = [ {| s_id := 1; s_name := [x73; x31]; s_encoding := [x65]; s_data := [x01; x02; x03] |};
         {| s_id := 2; s_name := [x73; x32]; s_encoding := [x65]; s_data := [] |};
         {| s_id := 3; s_name := [x73; x33]; s_encoding := [x65]; s_data := [] |} ]
  /\ filter (is_op OpSchema) (all_records (fun _ s => s) (data_items pyex_o pyex_p pyex_l pyex_cs))
     = map (fun s => CR OpSchema (enc_schema s)) (firstn 2 (reg_schemas 0 pyex_cs))
  /\ pw_schemas (closed_state pyex_o pyex_p pyex_l pyex_cs) = reg_schemas 0 pyex_cs.
Proof. exact pyex_dropped. Qed.

Example C16_pywrite_example_late_schema_written :
  (exists b, py_write pyex_o (PcStart [] [] :: pyex_late_cs ++ [PcFinish]) = POk b)
  /\ dropped pyex_o [] [] pyex_late_cs = []
  /\ filter (is_op OpSchema) (all_records (fun _ s => s) (data_items pyex_o [] [] pyex_late_cs))
     = map (fun s => CR OpSchema (enc_schema s)) (reg_schemas 0 pyex_late_cs)
  /\ length (reg_schemas 0 pyex_late_cs) = 2%nat.
Proof. exact pyex_late_schema_written. Qed.

Example C16_pywrite_example_statistics :
  pw_stats (closed_state pyex_o pyex_p pyex_l pyex_cs)
  = {| st_messages := 5; st_schemas := 3; st_channels := 2; st_attachments := 1; st_metadata := 1; st_chunks := 2;
       st_start := 9; st_end := 20; st_counts := [(1, 3); (2, 2)] |}.
Proof. exact pyex_statistics. Qed.

Example C16_pywrite_example_chunk_indexes :
  map (fun ci => (ci_offset ci, ci_length ci, ci_start ci, ci_end ci, ci_mioffsets ci, ci_milength ci))
      (pw_chunks (closed_state pyex_o pyex_p pyex_l pyex_cs))
  = [(29, 231, 10, 10, [(1, 260)], 31); (382, 177, 9, 20, [(2, 559); (1, 606)], 94)]
  /\ chunk_offsets 0 (before_dataend pyex_o pyex_p pyex_l pyex_cs) = [29; 382].
Proof. exact pyex_chunk_indexes. Qed.

Example C16_pywrite_example_dataend_crc :
  po_data_crcs pyex_o = true /\ (po_chunking pyex_o = true \/ ends_with_reg pyex_cs = false)
  /\ pw_crc (closed_state pyex_o pyex_p pyex_l pyex_cs) = crc32 (render (before_dataend pyex_o pyex_p pyex_l pyex_cs)).
Proof. exact pyex_dataend_crc. Qed.

Example C16_pywrite_example_metadata_parsed :
  mds_of pyex_cs = [{| md_name := [x6d; x64]; md_meta := [([x62], [x32]); ([x61], [x31])] |}]
  /\ Forall (fun m => blen (py_enc_metadata m) < two32) (mds_of pyex_cs)
  /\ parse_metadata (py_enc_metadata {| md_name := [x6d; x64]; md_meta := [([x62], [x32]); ([x61], [x31])] |})
     = Ok {| md_name := [x6d; x64]; md_meta := [([x61], [x31]); ([x62], [x32])] |}
  /\ kv_build [([x62], [x32]); ([x61], [x31])] = [([x61], [x31]); ([x62], [x32])].
Proof. exact pyex_metadata_parsed. Qed.

(* a session without chunking satisfying the hypotheses of C16_pywrite_nochunk_all_written and of the
   last clause of C16_pywrite_dataend_crc *)
Example C16_pywrite_example_nochunk :
  (exists b, py_write pyex_nochunk_o (PcStart [] [] :: pyex_nochunk_cs ++ [PcFinish]) = POk b)
  /\ data_calls pyex_nochunk_cs = true /\ ends_with_reg pyex_nochunk_cs = false
  /\ Forall chunk_small (py_trace pyex_nochunk_o (PcStart [] [] :: pyex_nochunk_cs ++ [PcFinish]))
  /\ pw_crc (closed_state pyex_nochunk_o [] [] pyex_nochunk_cs)
     = crc32 (render (before_dataend pyex_nochunk_o [] [] pyex_nochunk_cs)).
Proof. exact pyex_nochunk. Qed.

(* the call list of the example has a message call with registrations before it (hypothesis of
   C16_pywrite_registered_before_message) *)
Example C16_pywrite_example_before_message :
  pyex_cs = firstn 4 pyex_cs ++ PcMessage 1 10 [x01; x02; x03; x04; x05; x06; x07; x08] 11 0 :: skipn 5 pyex_cs.
Proof. exact pyex_before_message. Qed.

Example C16_pywrite_example_metadata_wf :
  let m := {| md_name := [x6d; x64]; md_meta := [([x62], [x32]); ([x61], [x31])] |} in
  blen (md_name m) < two32 /\ Forall wf_kv (md_meta m) /\ wf_kvs (md_meta m) /\ blen (py_enc_metadata m) < two32
  /\ kv_sort (rev (md_meta m)) = [([x61], [x31]); ([x62], [x32])].
Proof. exact pyex_metadata_wf. Qed.

(* written with enable_crcs = False: chunk crc 0, footer crc 0; the validating lexer accepts the file *)
Example C16_pywrite_example_nocrc_lexed :
  exists evs st,
    py_write pyex_nocrc_o pyex_calls = POk pyex_nocrc_bytes
    /\ pyex_nocrc_bytes = render (py_trace pyex_nocrc_o pyex_calls)
    /\ lex_all (pyex_lo true CbFull) ds_id 40 (src_of pyex_nocrc_bytes false) = Ok (evs, EEOF, st)
    /\ evs = file_events (pyex_lo true CbFull) ds_id (py_trace pyex_nocrc_o pyex_calls)
    /\ filter (ev_op OpMessage) evs = map (fun m => EvToken OpMessage (enc_message m)) (msgs_of pyex_cs).
Proof. exact pyex_nocrc_lexed. Qed.
