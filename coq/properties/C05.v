(* C05 - Every file the Go writer closes follows the MCAP grammar (magic, header, data section ending
   in DataEnd, summary grouped by opcode, summary offsets, footer, magic; only schema/channel/message
   records inside chunks) and every location, length, size and time field in it is exact.

   Setting: fault-free run (flt = None) of the writer model, NewWriter and every call succeed.
   Vocabulary (all defined in Mcap.WriterFactsC):
     rendered l / offset_of l   bytes of a list of trace items / their length
     located off T              the items of T paired with their byte offsets (first one at off)
     sitem, flat1, flatten      structured data section: SItem it (one item), SMeta m (a metadata record),
                                SChunk k mis (chunk record immediately followed by the message index
                                records mi_item mi = IRec OpMessageIndex (enc_msgindex mi) of mis)
     slocated off D             structured items paired with their byte offsets
     exp_att / exp_md / exp_ci  the index entry an (offset, structured item) pair must have
     mk_ci k mis off            the chunk index entry of chunk k with message indexes mis at offset off
     data_sitem o x             kinds of items allowed between Header and DataEnd
     chunk_ok o compress n k mis  contents of the n-th chunk: records, sizes, times, message indexes
     summary_groups, sum_items, group_offsets, so_item   summary section and summary offset records
     legal_shape cs             cs = CHeader h :: body ++ [CClose], no CClose and no CHeader in body
     att_small_call c           for CAttachment a _: 9 + |fields| + a_size a + 4 < 2^64 *)
From Mcap Require ConstsTie LayoutTie DecisionTieW. (* regenerated ties to /repo's source that this property's model relies on *)
From Coq Require Import List NArith ZArith Bool.
From Coq.Strings Require Import Byte.
From Mcap Require Import Bytes GoSem Crc32 Records Writer WriterFactsC.
Import ListNotations.
Open Scope N_scope.

(* ---------- 1. bytes = rendered trace, exact sizes (any successful call list) ---------- *)
Theorem C05_bytes_are_trace :
  forall (o : wopts) (lib_id : bytes) (compress : nat -> bytes -> bytes) (cs : list wcall),
  let R := W o lib_id compress None cs in
  r_new R = None -> all_ok (r_calls R) ->
  file_of R = rendered (rev (w_trace (r_final R))) /\ w_size (r_final R) = blen (file_of R).
Proof. exact WriterFactsC.C05_bytes_are_trace. Qed.
Print Assumptions C05_bytes_are_trace.

Theorem C05_sizes_at_boundaries :
  forall (o : wopts) (lib_id : bytes) (compress : nat -> bytes -> bytes) (cs : list wcall),
  let R := W o lib_id compress None cs in
  r_new R = None -> all_ok (r_calls R) ->
  forall cs1 cs2, cs = cs1 ++ cs2 ->
  let R1 := W o lib_id compress None cs1 in
  file_of R1 = rendered (rev (w_trace (r_final R1))) /\ w_size (r_final R1) = blen (file_of R1).
Proof. exact WriterFactsC.C05_sizes_at_boundaries. Qed.
Print Assumptions C05_sizes_at_boundaries.

(* ---------- 2.-6. grammar, index exactness, chunk contents, summary offsets, footer ---------- *)
Theorem C05_closed_file :
  forall (o : wopts) (lib_id : bytes) (compress : nat -> bytes -> bytes) (cs : list wcall),
  let R := W o lib_id compress None cs in
  let eo := effective_opts o in
  let s := r_final R in
  r_new R = None -> all_ok (r_calls R) -> legal_shape cs = true -> Forall att_small_call cs ->
  exists h, (exists body, cs = CHeader h :: body ++ [CClose]) /\
  let pre := file_prefix eo lib_id h in         (* [IMagic]? ++ [IRec OpHeader _] *)
  exists (D : list sitem) (de : bytes) (B1 B2 B3 : list bytes) (ss sos crc : N),
    let gs := summary_groups eo B1 B2 B3 s in   (* non-empty groups, in the order schema, channel,
                                                   statistics, chunk index, attachment index, metadata index;
                                                   the last three are enc_* of the writer's index lists *)
    let data := pre ++ flatten D ++ [IRec OpDataEnd de] in
    let offs := group_offsets (offset_of data) gs in
    let off_items := if o_skip_so eo then [] else map so_item offs in
    rev (w_trace s) = data ++ sum_items gs ++ off_items ++ [IFooter ss sos crc; IMagic] /\
    Inv1 s /\
    (Forall (data_sitem eo) D /\
     w_att_indexes s = flat_map exp_att (slocated (offset_of pre) D) /\
     w_md_indexes s = flat_map exp_md (slocated (offset_of pre) D) /\
     w_chunk_indexes s = flat_map exp_ci (slocated (offset_of pre) D) /\
     chunks_ok eo compress 0 D) /\
    ss = match gs with [] => 0 | _ => offset_of data end /\
    sos = match off_items with [] => 0 | _ => offset_of (data ++ sum_items gs) end.
Proof. exact WriterFactsC.C05_closed_file. Qed.
Print Assumptions C05_closed_file.

(* ---------- 3. index exactness read at the level of plain trace items ---------- *)
Theorem C05_index_items :
  forall (o : wopts) (lib_id : bytes) (compress : nat -> bytes -> bytes) (cs : list wcall),
  let s := r_final (W o lib_id compress None cs) in
  let tr := rev (w_trace s) in
  C05_hyps o lib_id compress cs ->
  w_att_indexes s = flat_map att_entry (located 0 tr) /\
  Forall2 md_rel (filter is_md_item (located 0 tr)) (w_md_indexes s) /\
  (forall a data crc, In (IAttach a data crc) tr ->
     a_size a = blen data /\ crc = crc32 (enc_attachment_fields a ++ data)).
Proof. exact WriterFactsC.C05_index_items. Qed.
Print Assumptions C05_index_items.

Theorem C05_att_index_split :
  forall (o : wopts) (lib_id : bytes) (compress : nat -> bytes -> bytes) (cs : list wcall),
  let s := r_final (W o lib_id compress None cs) in
  let tr := rev (w_trace s) in
  C05_hyps o lib_id compress cs ->
  forall ai, In ai (w_att_indexes s) ->
  exists p post a data crc,
    tr = p ++ IAttach a data crc :: post /\
    ai_offset ai = offset_of p /\ ai_length ai = blen (render_item (IAttach a data crc)) /\
    ai_log ai = a_log a /\ ai_create ai = a_create a /\ ai_size ai = blen data /\
    ai_name ai = a_name a /\ ai_media ai = a_media a /\
    a_size a = blen data /\ crc = crc32 (enc_attachment_fields a ++ data).
Proof. exact WriterFactsC.C05_att_index_split. Qed.
Print Assumptions C05_att_index_split.

Theorem C05_md_index_split :
  forall (o : wopts) (lib_id : bytes) (compress : nat -> bytes -> bytes) (cs : list wcall),
  let s := r_final (W o lib_id compress None cs) in
  let tr := rev (w_trace s) in
  C05_hyps o lib_id compress cs ->
  forall mx, In mx (w_md_indexes s) ->
  exists p post m,
    tr = p ++ IRec OpMetadata (enc_metadata m) :: post /\
    mx_offset mx = offset_of p /\ mx_length mx = blen (frame OpMetadata (enc_metadata m)) /\
    mx_name mx = md_name m.
Proof. exact WriterFactsC.C05_md_index_split. Qed.
Print Assumptions C05_md_index_split.

(* 3.-5. for chunks: the entry designates a chunk record, the message index records that follow it
   (post does not start with a message index record), and chunk_ok describes the chunk's contents *)
Theorem C05_chunk_index_split :
  forall (o : wopts) (lib_id : bytes) (compress : nat -> bytes -> bytes) (cs : list wcall),
  let s := r_final (W o lib_id compress None cs) in
  let tr := rev (w_trace s) in
  C05_hyps o lib_id compress cs ->
  forall ci, In ci (w_chunk_indexes s) ->
  exists p k mis post,
    tr = p ++ IChunk k :: map mi_item mis ++ post /\
    post_head_not_mi post /\
    ci = mk_ci k mis (offset_of p) /\
    chunk_ok (effective_opts o) compress (count_chunks p) k mis.
Proof. exact WriterFactsC.C05_chunk_index_split. Qed.
Print Assumptions C05_chunk_index_split.

(* ---------- the whole property ---------- *)
Definition C05_full_statement : Prop :=
  forall (o : wopts) (lib_id : bytes) (compress : nat -> bytes -> bytes) (cs : list wcall),
  let R := W o lib_id compress None cs in
  let eo := effective_opts o in
  let s := r_final R in
  let tr := rev (w_trace s) in
  r_new R = None -> all_ok (r_calls R) ->
  (file_of R = rendered tr /\ w_size s = blen (file_of R)) /\
  (forall cs1 cs2, cs = cs1 ++ cs2 ->
     let R1 := W o lib_id compress None cs1 in
     file_of R1 = rendered (rev (w_trace (r_final R1))) /\ w_size (r_final R1) = blen (file_of R1)) /\
  (legal_shape cs = true -> Forall att_small_call cs ->
   exists h, (exists body, cs = CHeader h :: body ++ [CClose]) /\
     ClosedFile eo compress (file_prefix eo lib_id h) s /\
     w_att_indexes s = flat_map att_entry (located 0 tr) /\
     Forall2 md_rel (filter is_md_item (located 0 tr)) (w_md_indexes s) /\
     (forall a data crc, In (IAttach a data crc) tr ->
        a_size a = blen data /\ crc = crc32 (enc_attachment_fields a ++ data)) /\
     (forall ci, In ci (w_chunk_indexes s) ->
        exists p k mis post,
          tr = p ++ IChunk k :: map mi_item mis ++ post /\ post_head_not_mi post /\
          ci = mk_ci k mis (offset_of p) /\ chunk_ok eo compress (count_chunks p) k mis)).

Theorem C05_full : C05_full_statement.
Proof. exact WriterFactsC.C05_all. Qed.
Print Assumptions C05_full.

(* ---------- non-vacuity: concrete workloads satisfying every hypothesis ---------- *)
Definition ex_o (chunked : bool) (chunksize : Z) : wopts :=
  {| o_crc := true; o_chunked := chunked; o_chunksize := chunksize; o_comp := []; o_custom := false;
     o_skip_mi := false; o_skip_stats := false; o_skip_rsh := false; o_skip_rch := false;
     o_skip_ai := false; o_skip_mdi := false; o_skip_ci := false; o_skip_so := false;
     o_override_lib := false; o_skip_magic := false |}.
Definition ex_id (n : nat) (b : bytes) : bytes := b.
Definition ex_att : attachment :=
  {| a_log := 5; a_create := 6; a_name := [x61]; a_media := [x62]; a_size := 3; a_data := [] |}.
(* two channels, messages, an attachment and a metadata record *)
Definition ex_cs : list wcall :=
  [CHeader {| h_profile := []; h_library := [] |};
   CSchema {| s_id := 1; s_name := [x73]; s_encoding := []; s_data := [x01] |};
   CChannel {| c_id := 1; c_schema := 1; c_topic := [x74]; c_menc := []; c_meta := [] |};
   CChannel {| c_id := 2; c_schema := 0; c_topic := [x75]; c_menc := []; c_meta := [([x6b], [x76])] |};
   CMessage {| m_chan := 1; m_seq := 0; m_log := 10; m_pub := 10; m_data := [x01; x02] |};
   CMessage {| m_chan := 2; m_seq := 0; m_log := 7; m_pub := 7; m_data := [x03] |};
   CAttachment ex_att {| as_frags := [[x0a; x0b]; [x0c]]; as_fail := false |};
   CMessage {| m_chan := 1; m_seq := 1; m_log := 12; m_pub := 12; m_data := [] |};
   CMetadata {| md_name := [x6d]; md_meta := [([x61], [x62])] |};
   CMessage {| m_chan := 2; m_seq := 1; m_log := 3; m_pub := 3; m_data := [x04] |};
   CClose].
Definition ex_R (chunked : bool) (chunksize : Z) := W (ex_o chunked chunksize) [x6c] ex_id None ex_cs.

(* chunked, chunk size 1: every message closes a chunk *)
Example ex_hyps_chunked : C05_hyps (ex_o true 1) [x6c] ex_id ex_cs.
Proof.
  split; [vm_compute; reflexivity|]. split; [apply all_okb_ok; vm_compute; reflexivity|].
  split; [vm_compute; reflexivity|]. apply att_small_callb_ok. vm_compute. reflexivity.
Qed.
Example ex_chunked_indexes :
  length (w_chunk_indexes (r_final (ex_R true 1))) = 4%nat /\
  length (w_att_indexes (r_final (ex_R true 1))) = 1%nat /\
  length (w_md_indexes (r_final (ex_R true 1))) = 1%nat /\
  map ai_offset (w_att_indexes (r_final (ex_R true 1))) = [338] /\
  map mx_offset (w_md_indexes (r_final (ex_R true 1))) = [499] /\
  map ci_offset (w_chunk_indexes (r_final (ex_R true 1))) = [26; 226; 388; 527] /\
  map ci_mioffsets (w_chunk_indexes (r_final (ex_R true 1))) = [[(1, 195)]; [(2, 307)]; [(1, 468)]; [(2, 608)]] /\
  blen (file_of (ex_R true 1)) = 1428.
Proof. vm_compute. repeat split. Qed.

(* chunked, large chunk: one chunk holding schema, channels and all four messages of both channels *)
Example ex_hyps_one_chunk : C05_hyps (ex_o true 4096) [x6c] ex_id ex_cs.
Proof.
  split; [vm_compute; reflexivity|]. split; [apply all_okb_ok; vm_compute; reflexivity|].
  split; [vm_compute; reflexivity|]. apply att_small_callb_ok. vm_compute. reflexivity.
Qed.
Example ex_one_chunk_index :
  map (fun ci => (ci_start ci, ci_end ci, map fst (ci_mioffsets ci))) (w_chunk_indexes (r_final (ex_R true 4096)))
  = [(3, 12, [1; 2])].
Proof. vm_compute. reflexivity. Qed.

(* unchunked *)
Example ex_hyps_unchunked : C05_hyps (ex_o false 0) [x6c] ex_id ex_cs.
Proof.
  split; [vm_compute; reflexivity|]. split; [apply all_okb_ok; vm_compute; reflexivity|].
  split; [vm_compute; reflexivity|]. apply att_small_callb_ok. vm_compute. reflexivity.
Qed.

(* a proper prefix of the call list, for C05_sizes_at_boundaries *)
Example ex_prefix : ex_cs = firstn 7 ex_cs ++ skipn 7 ex_cs.
Proof. reflexivity. Qed.

(* legal_shape must exclude a second WriteHeader: the writer accepts it and the file then holds two
   Header records, which the grammar does not allow *)
Example ex_double_header :
  let cs := [CHeader {| h_profile := []; h_library := [] |}; CHeader {| h_profile := []; h_library := [] |}; CClose] in
  let R := W (ex_o false 0) [x6c] ex_id None cs in
  r_new R = None /\ all_okb (r_calls R) = true /\ legal_shape cs = false /\
  map (fun it => match it with IRec op _ => Some op | _ => None end) (firstn 3 (rev (w_trace (r_final R))))
  = [None; Some OpHeader; Some OpHeader].
Proof. vm_compute. repeat split. Qed.

(* chunk_times (fold of N.min from max_u64 / N.max from 0) is the true (min, max) exactly when the log
   times are uint64 values (WriterFactsC.chunk_times_spec); the model's N is unbounded, and a log time
   above 2^64-1 would leave the start time at max_u64 *)
Example ex_time_above_u64 :
  let cs := [CHeader {| h_profile := []; h_library := [] |};
             CChannel {| c_id := 1; c_schema := 0; c_topic := []; c_menc := []; c_meta := [] |};
             CMessage {| m_chan := 1; m_seq := 0; m_log := two64 + 5; m_pub := 0; m_data := [] |};
             CClose] in
  let R := W (ex_o true 4096) [x6c] ex_id None cs in
  C05_hyps (ex_o true 4096) [x6c] ex_id cs /\
  map (fun ci => (ci_start ci, ci_end ci)) (w_chunk_indexes (r_final R)) = [(max_u64, two64 + 5)].
Proof.
  split.
  - split; [vm_compute; reflexivity|]. split; [apply all_okb_ok; vm_compute; reflexivity|].
    split; [vm_compute; reflexivity|]. apply att_small_callb_ok. vm_compute. reflexivity.
  - vm_compute. reflexivity.
Qed.
