(* C03, end to end over the writer model (all proofs in theories/EndToEnd2.v).

   C03 - "Reading messages through the index in log-time order returns them by non-decreasing log
   time, in reverse log-time order by non-increasing log time; messages of one chunk with equal log
   time keep their file order (reverse file order when reading in reverse); the result is a function
   of the file alone."

   properties/C03.v proves this for the ABSTRACT iterator over abstract chunks and, under the
   hypothesis loader_ok, for the byte-level iterator.  Here the file is one the WRITER model produced
   (w := W o lib compress None (CHeader hd :: cs ++ [CClose]) under EndToEnd.e2e_hyps, the hypotheses
   of properties/C02_full.v), the read is Reader.read_messages on its bytes, and
     * loader_ok is discharged (EndToEnd.loader_typed),
     * chunks_wf - every chunk's [start, end] bounds the log times of its messages - is DERIVED from
       the writer facts (C05: WriterFactsC.chunk_ok gives the chunk's records and its times as the
       minimum / maximum of their log times; the records the reader decodes are the records the
       writer framed: EndToEnd2.z_recs, z_described, cks_wf),
     * the messages are compared with the forced scan of the same file ([OUsingIndex false]), whose
       result is known from C02_full (every message written, in file order).
   The "chunks" of the tie clause are given as a split of the forced scan into one segment per chunk
   index of the summary, the log times of a segment inside the time range of its chunk index.

   No index_enabled hypothesis: a time-ordered read that ends with io.EOF was index-based (when the
   index is not usable Reader.Messages fails for the two time orders).
   Full: C03_e2e_logtime, C03_e2e_reverse, C03_e2e_orders (both, by direction), C03_e2e_deterministic. *)
From Mcap Require ConstsTie LayoutTie DecisionTieR. (* regenerated ties to /repo's source that this property's model relies on *)
From Coq Require Import List NArith ZArith Bool Permutation Sorted.
From Coq.Strings Require Import Byte.
From Mcap Require Import Bytes GoSem Crc32 Records RecordsFacts Writer WriterFactsC Lexer LexSpec LexerFactsB
  ComposeFacts Reader Iter ReaderFacts ReaderFacts2 EndToEnd EndToEnd2.
From McapProps Require Import C02.
Import ListNotations E2E_Writer.
Open Scope N_scope.

(* log-time order *)
Theorem C03_e2e_logtime :
  forall ds dall o lib compress hd cs, e2e_hyps ds dall o lib compress hd cs ->
  let w := W o lib compress None (CHeader hd :: cs ++ [CClose]) in
  let f := mem_file (file_of w) in
  let cis := if o_skip_ci (effective_opts o) then [] else w_chunk_indexes (r_final w) in
  forall ri rs,
    read_messages ds dall f [OInOrder LogTimeOrder] = Ok ri -> read_messages ds dall f [OUsingIndex false] = Ok rs ->
    rr_end ri = EEOF ->
    rr_mode ri = Some MIndexed /\
    Permutation (rr_msgs ri) (rr_msgs rs) /\
    StronglySorted (fun a b : triple => m_log (snd a) <= m_log (snd b)) (rr_msgs ri) /\
    exists segs : list (list triple),
      concat segs = rr_msgs rs /\
      Forall2 (fun seg ci => Forall (fun t : triple => ci_start ci <= m_log (snd t) <= ci_end ci) seg) segs cis /\
      forall seg t1 t2, In seg segs -> before t1 t2 seg -> m_log (snd t1) = m_log (snd t2) ->
        before t1 t2 (rr_msgs ri).
Proof. exact C03_e2e_logtime_thm. Qed.
Print Assumptions C03_e2e_logtime.

(* reverse log-time order *)
Theorem C03_e2e_reverse :
  forall ds dall o lib compress hd cs, e2e_hyps ds dall o lib compress hd cs ->
  let w := W o lib compress None (CHeader hd :: cs ++ [CClose]) in
  let f := mem_file (file_of w) in
  let cis := if o_skip_ci (effective_opts o) then [] else w_chunk_indexes (r_final w) in
  forall ri rs,
    read_messages ds dall f [OInOrder ReverseLogTimeOrder] = Ok ri -> read_messages ds dall f [OUsingIndex false] = Ok rs ->
    rr_end ri = EEOF ->
    rr_mode ri = Some MIndexed /\
    Permutation (rr_msgs ri) (rr_msgs rs) /\
    StronglySorted (fun a b : triple => m_log (snd b) <= m_log (snd a)) (rr_msgs ri) /\
    exists segs : list (list triple),
      concat segs = rr_msgs rs /\
      Forall2 (fun seg ci => Forall (fun t : triple => ci_start ci <= m_log (snd t) <= ci_end ci) seg) segs cis /\
      forall seg t1 t2, In seg segs -> before t1 t2 seg -> m_log (snd t1) = m_log (snd t2) ->
        before t2 t1 (rr_msgs ri).
Proof. exact C03_e2e_reverse_thm. Qed.
Print Assumptions C03_e2e_reverse.

(* both, by direction (d = true: log-time order; led true a b is a <= b, led false a b is b <= a) *)
Theorem C03_e2e_orders : C03_e2e_statement.
Proof. exact C03_e2e_thm. Qed.
Print Assumptions C03_e2e_orders.

(* with a window and topics: sorted, and the selected part of the forced scan (properties/C04_e2e.v) *)

(* the result is a function of the file and the options: two reads return the same *)
Theorem C03_e2e_deterministic : forall ds dall (f : fsrc) os r1 r2,
  read_messages ds dall f os = Ok r1 -> read_messages ds dall f os = Ok r2 -> r1 = r2.
Proof. exact e2e_deterministic_thm. Qed.
Print Assumptions C03_e2e_deterministic.

(* ---------- non-vacuity ---------- *)
(* two runs satisfy e2e_hyps: chunk size 1 (four chunks of one message, C02_full.C02_e2e_ex_uncompressed),
   and chunk size 70 with out-of-order log times: four chunks with the time ranges [50,50] [10,40]
   [20,60] [5,5] (chunks 2 and 3 overlap and each hold two messages with equal log times) *)
Example C03_e2e_ex_hyps :
  e2e_hyps ds_id ce_dall y_o [x6c] ce_id ex_hd ex_cs /\ e2e_hyps ds_id ce_dall ov_o [x6c] ce_id ex_hd ov_cs.
Proof. exact (conj ex1_hyps ov_hyps). Qed.

Example C03_e2e_ex_layout :
  map (fun ci => (ci_start ci, ci_end ci, ci_offset ci)) (w_chunk_indexes (r_final ov_w))
    = [(50, 50, 26); (10, 40, 224); (20, 60, 444); (5, 5, 664)] /\
  max_overlap (map ci_range (w_chunk_indexes (r_final ov_w))) = 2%nat /\
  map (fun ci => (ci_start ci, ci_end ci)) (w_chunk_indexes (r_final (W y_o [x6c] ce_id None (CHeader ex_hd :: ex_cs ++ [CClose]))))
    = [(10, 10); (7, 7); (12, 12); (3, 3)] /\
  max_overlap (map ci_range (w_chunk_indexes (r_final (W y_o [x6c] ce_id None (CHeader ex_hd :: ex_cs ++ [CClose]))))) = 1%nat.
Proof. exact ov_layout. Qed.

(* the reads exist and end with io.EOF *)
Example C03_e2e_ex_reads_ok :
  Forall (fun os => read_messages ds_id ce_dall ov_f os = Ok (ov_read os) /\ rr_end (ov_read os) = EEOF)
    [[OUsingIndex false]; []; [OInOrder LogTimeOrder]; [OInOrder ReverseLogTimeOrder];
     [OAfterNanos 10; OBeforeNanos 50]; [OTopics [[x75]]; OBeforeNanos 50; OAfterNanos 10];
     [OInOrder LogTimeOrder; OTopics [[x75]]; OBeforeNanos 50; OAfterNanos 10]].
Proof. exact ov_read_ok. Qed.

(* what the reader returns, computed independently of the theorems: (mode, (channel id, sequence
   number, log time) of every message, (slots allocated, slots in use), final error).  The log-time
   read interleaves chunks 2 and 3 and puts chunk 4 first; messages 5 and 7 (log time 20, chunk 3)
   and 3 and 4 (log time 40, chunk 2) keep their file order, reversed in the reverse read *)
Example C03_e2e_ex_reads :
  ov_view (read_messages ds_id ce_dall ov_f [OUsingIndex false])
    = Some (Some MScan, [(1, 1, 50); (1, 2, 10); (2, 3, 40); (1, 4, 40); (2, 5, 20); (1, 6, 60); (2, 7, 20); (1, 8, 5)], (0, 0)%nat, EEOF) /\
  ov_view (read_messages ds_id ce_dall ov_f [])
    = Some (Some MIndexed, [(1, 1, 50); (1, 2, 10); (2, 3, 40); (1, 4, 40); (2, 5, 20); (1, 6, 60); (2, 7, 20); (1, 8, 5)], (1, 1)%nat, EEOF) /\
  ov_view (read_messages ds_id ce_dall ov_f [OInOrder LogTimeOrder])
    = Some (Some MIndexed, [(1, 8, 5); (1, 2, 10); (2, 5, 20); (2, 7, 20); (2, 3, 40); (1, 4, 40); (1, 1, 50); (1, 6, 60)], (2, 2)%nat, EEOF) /\
  ov_view (read_messages ds_id ce_dall ov_f [OInOrder ReverseLogTimeOrder])
    = Some (Some MIndexed, [(1, 6, 60); (1, 1, 50); (1, 4, 40); (2, 3, 40); (2, 7, 20); (2, 5, 20); (1, 2, 10); (1, 8, 5)], (2, 2)%nat, EEOF).
Proof. exact ov_reads. Qed.

(* the chunk-size-1 run of C02_full: the time-ordered read reorders the four chunks *)
Example C03_e2e_ex_reads_chunk1 :
  let f1 := mem_file (file_of (W y_o [x6c] ce_id None (CHeader ex_hd :: ex_cs ++ [CClose]))) in
  ex_view (read_messages ds_id ce_dall f1 [OUsingIndex false]) = Some (Some MScan, [(1, 10); (2, 7); (1, 12); (2, 3)], 0%nat, EEOF) /\
  ex_view (read_messages ds_id ce_dall f1 [OInOrder LogTimeOrder]) = Some (Some MIndexed, [(2, 3); (2, 7); (1, 10); (1, 12)], 0%nat, EEOF) /\
  ex_view (read_messages ds_id ce_dall f1 [OInOrder ReverseLogTimeOrder]) = Some (Some MIndexed, [(1, 12); (1, 10); (2, 7); (2, 3)], 0%nat, EEOF) /\
  ex_view (read_messages ds_id ce_dall f1 [OAfterNanos 7; OBeforeNanos 12]) = Some (Some MIndexed, [(1, 10); (2, 7)], 0%nat, EEOF) /\
  ex_view (read_messages ds_id ce_dall f1 [OTopics [[x74]]]) = Some (Some MIndexed, [(1, 10); (1, 12)], 0%nat, EEOF) /\
  option_map (fun r => rr_slots r) (match read_messages ds_id ce_dall f1 [OInOrder LogTimeOrder] with Ok r => Some r | _ => None end)
    = Some (1, 0)%nat.
Proof. exact ex1_time_reads. Qed.

(* the theorem on the overlapping run *)
Example C03_e2e_ex_applies : forall d ri rs,
  read_messages ds_id ce_dall ov_f [OInOrder (order_of d)] = Ok ri -> read_messages ds_id ce_dall ov_f [OUsingIndex false] = Ok rs ->
  rr_end ri = EEOF ->
  rr_mode ri = Some MIndexed /\ Permutation (rr_msgs ri) (rr_msgs rs) /\
  StronglySorted (fun a b => led d (log_of a) (log_of b)) (rr_msgs ri).
Proof. exact ov_C03_applies. Qed.
