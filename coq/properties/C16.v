(* C16 - Go and Python implementations read each other's files identically.
   "Any uncompressed file written by the Go writer is read by the repository's Python readers
    (streaming and seeking, with CRC validation) as exactly the content that was written, and any
    file written by the Python writer is read by the Go lexer and readers as exactly what Python
    wrote: same header, schemas, channels, messages with all fields, attachments, metadata and
    statistics."

   The Python package is not modelled in Coq.  The Coq part is the pivot both directions of the
   check stand on; the proofs are in theories/ComposeFacts.v and theories/LexerFactsB.v.

   (a) C16_go_written / C16_go_uncompressed: every file the Go writer model produces (error-free
       run, any configuration) is `render` of the writer's ghost trace, and the data section of
       that trace, with chunks replaced by their uncompressed content, holds exactly the records
       the calls asked for (header/attachment/metadata in call order; schema/channel/message in
       call order).  So "what Go wrote" is a precisely known byte string with a precisely known
       logical content - this is what the independent decoder and the Python readers are compared
       against in the Go -> Python direction.
   (b) C16_go_reads_rendering (= lex_render of C09.v): any byte string of the form `render items`
       with wf_file items is read by the Go lexer model as `file_events items`, then io.EOF - this
       is what "Go reads it as what was written" means in the Python -> Go direction, once the
       Python-written bytes are known to be such a rendering.

   What the harness adds, instance-wise (check_c16 in /verif/tools/props.py, tools/py_interop.py):
   - Go -> Python: generated workloads (valid UTF-8) are written by the Go writer in random
     uncompressed configurations (the writer itself is tied to the model W by the writer
     correspondence checks) and read by the Python streaming reader (always) and seeking reader
     (when the summary carries the indexes it relies on), CRC validation on; the header, the
     messages with their channel and schema, attachments, metadata, statistics and log-time order
     are compared with the content computed from the calls - the content (a) speaks about;
   - Python -> Go: workloads written by the Python writer across its options are read by the Go
     lexer, the scan, indexed and log-time readers, and by the extracted Coq models (tie of (b) to
     the source on those instances), and the result is compared with what Python was asked to
     write, decoded independently of the Go code.
   The Python-written files are therefore covered instance by instance, not by a theorem. *)
From Mcap Require ConstsTie LayoutTie PyDecisionTie. (* regenerated ties to /repo's source that this property's model relies on *)
From Coq Require Import List NArith ZArith Bool.
From Coq.Strings Require Import Byte.
From Mcap Require Import Bytes GoSem Crc32 Records RecordsFacts Writer WriterFactsB Lexer LexSpec LexerFactsB
  ComposeFacts.
Import ListNotations.
Open Scope N_scope.

Theorem C16_go_written : forall o lib comp unz cs',
  C06_hyps o lib comp cs' ->
  (forall n plain, unz (o_comp o) (comp n plain) = plain) ->
  Forall call_small cs' ->
  let R := W o lib comp None (cs' ++ [CClose]) in
  let recs := data_records unz (rev (w_trace (r_final R))) in
  file_of R = render (rev (w_trace (r_final R))) /\
  filter is_direct recs = expected_records o lib (filter call_direct cs') /\
  filter is_auto recs = expected_records o lib (filter call_auto cs').
Proof. exact C16_go_written_thm. Qed.
Print Assumptions C16_go_written.

Theorem C16_go_uncompressed : forall o lib comp cs',
  C06_hyps o lib comp cs' ->
  (forall n plain, comp n plain = plain) ->
  Forall call_small cs' ->
  let R := W o lib comp None (cs' ++ [CClose]) in
  let recs := data_records (fun _ stored => stored) (rev (w_trace (r_final R))) in
  file_of R = render (rev (w_trace (r_final R))) /\
  filter is_direct recs = expected_records o lib (filter call_direct cs') /\
  filter is_auto recs = expected_records o lib (filter call_auto cs').
Proof. exact C16_go_uncompressed_thm. Qed.
Print Assumptions C16_go_uncompressed.

Theorem C16_go_reads_rendering : forall lo dstream items sk,
  wf_file lo dstream items ->
  forall fuel, (file_steps lo dstream items + 1 <= fuel)%nat ->
  exists st, lex_all lo dstream fuel (src_of (render items) sk)
             = Ok (file_events lo dstream items, EEOF, st).
Proof. exact lex_render_thm. Qed.
Print Assumptions C16_go_reads_rendering.

(* ----- non-vacuity ----- *)
Example C16_ex_hyps :
  C06_hyps ex_o ex_lib ex_comp ex_cs_pre /\ (forall n plain, ex_comp n plain = plain) /\
  Forall call_small ex_cs_pre.
Proof. exact ex_C16_hyps. Qed.

(* a Go-written file is also a well-formed rendering: (a) and (b) chain on the example *)
Example C16_ex_wf : wf_file ex_lo ds_id ex_trace /\ (file_steps ex_lo ds_id ex_trace + 1 <= 40)%nat.
Proof. split; [exact ex_trace_wf|exact ex_fuel]. Qed.

Example C16_ex_reads : forall validate sk cb, cb = CbNone \/ cb = CbFull ->
  exists st, lex_all (ex_lopts validate false cb) ds_id 20 (src_of (render ex_items) sk)
             = Ok (file_events (ex_lopts validate false cb) ds_id ex_items, EEOF, st).
Proof. exact ex_lex_render. Qed.
