(* C05 / C08 (source tie) - the bookkeeping decisions of Writer.WriteMessage are the ones written in go/mcap's writer.go
   today: `go_w_*` are regenerated from the Go AST on every run (theories/DecisionsW_gen.v); the model's write_message is
   WriteMessage with these decisions substituted (proofs: theories/DecisionTieW.v).  The four running minimum/maximum
   updates are tied by their effect on the state, the others as booleans. *)
From Mcap Require ConstsTie LayoutTie DecisionTieW. (* regenerated ties to /repo's source that this property's model relies on *)
From Coq Require Import List NArith ZArith Bool.
From RecordUpdate Require Import RecordSet.
From Mcap Require Import Bytes GoSem Records Lexer Writer Reader DecisionsW_gen DecisionTieW.
Import ListNotations RecordSetNotations.
Open Scope N_scope.


Theorem C05_tie_write_message : forall o comp flt m s, write_message o comp flt m s = write_message_go o comp flt m s.
Proof. exact write_message_unfold. Qed.
Print Assumptions C05_tie_write_message.

Theorem C05_tie_flush : forall o s, (o_chunksize o <? Z.of_N (blen (w_cbuf s)))%Z = go_w_flush o s.
Proof. exact tie_w_flush. Qed.
Print Assumptions C05_tie_flush.
