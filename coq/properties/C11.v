(* C11 - Unknown records and appended fields are skipped, not misread.
   "Inserting records with opcodes the library does not know (anywhere a record may appear, inside
    or outside chunks, in the summary) and appending extra bytes to the end of any extensible
    record leaves everything the Go readers report - records, messages, Info, index-based reads -
    unchanged apart from the inserted records being skipped."

   Lexer half, on the lexer model (Lexer.v); all proofs are in theories/ComposeFacts.v.

   decorate lo ds recs recs' (ComposeFacts.v): recs' is recs with
     - extra top-level records IRec op body with known_op op = false that the lexer's generic path
       accepts (plain_rec_ok: op is not 0x00, body shorter than MaxInt32 and MaxRecordSize),
       at arbitrary positions: before the header, between data records, in the summary section,
       before the footer;
     - chunks replaced by well-formed chunks (wf_chunk_item: usize/CRC/compression consistent with
       the new content, as the reference encoder produces them) whose uncompressed content is the
       old content with extra records of unknown opcode (ins_unknown on chunk_inner = the records
       of the decompressed payload).  In TokenChunk mode (lo_emit_chunks) chunks are handed out
       whole, so only top-level insertions are covered there.
   decorate_file: the same between the leading and the trailing magic.

   C11_events   file_events (what a sequential read must deliver) is the same for both files -
                a pure fact about the specification function;
   C11_wf       the decorated file is again a well-formed file;
   C11_unknown_records_skipped
                hence the lexer model returns the same events, then io.EOF, on both.
   C11_padding_ignored
                the body parsers (parse.go) return the same value when bytes are appended to the
                body of a header, schema, channel, message index, chunk index, attachment index,
                statistics, metadata, metadata index or summary offset record (restated from
                RecordsFacts.v; maps come back sorted by key);
   C11_attachment_padding
                the eleventh extensible kind: the lexer's attachment handler reports the same
                observation (fields, data, computed and parsed CRC) for an attachment record
                with bytes appended after its CRC, and consumes them.
   (Message, chunk, data end and footer records are not extensible; for a message the appended
    bytes would be part of its data: RecordsFacts.message_pad_counterexample.)

   Not covered here, tied by the correspondence harness (checks C11): Info and the index-based
   readers on decorated files, and whole files carrying padded records (the model's render
   function emits exact records only). *)
From Mcap Require ConstsTie LayoutTie. (* regenerated ties to /repo's source that this property's model relies on *)
From Coq Require Import List NArith ZArith Bool.
From Coq.Strings Require Import Byte.
From Mcap Require Import Bytes GoSem Crc32 Records RecordsFacts Writer Lexer LexSpec LexerFactsB ComposeFacts.
Import ListNotations.
Open Scope N_scope.

Theorem C11_events : forall lo ds items items',
  decorate_file lo ds items items' -> file_events lo ds items' = file_events lo ds items.
Proof. exact C11_events_thm. Qed.
Print Assumptions C11_events.

Theorem C11_wf : forall lo ds items items',
  wf_file lo ds items -> decorate_file lo ds items items' -> wf_file lo ds items'.
Proof. exact C11_wf_thm. Qed.
Print Assumptions C11_wf.

Theorem C11_unknown_records_skipped : forall lo ds items items' sk sk',
  wf_file lo ds items -> decorate_file lo ds items items' ->
  forall fuel, (file_steps lo ds items + 1 <= fuel)%nat -> (file_steps lo ds items' + 1 <= fuel)%nat ->
  exists st st',
    lex_all lo ds fuel (src_of (render items) sk) = Ok (file_events lo ds items, EEOF, st) /\
    lex_all lo ds fuel (src_of (render items') sk') = Ok (file_events lo ds items, EEOF, st').
Proof. exact C11_unknown_records_skipped_thm. Qed.
Print Assumptions C11_unknown_records_skipped.

Theorem C11_padding_ignored : forall pad,
  (forall h, wf_header h -> parse_header (enc_header h ++ pad) = Ok h) /\
  (forall s, wf_schema s -> parse_schema (enc_schema s ++ pad) = Ok s) /\
  (forall c, wf_channel c -> parse_channel (enc_channel c ++ pad) = Ok (channel_norm c)) /\
  (forall mi, wf_msgindex mi -> parse_msgindex (enc_msgindex mi ++ pad) = Ok mi) /\
  (forall ci, wf_chunkindex ci -> parse_chunkindex (enc_chunkindex ci ++ pad) = Ok (chunkindex_norm ci)) /\
  (forall ai, wf_attindex ai -> parse_attindex (enc_attindex ai ++ pad) = Ok ai) /\
  (forall s, wf_statistics s -> parse_statistics (enc_statistics s ++ pad) = Ok (statistics_norm s)) /\
  (forall m, wf_metadata m -> parse_metadata (enc_metadata m ++ pad) = Ok (metadata_norm m)) /\
  (forall x, wf_mdindex x -> parse_mdindex (enc_mdindex x ++ pad) = Ok x) /\
  (forall s, wf_sumoffset s -> parse_sumoffset (enc_sumoffset s ++ pad) = Ok s).
Proof. exact C11_padding_ignored_thm. Qed.
Print Assumptions C11_padding_ignored.

Theorem C11_attachment_padding : forall lo a data crc pad rest e sk,
  wf_attach_item lo a data crc ->
  do_attachment lo (blen (attach_body a data crc ++ pad)) (rd ((attach_body a data crc ++ pad) ++ rest) e sk)
  = (match lo_cb lo with CbFull => Some (EvAttachment (attach_obs lo a data crc)) | _ => None end,
     None, rd rest e sk).
Proof. exact do_attachment_pad_thm. Qed.
Print Assumptions C11_attachment_padding.

(* ----- non-vacuity: the example file of LexerFactsB section 9 (header, a 2-message chunk, an
   unknown record, an attachment, DataEnd, footer) decorated with unknown records before the
   header, after it, inside the chunk (3 of them), after the attachment, in the summary section;
   validation on/off, callback none/full ----- *)
Example C11_ex_hyps : forall validate cb,
  cb = CbNone \/ cb = CbFull ->
  wf_file (ex_lopts validate false cb) ds_id ex_items /\
  decorate_file (ex_lopts validate false cb) ds_id ex_items ex_items_dec /\
  (file_steps (ex_lopts validate false cb) ds_id ex_items + 1 <= 40)%nat /\
  (file_steps (ex_lopts validate false cb) ds_id ex_items_dec + 1 <= 40)%nat.
Proof. exact ex_decorated_hyps. Qed.

(* computed independently of the theorem: the model lexer on both byte strings *)
Example C11_ex_lex :
  match lex_all ex_lo ds_id 40 (src_of (render ex_items) false),
        lex_all ex_lo ds_id 40 (src_of (render ex_items_dec) false) with
  | Ok (evs, EEOF, _), Ok (evs', EEOF, _) => evs = evs' /\ length evs = 6%nat
  | _, _ => False
  end.
Proof. exact ex_decorated_lex. Qed.

Example C11_ex_padding_hyps :
  wf_header ex_header /\ wf_schema ex_schema /\ wf_channel ex_channel /\ wf_msgindex ex_msgindex /\
  wf_chunkindex ex_chunkindex /\ wf_attindex ex_attindex /\ wf_statistics ex_statistics /\
  wf_metadata ex_metadata /\ wf_mdindex ex_mdindex /\ wf_sumoffset ex_sumoffset.
Proof.
  split; [exact wf_header_ex|]. split; [exact wf_schema_ex|]. split; [exact wf_channel_ex|].
  split; [exact wf_msgindex_ex|]. split; [exact (proj1 wf_chunkindex_ex)|]. split; [exact wf_attindex_ex|].
  split; [exact (proj1 wf_statistics_ex)|]. split; [exact wf_metadata_ex|]. split; [exact wf_mdindex_ex|].
  exact wf_sumoffset_ex.
Qed.

Example C11_ex_attachment_padding :
  wf_attach_item ex_lo LexerFactsB.ex_att ex_adata ex_acrc /\
  do_attachment ex_lo (blen (attach_body LexerFactsB.ex_att ex_adata ex_acrc ++ [xde; xad]))
    (rd ((attach_body LexerFactsB.ex_att ex_adata ex_acrc ++ [xde; xad]) ++ [x01]) None false)
  = (Some (EvAttachment (attach_obs ex_lo LexerFactsB.ex_att ex_adata ex_acrc)), None, rd [x01] None false).
Proof. exact ex_attachment_pad. Qed.
