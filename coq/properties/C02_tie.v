(* C02 (companion of C03_tie) / C02 / C04 / C12 (source tie) - the decisions that C03's theorems reason about are the decisions written in
   go/mcap's indexed_message_iterator.go, reader_options.go and mcap.go *today*: the definitions `go_*` below are
   regenerated from the Go AST on every run (theories/DecisionsR_gen.v, tools/gotrans) and each theorem equates one of them
   with the model's own definition (proofs: theories/DecisionTieR.v).  A change of a comparator, of the window test, of
   the topic pruning, of the "load the next chunk first" test, of an option validator or of `CanReadMessagesUsingIndex`
   makes one of these stop compiling, and with it every property file that requires this tie. *)
From Mcap Require ConstsTie LayoutTie DecisionTieR. (* regenerated ties to /repo's source that this property's model relies on *)
From Coq Require Import List NArith ZArith Bool.
From RecordUpdate Require Import RecordSet.
From Mcap Require Import Bytes GoSem Records Lexer Writer Reader DecisionsR_gen DecisionTieR.
Import ListNotations RecordSetNotations.
Open Scope N_scope.

(* C02: when the index is used *)
Theorem C02_tie_can_use_index : forall sm : summ, can_use_index sm = go_can_use_index sm.
Proof. exact tie_can_use_index. Qed.
Print Assumptions C02_tie_can_use_index.
