(* C10 (companion of C07_tie) / C09 / C10 / C15 (source tie) - the decisions of Lexer.Next, loadChunk and makeSafe that these properties rest on
   are the ones written in go/mcap's lexer.go and mcap.go today: `go_lx_*` / `go_make_safe_ok` are regenerated from the Go
   AST on every run (theories/DecisionsL_gen.v); proofs: theories/DecisionTieL.v. *)
From Mcap Require ConstsTie LayoutTie DecisionTieL. (* regenerated ties to /repo's source that this property's model relies on *)
From Coq Require Import List NArith ZArith Bool.
From RecordUpdate Require Import RecordSet.
From Mcap Require Import Bytes GoSem Records Lexer Writer Reader DecisionsL_gen DecisionTieL.
Import ListNotations RecordSetNotations.
Open Scope N_scope.

(* C10: the limits and the allocation bound *)
Theorem C10_tie_record_limit : forall (lo : lopts) (f : nat) (pcap : N) s evs hd r1 (dstream : doracle),
  rd_full 9 (cur s) = (hd, None, r1) ->
  go_lx_record_too_large lo (unle (skipn 1 hd)) = true ->
  lex_next lo dstream (S f) pcap s evs = Ok (evs, NErr ERecordTooLarge, set_cur r1 s).
Proof. intros lo f pcap s evs hd r1 dstream. exact (lex_next_record_too_large lo dstream f pcap s evs hd r1). Qed.
Print Assumptions C10_tie_record_limit.
Theorem C10_tie_chunk_limit : forall (lo : lopts) (usize : N),
  go_lx_chunk_too_large lo usize = (0 <? lo_max_chunk lo) && (lo_max_chunk lo <? usize).
Proof. exact tie_lx_chunk_too_large. Qed.
Print Assumptions C10_tie_chunk_limit.
Theorem C10_tie_make_safe : forall n s,
  make_safe n s = if go_make_safe_ok n then Ok (s <| lx_allocs := n :: lx_allocs s |>) else Err ELengthOutOfRange.
Proof. exact tie_make_safe. Qed.
Print Assumptions C10_tie_make_safe.
Theorem C10_tie_compression_length : forall rlen need : N, go_lx_complen rlen need = (rlen <? 32 + need).
Proof. exact tie_lx_complen. Qed.
Print Assumptions C10_tie_compression_length.
