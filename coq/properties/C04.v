(* C04 - "A read restricted to a set of topics and a time window returns precisely those messages
   of the full read whose channel topic is in the set and whose log time t satisfies
   start <= t < end - none missing, none extra - identically with and without the index and in
   every read order.  With no restriction given, every message is returned; every way the API
   offers to express a window means the same window."

   Selection: tw_sel channels ro m = (channel of m is in the table of selected channels) &&
   in_window ro (log time of m); this is the test Reader.walk and Reader.u_next apply.
   Known finding (kept, see C04_before_zero_refuted / C04_window_errors_before_zero_refuted):
   the deprecated Before(0) means "no upper bound", unlike BeforeNanos(0). *)
From Mcap Require ConstsTie LayoutTie DecisionTieR. (* regenerated ties to /repo's source that this property's model relies on *)
From Coq Require Import List NArith ZArith Bool Permutation Sorted.
From Mcap Require Import Bytes GoSem Records Reader Iter.
Import ListNotations.
Open Scope N_scope.

(* none missing, none extra, in every read order; in file order the result is literally the
   selected messages chunk after chunk by offset, which is what a scan without index returns *)
Theorem C04_exact_abstract : forall channels ro o cks fuel n,
  let sel := tw_sel channels ro in
  (length cks + 1 <= fuel)%nat -> (length (filter sel (all_msgs cks)) + 1 <= n)%nat ->
  exists out st, a_read sel o fuel n cks = Some (out, st) /\
    Permutation out (filter sel (all_msgs cks)) /\
    (o = FileOrder -> out = filter sel (all_msgs (ac_sort FileOrder cks))).
Proof. exact C04_exact_abstract_thm. Qed.
Print Assumptions C04_exact_abstract.

(* pruning of chunk indexes in the summary loses nothing *)
Theorem C04_pruning_time : forall ro ci c,
  ci_start ci = ac_start c -> ci_end ci = ac_end c -> chunk_wf c ->
  ci_time_ok ro false ci = false ->
  forall m, In m (ac_msgs c) -> in_window ro (am_ts m) = false.
Proof. exact C04_pruning_time_thm. Qed.
Print Assumptions C04_pruning_time.

Theorem C04_pruning_topic : forall (channels : list (N * channel)) ci c,
  (forall m, In m (ac_msgs c) -> exists kv, In kv (ci_mioffsets ci) /\ fst kv = am_chan m) ->
  ci_topic_ok channels ci = false ->
  forall m, In m (ac_msgs c) -> known_chan channels (am_chan m) = false.
Proof. exact C04_pruning_topic_thm. Qed.
Print Assumptions C04_pruning_topic.

Theorem C04_pruning_sound : forall (channels : list (N * channel)) ro
    (pairs : list (chunkindex * achunk)) (prune_topics : bool),
  Forall (fun p => ci_start (fst p) = ac_start (snd p) /\ ci_end (fst p) = ac_end (snd p) /\
                   chunk_wf (snd p) /\
                   (forall m, In m (ac_msgs (snd p)) ->
                      exists kv, In kv (ci_mioffsets (fst p)) /\ fst kv = am_chan m)) pairs ->
  let sel := tw_sel channels ro in
  let keep p := ci_time_ok ro false (fst p) && (negb prune_topics || ci_topic_ok channels (fst p)) in
  filter sel (all_msgs (map snd (filter keep pairs))) = filter sel (all_msgs (map snd pairs)).
Proof. exact C04_pruning_sound_thm. Qed.
Print Assumptions C04_pruning_sound.

(* no restriction: every log time, including 2^64-1, is inside the window *)
Theorem C04_default_all : forall t, in_window (finalize default_ropts) t = true.
Proof. exact C04_default_all_thm. Qed.
Print Assumptions C04_default_all.

(* the four spellings of [s, e) with 0 < e mean the same window (the bound e < 2^63 of the
   int64 API is not needed in the model: After/Before take a Z) *)
Theorem C04_spellings : forall s e : N, s <= e -> 0 < e ->
  exists r1 r2 r3 r4,
    apply_opts [OAfterNanos s; OBeforeNanos e] default_ropts = Ok r1 /\
    apply_opts [OBeforeNanos e; OAfterNanos s] default_ropts = Ok r2 /\
    apply_opts [OAfter (Z.of_N s); OBefore (Z.of_N e)] default_ropts = Ok r3 /\
    apply_opts [OBefore (Z.of_N e); OAfter (Z.of_N s)] default_ropts = Ok r4 /\
    forall t, in_window (finalize r1) t = (s <=? t) && (t <? e) /\
              in_window (finalize r2) t = (s <=? t) && (t <? e) /\
              in_window (finalize r3) t = (s <=? t) && (t <? e) /\
              in_window (finalize r4) t = (s <=? t) && (t <? e).
Proof. exact C04_spellings_thm. Qed.
Print Assumptions C04_spellings.

Theorem C04_spellings_nanos : forall s e : N, s <= e ->
  exists r1 r2,
    apply_opts [OAfterNanos s; OBeforeNanos e] default_ropts = Ok r1 /\
    apply_opts [OBeforeNanos e; OAfterNanos s] default_ropts = Ok r2 /\
    forall t, in_window (finalize r1) t = (s <=? t) && (t <? e) /\
              in_window (finalize r2) t = (s <=? t) && (t <? e).
Proof. exact C04_spellings_nanos_thm. Qed.
Print Assumptions C04_spellings_nanos.

(* known finding *)
Theorem C04_before_zero_refuted :
  (exists r, apply_opts [OBefore 0] default_ropts = Ok r /\ forall t, in_window (finalize r) t = true) /\
  (exists r, apply_opts [OBeforeNanos 0] default_ropts = Ok r /\ forall t, in_window (finalize r) t = false).
Proof. exact C04_before_zero_refuted_thm. Qed.
Print Assumptions C04_before_zero_refuted.

(* an inverted window is rejected, whichever option comes first ... *)
Theorem C04_window_errors : forall s e : N, e < s ->
  apply_opts [OAfterNanos s; OBeforeNanos e] default_ropts = Err EOther /\
  apply_opts [OBeforeNanos e; OAfterNanos s] default_ropts = Err EOther /\
  apply_opts [OAfter (Z.of_N s); OBefore (Z.of_N e)] default_ropts = Err EOther /\
  (0 < e -> apply_opts [OBefore (Z.of_N e); OAfter (Z.of_N s)] default_ropts = Err EOther).
Proof. exact C04_window_errors_thm. Qed.
Print Assumptions C04_window_errors.

(* ... except Before(0) followed by After(s), same known finding *)
Theorem C04_window_errors_before_zero_refuted : forall s : N, 0 < s ->
  exists r, apply_opts [OBefore 0; OAfter (Z.of_N s)] default_ropts = Ok r /\
            forall t, in_window (finalize r) t = (s <=? t).
Proof. exact C04_window_errors_before_zero_refuted_thm. Qed.
Print Assumptions C04_window_errors_before_zero_refuted.

(* ----- non-vacuity ----- *)
Example C04_ex_exact :
  uids (a_read sel_chan1 LogTimeOrder 4 12 ex_cks) = Some ([0; 5; 1; 4; 7; 8; 9]%nat, (2, 2)%nat) /\
  uids (a_read sel_all FileOrder 4 12 ex_cks) = Some ([4; 5; 6; 7; 8; 9; 10; 0; 1; 2; 3]%nat, (1, 1)%nat).
Proof. exact (conj ex_logtime_chan1 ex_file). Qed.
Example C04_ex_spellings : (5 <= 9) /\ (0 < 9).
Proof. exact ex_spellings. Qed.
Example C04_ex_window_errors : 9 < 12 /\ 0 < 9.
Proof. exact ex_window_errors. Qed.
Example C04_ex_pruning_time :
  ci_start ex_ci = ac_start exA /\ ci_end ex_ci = ac_end exA /\ chunk_wf exA /\ ci_time_ok ex_ro false ex_ci = false.
Proof. exact ex_pruning_time. Qed.
Example C04_ex_pruning_topic :
  (forall m, In m (ac_msgs exA) -> exists kv, In kv (ci_mioffsets ex_ci) /\ fst kv = am_chan m) /\
  ci_topic_ok ex_channels ex_ci = false.
Proof. exact ex_pruning_topic. Qed.
