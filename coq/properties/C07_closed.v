(* C07_closed - companion of C07.v for WRITER-PRODUCED files: hypotheses about the writer's inputs
   only (writer_ok, see C09_closed.v), R = W o lib comp None (cs' ++ [CClose]); the chunk /
   attachment is located in the ghost trace of the run, `rev (w_trace (r_final R)) = pre ++ it :: post`
   (file_of R = render of that trace: C01_file_is_trace), and the damage is expressed on the BYTES of
   the file.  All proofs are in theories/Closed2.v: compositions of C07.v's theorems with
   C01_closed.writer_trace_wf / writer_trace_fuel / writer_trace_struct.

   chunk_front pre k (Closed2.v) = the bytes of the file in front of the stored payload of chunk k:
   the items before it, the 9-byte record head, the chunk header fields
   (length = |render pre| + 9 + 40 + |compression name|: Closed2.chunk_front_length).

   1. C07_closed_chunk_byte   writer with CRCs on and no compression, validating lexer: the file is
        front ++ payload ++ back, the chunk's CRC field is crc32 of the payload, and replacing ANY
        single payload byte makes the lexer deliver exactly the events in front of the chunk and
        then ErrInvalidChunkCRC (or, with EmitInvalidChunks, the marker followed by exactly the
        events after the chunk) - no record of the damaged chunk is ever delivered.
        The side condition crc32 (payload) <> 0 is NOT implied by o_crc o = true and cannot be
        dropped: a stored chunk CRC of 0 means "no CRC" to the lexer (C07.v hypothesis
        k_crc k <> 0), so a chunk whose CRC-32 happens to be 0 is never checked.
   2. C07_closed_chunk_general  any compression, the stored payload replaced by arbitrary bytes of
        the same length: the four outcomes of C07_chunk_general.
   3. C07_closed_attachment   one content byte (att_content_flip: data, name, media type, log time,
        create time) of an attachment of the file replaced: it is one byte of the file, and the
        callback gets a computed CRC that differs from the stored one.  The stored CRC is the
        CRC-32 of fields ++ data whether or not the writer has CRCs enabled. *)
From Mcap Require ConstsTie LayoutTie DecisionTieL. (* regenerated ties to /repo's source that this property's model relies on *)
From Coq Require Import List NArith ZArith Bool.
From Coq.Strings Require Import Byte.
From Mcap Require Import Bytes GoSem Crc32 Records RecordsFacts Writer WriterFactsA WriterFactsB
  Lexer LexSpec LexerFactsB ComposeFacts C01Closed Closed2.
Import ListNotations.
Open Scope N_scope.

Theorem C07_closed_chunk_byte : forall o lib comp lo ds cs' sk pre k post,
  writer_ok o lib comp lo ds cs' ->
  o_crc o = true -> o_comp o = [] -> mem_bytes [] (lo_custom lo) = false ->
  lo_validate lo = true -> lo_emit_chunks lo = false ->
  let R := W o lib comp None (cs' ++ [CClose]) in
  rev (w_trace (r_final R)) = pre ++ IChunk k :: post ->
  crc32 (k_records k) <> 0 ->
  k_comp k = [] /\ k_crc k = crc32 (k_records k) /\
  file_of R = chunk_front pre k ++ k_records k ++ render post /\
  forall p1 b b' p2, k_records k = p1 ++ b :: p2 -> b <> b' ->
  forall fuel, (fuel_of (file_of R) cs' <= fuel)%nat ->
  exists st, lex_all lo ds fuel (src_of (chunk_front pre k ++ (p1 ++ b' :: p2) ++ render post) sk) =
    if lo_emit_invalid lo
    then Ok (file_events lo ds pre ++ EvInvalidChunk :: file_events lo ds post, EEOF, st)
    else Ok (file_events lo ds pre, EInvalidChunkCrc, st).
Proof. exact C07_closed_chunk_byte_thm. Qed.
Print Assumptions C07_closed_chunk_byte.

Theorem C07_closed_chunk_general : forall o lib comp lo ds cs' sk pre k post recs',
  writer_ok o lib comp lo ds cs' ->
  lo_validate lo = true -> lo_emit_chunks lo = false ->
  let R := W o lib comp None (cs' ++ [CClose]) in
  let items := rev (w_trace (r_final R)) in
  items = pre ++ IChunk k :: post ->
  k_crc k <> 0 -> blen recs' = blen (k_records k) ->
  file_of R = chunk_front pre k ++ k_records k ++ render post /\
  forall fuel, (fuel_of (file_of R) cs' <= fuel)%nat ->
  let r := lex_all lo ds fuel (src_of (chunk_front pre k ++ recs' ++ render post) sk) in
  (exists st, r = Ok (file_events lo ds items, EEOF, st))
  \/ (exists e st, r = Ok (file_events lo ds pre, e, st) /\ (e = EEOF -> codec_reports_eof lo ds k recs'))
  \/ (lo_emit_invalid lo = true /\ lextends (file_events lo ds pre ++ [EvInvalidChunk]) r)
  \/ crc_collision lo ds k recs'.
Proof. exact C07_closed_chunk_general_thm. Qed.
Print Assumptions C07_closed_chunk_general.

Theorem C07_closed_attachment : forall o lib comp lo ds cs' sk pre a data crc post a' data',
  writer_ok o lib comp lo ds cs' ->
  lo_cb lo = CbFull -> lo_compute_acrc lo = true ->
  let R := W o lib comp None (cs' ++ [CClose]) in
  rev (w_trace (r_final R)) = pre ++ IAttach a data crc :: post ->
  att_content_flip a data a' data' ->
  crc = crc32 (enc_attachment_fields a ++ data) /\
  (exists hd p1 b b' p2,
     file_of R = render pre ++ (hd ++ p1 ++ b :: p2 ++ u32 crc) ++ render post /\
     render (pre ++ IAttach a' data' crc :: post) = render pre ++ (hd ++ p1 ++ b' :: p2 ++ u32 crc) ++ render post /\
     b <> b' /\ length hd = 9%nat) /\
  forall fuel, (fuel_of (file_of R) cs' <= fuel)%nat ->
  exists st ob c1 c2,
    lex_all lo ds fuel (src_of (render (pre ++ IAttach a' data' crc :: post)) sk)
      = Ok (file_events lo ds pre ++ EvAttachment ob :: file_events lo ds post, EEOF, st)
    /\ ao_name ob = a_name a' /\ ao_data ob = data'
    /\ ao_computed ob = Ok c1 /\ ao_parsed ob = Ok c2 /\ c1 <> c2.
Proof. exact C07_closed_attachment_thm. Qed.
Print Assumptions C07_closed_attachment.

(* ----- non-vacuity: the first workload of C01_closed.v.  Its trace (ex2_items) has the first
   chunk at index 2 (file bytes 27-163, payload = 87 bytes from byte 76: schema, channel,
   message 10) and the attachment at index 6 ----- *)
Example C07_closed_ex_chunk_hyps : forall emit_invalid,
  writer_ok ex_o ex_lib ex_comp (ex_lopts true emit_invalid CbFull) ds_id ex_cs_pre /\
  o_crc ex_o = true /\ o_comp ex_o = [] /\ mem_bytes [] (lo_custom (ex_lopts true emit_invalid CbFull)) = false /\
  rev (w_trace (r_final ex2_R)) = ex2_pre ++ IChunk ex2_k :: ex2_post /\
  crc32 (k_records ex2_k) <> 0 /\
  k_records ex2_k = ex2_p1 ++ ex2_b :: ex2_p2 /\ ex2_b <> xff /\
  length (chunk_front ex2_pre ex2_k) = 76%nat /\ length (k_records ex2_k) = 87%nat.
Proof. exact ex2_C07_chunk_hyps. Qed.

(* the remaining hypotheses of C07_closed_chunk_general, for the same replacement *)
Example C07_closed_ex_general_hyps :
  In (IChunk ex2_k) (rev (w_trace (r_final ex2_R))) /\ k_crc ex2_k <> 0 /\
  blen (ex2_p1 ++ xff :: ex2_p2) = blen (k_records ex2_k).
Proof. exact ex2_C07_general_hyps. Qed.

(* computed on the two models, independently of the theorem: byte 160 of the file (the first data
   byte of message 10, payload byte 84) replaced by 0xff.  lex_tags: opcodes of the tokens (None =
   invalid-chunk marker or attachment callback) and the final error. *)
Example C07_closed_ex_chunk_computed :
  ex2_damaged = chunk_front ex2_pre ex2_k ++ (ex2_p1 ++ xff :: ex2_p2) ++ render ex2_post /\
  ex2_damaged <> ex2_file /\ length ex2_damaged = length ex2_file /\
  firstn 160 ex2_damaged = firstn 160 ex2_file /\ skipn 161 ex2_damaged = skipn 161 ex2_file /\
  lex_tags (lex_all (ex_lopts true false CbFull) ds_id 1171 (src_of ex2_damaged false))
    = Some ([Some OpHeader], EInvalidChunkCrc) /\
  lex_tags (lex_all (ex_lopts true true CbFull) ds_id 1171 (src_of ex2_damaged false))
    = Some ([Some OpHeader; None; Some OpMessageIndex; Some OpMessage; Some OpMessage; Some OpMessageIndex; None;
             Some OpMetadata; Some OpDataEnd; Some OpSchema; Some OpChannel; Some OpStatistics;
             Some OpChunkIndex; Some OpChunkIndex; Some OpAttachmentIndex; Some OpMetadataIndex;
             Some OpSummaryOffset; Some OpSummaryOffset; Some OpSummaryOffset; Some OpSummaryOffset;
             Some OpSummaryOffset; Some OpSummaryOffset; Some OpFooter], EEOF) /\
  (* without validation the altered message comes back unnoticed *)
  lex_tags (lex_all (ex_lopts false false CbFull) ds_id 1171 (src_of ex2_damaged false))
    = lex_tags (lex_all (ex_lopts false false CbFull) ds_id 1171 (src_of ex2_file false)).
Proof. split; [reflexivity|exact ex2_C07_chunk_computed]. Qed.

Example C07_closed_ex_attachment_hyps :
  writer_ok ex_o ex_lib ex_comp ex_lo ds_id ex_cs_pre /\ lo_cb ex_lo = CbFull /\ lo_compute_acrc ex_lo = true /\
  rev (w_trace (r_final ex2_R)) = ex2_apre ++ IAttach WriterFactsB.ex_att ex2_adata ex2_acrc :: ex2_apost /\
  att_content_flip WriterFactsB.ex_att ex2_adata ex2_att' [x0a; xff; x0c].
Proof. exact ex2_C07_attachment_hyps. Qed.

Example C07_closed_ex_attachment_computed :
  match lex_all ex_lo ds_id 1171
          (src_of (render (ex2_apre ++ IAttach ex2_att' [x0a; xff; x0c] ex2_acrc :: ex2_apost)) false) with
  | Ok (evs, EEOF, _) =>
    length evs = 25%nat /\
    match nth 8 evs EvInvalidChunk with
    | EvAttachment ob => ao_data ob = [x0a; xff; x0c] /\ ao_parsed ob = Ok ex2_acrc /\
                         exists c, ao_computed ob = Ok c /\ c <> ex2_acrc
    | _ => False
    end
  | _ => False
  end.
Proof. exact ex2_C07_attachment_computed. Qed.
