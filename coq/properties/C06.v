(* C06 - CRC fields cover exactly the byte ranges the specification defines.
   All statements are about fault-free runs (flt = None) in which NewWriter and every call
   succeed and whose call list is cs' ++ [CClose] with no CClose in cs' (C06_hyps).
   Byte ranges are expressed through the ghost trace: the file equals the concatenation of
   the rendered trace items (second conjunct of C06_structure), so "the bytes before the
   DataEnd record" are `concat (map render_item Tpre)` etc. *)
From Mcap Require ConstsTie LayoutTie. (* regenerated ties to /repo's source that this property's model relies on *)
From Coq Require Import List NArith ZArith Bool.
From Coq.Strings Require Import Byte.
From Mcap Require Import Bytes GoSem Crc32 Records Writer WriterFactsB.
Import ListNotations.
Open Scope N_scope.

(* running invariants of the writeSizer before Close: size and CRC track the bytes written *)
Theorem C06_running : forall o lib comp cs,
  let R := W o lib comp None cs in
  r_new R = None ->
  Forall (fun x : option err * nat => fst x = None) (r_calls R) ->
  Forall (fun c => c <> CClose) cs ->
  let s := r_final R in
  file_of R = concat (map render_item (rev (w_trace s))) /\
  w_size s = blen (file_of R) /\
  w_crc s = (if o_crc o then crc_update crc_init (file_of R) else crc_init).
Proof. exact C06_running_thm. Qed.
Print Assumptions C06_running.

(* the whole file layout with both section CRCs and the per-item CRC facts *)
Theorem C06_structure : forall o lib comp cs',
  C06_hyps o lib comp cs' ->
  let R := W o lib comp None (cs' ++ [CClose]) in
  exists Tpre Tsum ss sos c1 c2,
    rev (w_trace (r_final R)) =
      Tpre ++ IRec OpDataEnd (enc_dataend {| de_crc := c1 |}) :: Tsum ++ [IFooter ss sos c2; IMagic] /\
    file_of R = concat (map render_item (rev (w_trace (r_final R)))) /\
    c1 = (if o_crc o then crc32 (concat (map render_item Tpre)) else 0) /\
    c2 = (if o_crc o then crc32 (concat (map render_item Tsum) ++ firstn 25 (render_item (IFooter ss sos c2))) else 0) /\
    Forall (item_ok o comp) (w_trace (r_final R)).
Proof. exact C06_structure_thm. Qed.
Print Assumptions C06_structure.

(* data_section_crc = CRC-32 of every byte from the start of the file up to the DataEnd record *)
Theorem C06_data_crc : forall o lib comp cs',
  C06_hyps o lib comp cs' ->
  let R := W o lib comp None (cs' ++ [CClose]) in
  exists Tpre Tpost c,
    rev (w_trace (r_final R)) = Tpre ++ IRec OpDataEnd (enc_dataend {| de_crc := c |}) :: Tpost /\
    file_of R = concat (map render_item Tpre) ++ render_item (IRec OpDataEnd (enc_dataend {| de_crc := c |}))
                ++ concat (map render_item Tpost) /\
    c = (if o_crc o then crc32 (concat (map render_item Tpre)) else 0).
Proof. exact C06_data_crc_thm. Qed.
Print Assumptions C06_data_crc.

(* summary_crc = CRC-32 of the bytes after the DataEnd record up to and including the first
   25 bytes of the footer record (opcode, length, summary_start, summary_offset_start) *)
Theorem C06_summary_crc : forall o lib comp cs',
  C06_hyps o lib comp cs' ->
  let R := W o lib comp None (cs' ++ [CClose]) in
  exists Tpre c1 Tsum ss sos c,
    rev (w_trace (r_final R)) =
      Tpre ++ IRec OpDataEnd (enc_dataend {| de_crc := c1 |}) :: Tsum ++ [IFooter ss sos c; IMagic] /\
    file_of R = concat (map render_item Tpre) ++ render_item (IRec OpDataEnd (enc_dataend {| de_crc := c1 |}))
                ++ concat (map render_item Tsum) ++ render_item (IFooter ss sos c) ++ magic /\
    c = (if o_crc o then crc32 (concat (map render_item Tsum) ++ firstn 25 (render_item (IFooter ss sos c))) else 0).
Proof. exact C06_summary_crc_thm. Qed.
Print Assumptions C06_summary_crc.

(* every chunk's uncompressed_crc is the CRC-32 of the uncompressed records (0 without CRCs) *)
Theorem C06_chunk_crc : forall o lib comp cs',
  C06_hyps o lib comp cs' ->
  let R := W o lib comp None (cs' ++ [CClose]) in
  forall k, In (IChunk k) (w_trace (r_final R)) ->
  exists n plain, k_records k = comp n plain /\ k_usize k = blen plain /\
                  k_crc k = (if o_crc o then crc32 plain else 0).
Proof. exact C06_chunk_crc_thm. Qed.
Print Assumptions C06_chunk_crc.

(* every attachment crc is the CRC-32 of log_time .. data, whether or not CRCs are enabled *)
Theorem C06_attach_crc : forall o lib comp cs',
  C06_hyps o lib comp cs' ->
  let R := W o lib comp None (cs' ++ [CClose]) in
  forall a data crc, In (IAttach a data crc) (w_trace (r_final R)) ->
  crc = crc32 (enc_attachment_fields a ++ data).
Proof. exact C06_attach_crc_thm. Qed.
Print Assumptions C06_attach_crc.

(* ----- non-vacuity: a chunked workload with 2 chunks, an attachment and metadata ----- *)
Example C06_ex_hyps : C06_hyps ex_o ex_lib ex_comp ex_cs_pre.
Proof.
  unfold C06_hyps. split; [vm_compute; reflexivity|]. split.
  - vm_compute. repeat constructor.
  - unfold ex_cs_pre. repeat constructor; discriminate.
Qed.
Example C06_ex_hyps_nocrc : C06_hyps ex_o_nocrc ex_lib ex_comp ex_cs_pre.
Proof.
  unfold C06_hyps. split; [vm_compute; reflexivity|]. split.
  - vm_compute. repeat constructor.
  - unfold ex_cs_pre. repeat constructor; discriminate.
Qed.
Example C06_ex_running_hyps :
  let R := W ex_o ex_lib ex_comp None ex_cs_pre in
  r_new R = None /\
  forallb (fun x : option err * nat => match fst x with None => true | _ => false end) (r_calls R) = true /\
  length (file_of R) = 436%nat.
Proof. vm_compute. repeat split. Qed.
(* the trace really contains chunks and an attachment; and, computed independently of the
   theorems, the CRC fields found in the output bytes cover the stated ranges:
   DataEnd record at offset 436, summary section from 449, footer at 978, file length 1015 *)
Example C06_ex_content :
  let R := W ex_o ex_lib ex_comp None ex_cs in
  let file := file_of R in
  length (filter is_chunk (w_trace (r_final R))) = 2%nat /\
  length (filter is_attach (w_trace (r_final R))) = 1%nat /\
  length file = 1015%nat /\
  sub file 436 13 = frame OpDataEnd (u32 (crc32 (firstn 436 file))) /\
  crc32 (firstn 436 file) = 3667582825 /\
  sub file 978 9 = frame_head OpFooter 20 /\
  unle (sub file 1003 4) = crc32 (sub file 449 554) /\
  sub file 1007 8 = magic.
Proof. vm_compute. repeat split. Qed.
Example C06_ex_content_nocrc :
  let R := W ex_o_nocrc ex_lib ex_comp None ex_cs in
  let file := file_of R in
  length file = 1015%nat /\
  sub file 436 13 = frame OpDataEnd (u32 0) /\
  unle (sub file 1003 4) = 0.
Proof. vm_compute. repeat split. Qed.
