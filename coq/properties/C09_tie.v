(* C09 (companion of C07_tie) / C09 / C10 / C15 (source tie) - the decisions of Lexer.Next, loadChunk and makeSafe that these properties rest on
   are the ones written in go/mcap's lexer.go and mcap.go today: `go_lx_*` / `go_make_safe_ok` are regenerated from the Go
   AST on every run (theories/DecisionsL_gen.v); proofs: theories/DecisionTieL.v. *)
From Mcap Require ConstsTie LayoutTie DecisionTieL. (* regenerated ties to /repo's source that this property's model relies on *)
From Coq Require Import List NArith ZArith Bool.
From RecordUpdate Require Import RecordSet.
From Mcap Require Import Bytes GoSem Records Lexer Writer Reader DecisionsL_gen DecisionTieL.
Import ListNotations RecordSetNotations.
Open Scope N_scope.

(* C09 / C15: how the end of the input is classified *)
Theorem C09_tie_leave_chunk : forall (lo : lopts) (dstream : doracle) f pcap s evs hd e r1,
  rd_full 9 (cur s) = (hd, Some e, r1) ->
  go_lx_leave_chunk (match lx_chunk s with Some _ => true | None => false end)
                    (err_eqb e EEOF) (err_eqb e EUnexpectedEOF || err_eqb e ETruncated) = true ->
  lex_next lo dstream (S f) pcap s evs = lex_next lo dstream f pcap (set_cur r1 s <| lx_chunk := None |>) evs.
Proof. exact lex_next_leave_chunk. Qed.
Print Assumptions C09_tie_leave_chunk.
Theorem C09_tie_closing_magic : forall (lo : lopts) (dstream : doracle) f pcap s evs hd e r1,
  rd_full 9 (cur s) = (hd, Some e, r1) ->
  go_lx_leave_chunk (match lx_chunk s with Some _ => true | None => false end)
                    (err_eqb e EEOF) (err_eqb e EUnexpectedEOF || err_eqb e ETruncated) = false ->
  (err_eqb e EUnexpectedEOF || err_eqb e ETruncated) = true ->
  lex_next lo dstream (S f) pcap s evs =
  Ok (evs, NErr (if go_lx_magic_end hd then EEOF else ETruncated), set_cur r1 s).
Proof. exact lex_next_magic_end. Qed.
Print Assumptions C09_tie_closing_magic.
