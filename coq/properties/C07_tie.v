(* C07 / C09 / C10 / C15 (source tie) - the decisions of Lexer.Next, loadChunk and makeSafe that these properties rest on
   are the ones written in go/mcap's lexer.go and mcap.go today: `go_lx_*` / `go_make_safe_ok` are regenerated from the Go
   AST on every run (theories/DecisionsL_gen.v); proofs: theories/DecisionTieL.v. *)
From Mcap Require ConstsTie LayoutTie DecisionTieL. (* regenerated ties to /repo's source that this property's model relies on *)
From Coq Require Import List NArith ZArith Bool.
From RecordUpdate Require Import RecordSet.
From Mcap Require Import Bytes GoSem Records Lexer Writer Reader DecisionsL_gen DecisionTieL.
Import ListNotations RecordSetNotations.
Open Scope N_scope.


(* C07: a chunk is rejected exactly when a CRC is stored and differs from the computed one *)
Theorem C07_tie_crc_test : forall ucrc crc : N, go_lx_crc_mismatch ucrc crc = (0 <? ucrc) && negb (crc =? ucrc).
Proof. exact tie_lx_crc_mismatch. Qed.
Print Assumptions C07_tie_crc_test.
