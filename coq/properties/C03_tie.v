(* C03 / C02 / C04 / C12 (source tie) - the decisions that C03's theorems reason about are the decisions written in
   go/mcap's indexed_message_iterator.go, reader_options.go and mcap.go *today*: the definitions `go_*` below are
   regenerated from the Go AST on every run (theories/DecisionsR_gen.v, tools/gotrans) and each theorem equates one of them
   with the model's own definition (proofs: theories/DecisionTieR.v).  A change of a comparator, of the window test, of
   the topic pruning, of the "load the next chunk first" test, of an option validator or of `CanReadMessagesUsingIndex`
   makes one of these stop compiling, and with it every property file that requires this tie. *)
From Mcap Require ConstsTie LayoutTie DecisionTieR. (* regenerated ties to /repo's source that this property's model relies on *)
From Coq Require Import List NArith ZArith Bool.
From RecordUpdate Require Import RecordSet.
From Mcap Require Import Bytes GoSem Records Lexer Writer Reader DecisionsR_gen DecisionTieR.
Import ListNotations RecordSetNotations.
Open Scope N_scope.


(* the order in which chunks are loaded: the model's `ci_before` is the closure passed to sort.Slice, per read order *)
Theorem C03_tie_chunk_order : forall (o : rorder) (a b : chunkindex),
  ci_before o a b = match o with
                    | FileOrder => go_ci_less_FileOrder a b
                    | LogTimeOrder => go_ci_less_LogTimeOrder a b
                    | ReverseLogTimeOrder => go_ci_less_ReverseLogTimeOrder a b
                    end.
Proof. exact tie_ci_less. Qed.
Print Assumptions C03_tie_chunk_order.

(* the stable sorts of the pending queue insert a later element before an earlier one exactly when the closure passed
   to sort.SliceStable says less *)
Theorem C03_tie_queue_asc : forall (x y : entry) (r : list entry),
  en_insert_asc x (y :: r) = if go_en_less_LogTimeOrder x y then x :: y :: r else y :: en_insert_asc x r.
Proof. exact en_insert_asc_unfold. Qed.
Print Assumptions C03_tie_queue_asc.
Theorem C03_tie_queue_desc : forall (x y : entry) (r : list entry),
  en_insert_desc x (y :: r) = if go_en_less_ReverseLogTimeOrder x y then x :: y :: r else y :: en_insert_desc x r.
Proof. exact en_insert_desc_unfold. Qed.
Print Assumptions C03_tie_queue_desc.

(* a message is yielded, or the next chunk is loaded first, by the test written in NextInto *)
Theorem C03_tie_yield : forall dall ro sm f fu s e q ci rest,
  i_queue s = e :: q -> i_cis s = ci :: rest -> go_load_first ro ci e = false ->
  i_next dall ro sm f (S fu) s = Ok (yield sm e s).
Proof. exact i_next_unfold_yield. Qed.
Print Assumptions C03_tie_yield.
Theorem C03_tie_load : forall dall ro sm f fu s e q ci rest,
  i_queue s = e :: q -> i_cis s = ci :: rest -> go_load_first ro ci e = true ->
  i_next dall ro sm f (S fu) s =
  match load_chunk_i dall ro sm f ci s with
  | Ok s' => i_next dall ro sm f fu (s' <| i_cis := rest |>)
  | Err er => Ok (IEnd er, s)
  | Panic p => Panic p | Exit p => Exit p | OutOfFuel => OutOfFuel
  end.
Proof. exact i_next_unfold_load. Qed.
Print Assumptions C03_tie_load.
