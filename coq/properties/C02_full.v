(* C02, end to end over the writer model (all proofs in theories/EndToEnd.v).

   C02 - "For any file the Go writer produces with its index enabled, reading messages through the
   index in file order yields the same sequence of (schema, channel, message) triples as a
   sequential scan of the same file; when the file has no index, or its summary lacks what
   index-based reading needs, the read falls back to the scan or fails with an error - it never
   silently returns fewer messages than the scan.  Every attachment and metadata record that has
   an index entry is retrievable, with identical content, from the location the entry gives, and
   a metadata callback receives every metadata record of the file during a sequential read and
   every indexed one during an index-based read."

   1. C02.C02_full_statement (properties/C02.v) is FALSE of the model: C02_full_statement_refuted, with
      three counterexamples (found by vm_compute):
        a. index enabled, SkipStatistics, no channel written: CanReadMessagesUsingIndex says no, the
           read falls back to the scan, so "index enabled -> index-based read" fails
           (this is the behaviour the property text describes: "its summary lacks what index-based
           reading needs");
        b. a caller-supplied compressor with a compression name the reader does not know: the scan
           ends with an error (C02_counterexample_unknown_compression);
        c. model only: compression name "" with a compressor that is not the identity
           (C02_counterexample_empty_name); the Go writer has no compressor when the name is empty.
   2. The corrected statement C02_full_corrected_statement is proved: C02_full_partial.  It is
      C02_full_statement with these additional hypotheses, all stated explicitly:
        comp_ok     compression name "", zstd or lz4 when chunked; with "" the compressor is the identity;
        call_small  schema / channel / message record bodies shorter than 2^64 bytes;
        no_header   no second WriteHeader call (needed by WriterFactsC.legal_shape, on which the shape of
                    the file rests; not known to be necessary: runs with a second header, computed by
                    vm_compute, read back correctly);
        e2e_bounds  every record body shorter than MaxInt32, every chunk decompresses to fewer than
                    MaxInt32 bytes and its header fields fit their wire formats, the statistics record and
                    the chunk index records fit their wire formats (the lexer rejects longer records with
                    ErrLengthOutOfRange, the indexed reader longer chunks; no small counterexample exists;
                    attachments, attachment / metadata index records and the footer are shown to fit);
        e2e_fuel    the fuel the model gives the lexer loop (the file size) covers the number of lexer
                    steps; C02_e2e_fuel_uncompressed discharges it when chunks are stored uncompressed
                    (or the file is not chunked); a hypothesis for compressing codecs;
      and in part (a) the clause "index enabled -> the read is index-based and ends with io.EOF" has the
      extra premise "statistics are written or a channel was written" (counterexample a).
   3. The parts as separate theorems: C02_e2e_info, C02_e2e_dispatch, C02_e2e_file_order,
      C02_e2e_time_orders, C02_e2e_random_access, C02_e2e_callbacks. *)
From Mcap Require ConstsTie LayoutTie DecisionTieR. (* regenerated ties to /repo's source that this property's model relies on *)
From Coq Require Import List NArith ZArith Bool Permutation.
From Coq.Strings Require Import Byte.
From Mcap Require Import Bytes GoSem Crc32 Records RecordsFacts Writer WriterFactsC Lexer LexSpec LexerFactsB
  ComposeFacts Reader Iter ReaderFacts ReaderFacts2 EndToEnd.
From McapProps Require Import C02.
Import ListNotations E2E_Writer.
Open Scope N_scope.

(* ====================================================================== *)
(* 1. the statement of properties/C02.v does not hold *)

Theorem C02_full_statement_refuted : ~ C02_full_statement.
Proof. exact C02_full_statement_false_thm. Qed.
Print Assumptions C02_full_statement_refuted.

(* the run behind it: index enabled, no statistics, no channel; the default read is a scan *)
Example C02_counterexample_no_channels :
  index_enabled (effective_opts ce1_o) /\
  read_messages ds_id ce_dall ce1_file [] = Ok ce1_ri /\
  read_messages ds_id ce_dall ce1_file ([] ++ [OUsingIndex false]) = Ok ce1_rs /\
  rr_mode ce1_ri = Some MScan.
Proof. split; [repeat split|exact ce1_reads]. Qed.

Example C02_counterexample_unknown_compression :
  codec_ok ds_id ce_dall (o_comp ce2_o) ce_id /\
  r_new ce2_w = None /\ map fst (r_calls ce2_w) = [None; None; None; None; None] /\
  ce_view (read_messages ds_id ce_dall (mem_file (file_of ce2_w)) []) = Some (Some MIndexed, O, EOther) /\
  ce_view (read_messages ds_id ce_dall (mem_file (file_of ce2_w)) [OUsingIndex false]) = Some (Some MScan, O, EOther).
Proof. exact ce2_unknown_compression. Qed.

Example C02_counterexample_empty_name :
  codec_ok ce3_ds ce3_dall (o_comp x2_opts) ce3_comp /\
  r_new ce3_w = None /\ map fst (r_calls ce3_w) = [None; None; None; None; None] /\
  ce_view (read_messages ce3_ds ce3_dall (mem_file (file_of ce3_w)) []) = Some (Some MIndexed, O, EOther) /\
  ce_view (read_messages ce3_ds ce3_dall (mem_file (file_of ce3_w)) [OUsingIndex false]) = Some (Some MScan, O, ETruncated).
Proof. exact ce3_empty_name_not_identity. Qed.

(* ====================================================================== *)
(* 2. the corrected statement *)

Definition C02_full_corrected_statement : Prop :=
  forall (ds : doracle) (dall : dalloracle) (o : wopts) (lib : bytes) (compress : nat -> bytes -> bytes)
         (hd : header) (cs : list wcall),
  codec_ok ds dall (o_comp o) compress -> comp_ok o compress ->
  Forall call_wf cs -> Forall call_small cs -> no_header cs -> ids_consistent cs ->
  let w := W o lib compress None (CHeader hd :: cs ++ [CClose]) in
  all_ok w -> blen (file_of w) < two63 -> e2e_bounds w -> e2e_fuel ds w ->
  let f := mem_file (file_of w) in
  (* (a) file order: the default read (index if usable, else scan) against the forced scan *)
  (forall pre ri rs, pre = [] \/ pre = [OMetadataCb] ->
     read_messages ds dall f pre = Ok ri -> read_messages ds dall f (pre ++ [OUsingIndex false]) = Ok rs ->
     rr_end rs = EEOF /\
     (rr_end ri = EEOF -> rr_msgs ri = rr_msgs rs) /\
     (index_enabled (effective_opts o) -> o_skip_stats o = false \/ (exists c, In (CChannel c) cs) ->
      rr_mode ri = Some MIndexed /\ rr_end ri = EEOF)) /\
  (* (b) time orders: an error, or the same messages *)
  (forall ord ri rs,
     read_messages ds dall f [OInOrder ord] = Ok ri -> read_messages ds dall f [OUsingIndex false] = Ok rs ->
     rr_end ri = EEOF -> Permutation (rr_msgs ri) (rr_msgs rs)) /\
  (* (c) random access through the attachment and metadata indexes of Info *)
  (forall sm, info ds f = Ok sm ->
     (o_skip_ai o = false ->
        map (fun ai => get_attachment f (ai_offset ai)) (sm_ais sm)
        = map (fun ad => Ok (attach_obs_ra (fst ad) (snd ad) (crc32 (enc_attachment_fields (fst ad) ++ snd ad))))
              (attachments_of cs)) /\
     (o_skip_mdi o = false ->
        map (fun mx => get_metadata ds f (mx_offset mx)) (sm_mxs sm)
        = map (fun m => Ok (metadata_norm m)) (metadata_of cs))) /\
  (* (d) metadata callbacks *)
  (forall ri rs,
     read_messages ds dall f [OMetadataCb] = Ok ri -> read_messages ds dall f [OMetadataCb; OUsingIndex false] = Ok rs ->
     rr_mds rs = map metadata_norm (metadata_of cs) /\
     (rr_mode ri = Some MIndexed -> rr_end ri = EEOF ->
        rr_mds ri = if o_skip_mdi o then [] else map metadata_norm (metadata_of cs))).

Theorem C02_full_partial : C02_full_corrected_statement.
Proof. exact C02_e2e_thm. Qed.
Print Assumptions C02_full_partial.

(* the fuel hypothesis, proved from the shape of the file when chunks are stored uncompressed *)
Theorem C02_e2e_fuel_uncompressed : forall ds dall o lib compress hd cs,
  codec_ok ds dall (o_comp o) compress -> comp_ok o compress ->
  Forall call_wf cs -> Forall call_small cs -> no_header cs ->
  let w := W o lib compress None (CHeader hd :: cs ++ [CClose]) in
  all_ok w -> blen (file_of w) < two63 -> e2e_bounds w ->
  (o_chunked o = true -> o_comp o = []) -> e2e_fuel ds w.
Proof. exact C02_e2e_fuel_uncompressed_thm. Qed.
Print Assumptions C02_e2e_fuel_uncompressed.

(* ====================================================================== *)
(* 3. the parts; e2e_hyps is the conjunction of the hypotheses of C02_full_corrected_statement *)

(* Info of a written file, in terms of the writer's final state and the calls *)
Theorem C02_e2e_info : forall ds dall o lib compress hd cs, e2e_hyps ds dall o lib compress hd cs ->
  let w := W o lib compress None (CHeader hd :: cs ++ [CClose]) in
  let s := r_final w in
  exists sm, info ds (mem_file (file_of w)) = Ok sm /\
    sm_ais sm = (if o_skip_ai o then [] else w_att_indexes s) /\
    sm_mxs sm = (if o_skip_mdi o then [] else w_md_indexes s) /\
    sm_cis sm = ci_sort FileOrder (map chunkindex_norm (if o_skip_ci o then [] else w_chunk_indexes s)) /\
    sm_stats sm = (if o_skip_stats o then None else Some (statistics_norm (stats_record s))) /\
    (forall id, tab_get id (sm_channels sm) = if o_skip_rch o then None else option_map channel_norm (call_chan cs id)) /\
    (forall id, tab_get id (sm_schemas sm) = if o_skip_rsh o then None else call_schema cs id) /\
    (index_usable sm <->
       ((if o_skip_ci o then [] else w_chunk_indexes s) <> [] /\ o_skip_rch o = false /\ channel_calls cs <> [])
       \/ (o_skip_stats o = false /\ messages_of cs = [])).
Proof. exact C02_e2e_info_thm. Qed.
Print Assumptions C02_e2e_info.

(* which iterator Reader.Messages uses on a written file *)
Theorem C02_e2e_dispatch : forall ds dall o lib compress hd cs, e2e_hyps ds dall o lib compress hd cs ->
  let f := mem_file (file_of (W o lib compress None (CHeader hd :: cs ++ [CClose]))) in
  (forall os r0, index_enabled (effective_opts o) -> o_skip_stats o = false \/ (exists c, In (CChannel c) cs) ->
     apply_opts os default_ropts = Ok r0 -> ro_use_index r0 = true ->
     messages_dispatch ds f os = Ok (MIndexed, finalize r0)) /\
  (forall os r0, o_chunked o = false \/ o_skip_ci o = true \/ o_skip_rch o = true -> messages_of cs <> [] ->
     apply_opts os default_ropts = Ok r0 -> ro_use_index r0 = true ->
     messages_dispatch ds f os =
       match ro_order r0 with FileOrder => Ok (MScan, finalize r0) | _ => Err EOther end).
Proof. exact C02_e2e_dispatch_thm. Qed.
Print Assumptions C02_e2e_dispatch.

Theorem C02_e2e_file_order : forall ds dall o lib compress hd cs, e2e_hyps ds dall o lib compress hd cs ->
  let f := mem_file (file_of (W o lib compress None (CHeader hd :: cs ++ [CClose]))) in
  forall pre ri rs, pre = [] \/ pre = [OMetadataCb] ->
    read_messages ds dall f pre = Ok ri -> read_messages ds dall f (pre ++ [OUsingIndex false]) = Ok rs ->
    rr_end rs = EEOF /\
    (rr_end ri = EEOF -> rr_msgs ri = rr_msgs rs) /\
    (index_enabled (effective_opts o) -> o_skip_stats o = false \/ (exists c, In (CChannel c) cs) ->
     rr_mode ri = Some MIndexed /\ rr_end ri = EEOF).
Proof. exact C02_e2e_file_order_thm. Qed.
Print Assumptions C02_e2e_file_order.

Theorem C02_e2e_time_orders : forall ds dall o lib compress hd cs, e2e_hyps ds dall o lib compress hd cs ->
  let f := mem_file (file_of (W o lib compress None (CHeader hd :: cs ++ [CClose]))) in
  forall ord ri rs,
    read_messages ds dall f [OInOrder ord] = Ok ri -> read_messages ds dall f [OUsingIndex false] = Ok rs ->
    rr_end ri = EEOF -> Permutation (rr_msgs ri) (rr_msgs rs).
Proof. exact C02_e2e_time_orders_thm. Qed.
Print Assumptions C02_e2e_time_orders.

Theorem C02_e2e_random_access : forall ds dall o lib compress hd cs, e2e_hyps ds dall o lib compress hd cs ->
  let f := mem_file (file_of (W o lib compress None (CHeader hd :: cs ++ [CClose]))) in
  forall sm, info ds f = Ok sm ->
    (o_skip_ai o = false ->
       map (fun ai => get_attachment f (ai_offset ai)) (sm_ais sm)
       = map (fun ad => Ok (attach_obs_ra (fst ad) (snd ad) (crc32 (enc_attachment_fields (fst ad) ++ snd ad))))
             (attachments_of cs)) /\
    (o_skip_mdi o = false ->
       map (fun mx => get_metadata ds f (mx_offset mx)) (sm_mxs sm)
       = map (fun m => Ok (metadata_norm m)) (metadata_of cs)).
Proof. exact C02_e2e_random_access_thm. Qed.
Print Assumptions C02_e2e_random_access.

Theorem C02_e2e_callbacks : forall ds dall o lib compress hd cs, e2e_hyps ds dall o lib compress hd cs ->
  let f := mem_file (file_of (W o lib compress None (CHeader hd :: cs ++ [CClose]))) in
  forall ri rs,
    read_messages ds dall f [OMetadataCb] = Ok ri -> read_messages ds dall f [OMetadataCb; OUsingIndex false] = Ok rs ->
    rr_mds rs = map metadata_norm (metadata_of cs) /\
    (rr_mode ri = Some MIndexed -> rr_end ri = EEOF ->
       rr_mds ri = if o_skip_mdi o then [] else map metadata_norm (metadata_of cs)).
Proof. exact C02_e2e_callbacks_thm. Qed.
Print Assumptions C02_e2e_callbacks.

(* ====================================================================== *)
(* non-vacuity: three runs of the same calls (schema, two channels - one with schema id 0 -, four
   messages with out-of-order log times, an attachment from a two-fragment source, a metadata record)
   satisfy every hypothesis: chunk size 1 without compression (four chunks); chunk size 40 with a codec
   that changes the bytes under the name zstd; not chunked and no summary section *)
Example C02_e2e_ex_uncompressed : e2e_hyps ds_id ce_dall y_o [x6c] ce_id ex_hd ex_cs.
Proof. exact ex1_hyps. Qed.
Example C02_e2e_ex_compressed : e2e_hyps ce3_ds ce3_dall ex2_o [x6c] ce3_comp ex_hd ex_cs.
Proof. exact ex2_hyps. Qed.
Example C02_e2e_ex_unchunked : e2e_hyps ds_id ce_dall y_o_nosummary [x6c] ce_id ex_hd ex_cs.
Proof. exact ex3_hyps. Qed.

(* the premises of the clauses about enabled / missing indexes *)
Example C02_e2e_ex_index_enabled :
  index_enabled (effective_opts y_o) /\ (exists c, In (CChannel c) ex_cs) /\
  index_enabled (effective_opts ex2_o) /\ ~ index_enabled (effective_opts y_o_nosummary) /\
  o_chunked y_o_nosummary = false /\ messages_of ex_cs <> [].
Proof. exact ex1_index_enabled. Qed.

(* the fuel hypothesis of the uncompressed run through C02_e2e_fuel_uncompressed *)
Example C02_e2e_ex_fuel : e2e_fuel ds_id (W y_o [x6c] ce_id None (CHeader ex_hd :: ex_cs ++ [CClose])).
Proof. exact ex1_fuel_applies. Qed.

(* what the readers return on the three runs, computed independently of the theorems: (mode,
   (channel id, log time) of every message, number of metadata callbacks, final error) *)
Example C02_e2e_ex_reads :
  let f1 := mem_file (file_of (W y_o [x6c] ce_id None (CHeader ex_hd :: ex_cs ++ [CClose]))) in
  let f2 := mem_file (file_of (W ex2_o [x6c] ce3_comp None (CHeader ex_hd :: ex_cs ++ [CClose]))) in
  let f3 := mem_file (file_of (W y_o_nosummary [x6c] ce_id None (CHeader ex_hd :: ex_cs ++ [CClose]))) in
  ex_view (read_messages ds_id ce_dall f1 [OMetadataCb]) = Some (Some MIndexed, [(1, 10); (2, 7); (1, 12); (2, 3)], 1%nat, EEOF) /\
  ex_view (read_messages ds_id ce_dall f1 [OMetadataCb; OUsingIndex false]) = Some (Some MScan, [(1, 10); (2, 7); (1, 12); (2, 3)], 1%nat, EEOF) /\
  ex_view (read_messages ds_id ce_dall f1 [OInOrder LogTimeOrder]) = Some (Some MIndexed, [(2, 3); (2, 7); (1, 10); (1, 12)], 0%nat, EEOF) /\
  ex_view (read_messages ce3_ds ce3_dall f2 []) = Some (Some MIndexed, [(1, 10); (2, 7); (1, 12); (2, 3)], 0%nat, EEOF) /\
  ex_view (read_messages ce3_ds ce3_dall f2 [OUsingIndex false]) = Some (Some MScan, [(1, 10); (2, 7); (1, 12); (2, 3)], 0%nat, EEOF) /\
  ex_view (read_messages ce3_ds ce3_dall f2 [OInOrder ReverseLogTimeOrder]) = Some (Some MIndexed, [(1, 12); (1, 10); (2, 7); (2, 3)], 0%nat, EEOF) /\
  ex_view (read_messages ds_id ce_dall f3 []) = Some (Some MScan, [(1, 10); (2, 7); (1, 12); (2, 3)], 0%nat, EEOF) /\
  ex_view (read_messages ds_id ce_dall f3 [OInOrder LogTimeOrder]) = Some (None, [], 0%nat, EOther).
Proof. exact ex_reads. Qed.
