(* C18 (db3 half): converting a ROS 2 SQLite bag to MCAP.
   All proofs are in theories/Db3Facts.v; the model is theories/Db3.v (go/ros/ros2db3_to_mcap.go, DB3ToMCAP) composed
   with theories/Writer.v.  SQLite is abstracted as row lists: `topics` (the rows of `select ... from topics`),
   `msgs` (the rows of `messages join topics order by timestamp`, in the order the engine returns them), and the
   result of getSchemas as an oracle value (`None`: it failed; `Some sch`: the map type -> definition).

   Vocabulary (theories/Db3Facts.v):
     msg_topics topics      the topics whose type matches \w+/msg/.* (getTopics keeps only those);
     db3_expected_calls     CHeader "ros2" :: for the i-th message topic (i from 0) CSchema (id i+1, name = type,
                            encoding "ros2msg", data = definition of the type) and CChannel (id = topic id,
                            schema i+1, topic, serialization format, offered_qos_profiles metadata)
                            ++ one CMessage per row whose topic id is the id of a message topic (sequence = number
                            of earlier rows with that topic id mod 2^32, log = publish = uint64(timestamp))
                            ++ [CClose]  (the deferred writer.Close());
     db3_accepts o ..       NewWriter accepts the options, every topic id (topics table and message rows) is a
                            uint16, every message topic's type has a definition, at most 65535 message topics
                            (C18_db3_accepts_iff).

   Deviations from the informal property, true of the model (and of the Go code it models):
     - one schema record per message TOPIC, not per distinct type (C18_db3_ex_same_type);
     - a message row whose topic id is in range but belongs to no message topic (a service/action topic, or - in the
       abstract row lists, where the inner join is not modelled - no topic at all) is SKIPPED, it is not an error
       (C18_db3_skipped_rows, C18_db3_ex_unknown_topic_no_error);
     - every failure has the error class EOther; there is no other outcome (C18_db3_error_class). *)
From Mcap Require ConstsTie LayoutTie. (* regenerated ties to /repo's source that this property's model relies on *)
From Coq Require Import List NArith ZArith Bool.
From Coq.Strings Require Import Byte.
From Mcap Require Import Bytes GoSem Records Writer WriterFactsB LexSpec ComposeFacts Db3 Db3Facts.
From Mcap Require BagFacts.
Import ListNotations.
Open Scope N_scope.

(* ---------------------------------------------------------------------------------------------- *)
(* Task 2: totality; the only outcomes are success and an error of class EOther                    *)
(* ---------------------------------------------------------------------------------------------- *)

(* db3_to_mcap is a structurally recursive function of the two row lists (no fuel parameter), its result carries an
   `option err`: in the vocabulary of GoSem.outcome it is Ok or Err for ALL inputs, never Panic / Exit / OutOfFuel *)
Theorem C18_db3_total : forall o lib compress topics schemas msgs,
  no_crash (db3_outcome (db3_to_mcap o lib compress topics schemas msgs)) = true /\
  (db3_outcome (db3_to_mcap o lib compress topics schemas msgs)
   = if db3_accepts o topics schemas msgs
     then Ok (dr_writes (db3_to_mcap o lib compress topics schemas msgs)) else Err EOther).
Proof. exact db3_total. Qed.
Print Assumptions C18_db3_total.

Theorem C18_db3_error_class : forall o lib compress topics schemas msgs,
  dr_err (db3_to_mcap o lib compress topics schemas msgs)
  = if db3_accepts o topics schemas msgs then None else Some EOther.
Proof. exact db3_to_mcap_err. Qed.
Print Assumptions C18_db3_error_class.

Theorem C18_db3_accepts_iff : forall o topics sch msgs,
  db3_accepts o topics (Some sch) msgs = true <->
  new_ok o = true /\
  (forall t, In t topics -> (0 <= t_id t <= 65535)%Z) /\
  (forall t, In t topics -> is_msg_topic t = true -> schema_of (t_type t) sch <> None) /\
  N.of_nat (length (msg_topics topics)) <= 65535 /\
  (forall m, In m msgs -> (0 <= mr_topic m <= 65535)%Z).
Proof. exact db3_accepts_iff. Qed.
Print Assumptions C18_db3_accepts_iff.

Theorem C18_db3_new_ok : forall o lib compress cs, new_ok o = true <-> r_new (W o lib compress None cs) = None.
Proof. exact new_ok_W. Qed.
Print Assumptions C18_db3_new_ok.

(* in place of a fuel bound: the conversion makes at most 2 + 2 * |topics| + |msgs| writer calls *)
Theorem C18_db3_calls_bound : forall topics sch msgs,
  (length (db3_expected_calls topics sch msgs) <= 2 + 2 * length topics + length msgs)%nat.
Proof. exact db3_calls_bound. Qed.
Print Assumptions C18_db3_calls_bound.

(* ---------------------------------------------------------------------------------------------- *)
(* Task 1: an accepted database is converted by exactly the expected writer calls                  *)
(* ---------------------------------------------------------------------------------------------- *)

Theorem C18_db3 : forall o lib compress topics sch msgs,
  db3_accepts o topics (Some sch) msgs = true ->
  db3_to_mcap o lib compress topics (Some sch) msgs
  = {| dr_err := None;
       dr_writes := r_writes (W o lib compress None (db3_expected_calls topics sch msgs));
       dr_final := r_final (W o lib compress None (db3_expected_calls topics sch msgs)) |}
  /\ BagFacts.calls_ok (W o lib compress None (db3_body_calls topics sch msgs)).
Proof. exact db3_to_mcap_accepted. Qed.
Print Assumptions C18_db3.

(* the writer accepts every expected call, the deferred Close included (no hypothesis on the writer beyond NewWriter
   accepting the options, which is part of db3_accepts) *)
Theorem C18_db3_calls_ok : forall o lib compress topics sch msgs,
  db3_accepts o topics (Some sch) msgs = true ->
  BagFacts.calls_ok (W o lib compress None (db3_expected_calls topics sch msgs)).
Proof. exact db3_expected_calls_ok. Qed.
Print Assumptions C18_db3_calls_ok.

(* the same in the shape of C18_bag *)
Theorem C18_db3_wf : forall o lib compress topics sch msgs,
  db3_wf topics sch msgs = true ->
  r_new (W o lib compress None (db3_expected_calls topics sch msgs)) = None ->
  let R := db3_to_mcap o lib compress topics (Some sch) msgs in
  dr_err R = None /\
  dr_writes R = r_writes (W o lib compress None (db3_expected_calls topics sch msgs)) /\
  dr_final R = r_final (W o lib compress None (db3_expected_calls topics sch msgs)) /\
  BagFacts.calls_ok (W o lib compress None (db3_body_calls topics sch msgs)).
Proof. exact db3_to_mcap_wf. Qed.
Print Assumptions C18_db3_wf.

(* 3 topics (the second a service topic), 2 message types, 5 rows of message topics (two with equal timestamps) and
   one row of the service topic; unchunked, one default-size chunk, a chunk every 60 bytes *)
Example C18_db3_ex : forall chunked chunksize,
  db3_accepts (ex_opts chunked chunksize) ex_topics (Some ex_sch) ex_msgs = true.
Proof. exact ex_accepted. Qed.

Example C18_db3_ex_wf :
  db3_wf ex_topics ex_sch ex_msgs = true /\
  r_new (W (ex_opts true 60) ex_lib ex_compress None (db3_expected_calls ex_topics ex_sch ex_msgs)) = None.
Proof. split; reflexivity. Qed.

(* computed independently of the theorems *)
Example C18_db3_ex_result :
  (let R := db3_to_mcap (ex_opts true 60) ex_lib ex_compress ex_topics (Some ex_sch) ex_msgs in
   dr_err R = None /\
   dr_writes R = r_writes (W (ex_opts true 60) ex_lib ex_compress None (db3_expected_calls ex_topics ex_sch ex_msgs)) /\
   length (w_chunk_indexes (dr_final R)) = 3%nat) /\
  (let R := db3_to_mcap (ex_opts true 0) ex_lib ex_compress ex_topics (Some ex_sch) ex_msgs in
   dr_err R = None /\
   dr_writes R = r_writes (W (ex_opts true 0) ex_lib ex_compress None (db3_expected_calls ex_topics ex_sch ex_msgs))) /\
  (let R := db3_to_mcap (ex_opts false 0) ex_lib ex_compress ex_topics (Some ex_sch) ex_msgs in
   dr_err R = None /\
   dr_writes R = r_writes (W (ex_opts false 0) ex_lib ex_compress None (db3_expected_calls ex_topics ex_sch ex_msgs))).
Proof. vm_compute. repeat split. Qed.

(* header; schema 1, channel 1 (schema 1); schema 2, channel 3 (schema 2); messages (1000 + 100 * channel + sequence);
   close.  The row of topic 2 (service) produces nothing. *)
Example C18_db3_ex_calls :
  map call_code (db3_expected_calls ex_topics ex_sch ex_msgs) = [1; 101; 211; 102; 232; 1100; 1300; 1101; 1301; 1102; 9].
Proof. vm_compute. reflexivity. Qed.

(* ---------------------------------------------------------------------------------------------- *)
(* Task 3: error cases; skipped rows                                                               *)
(* ---------------------------------------------------------------------------------------------- *)

(* a message row whose topic id is not a uint16 *)
Theorem C18_db3_err_row_topic_id : forall o lib compress topics schemas msgs m,
  In m msgs -> u16_ok (mr_topic m) = false ->
  dr_err (db3_to_mcap o lib compress topics schemas msgs) = Some EOther.
Proof. exact db3_err_row_topic_id. Qed.
Print Assumptions C18_db3_err_row_topic_id.
Example C18_db3_err_row_topic_id_ex :
  let m := {| mr_topic := 70000; mr_ts := 5; mr_data := [] |} in
  (In m (ex_msgs ++ [m]) /\ u16_ok (mr_topic m) = false) /\
  dr_err (db3_to_mcap (ex_opts false 0) ex_lib ex_compress ex_topics (Some ex_sch) (ex_msgs ++ [m])) = Some EOther /\
  dr_err (db3_to_mcap (ex_opts false 0) ex_lib ex_compress ex_topics (Some ex_sch)
            ({| mr_topic := -1; mr_ts := 5; mr_data := [] |} :: ex_msgs)) = Some EOther.
Proof. split; [split; [apply in_or_app; right; left; reflexivity|reflexivity]|]. vm_compute. split; reflexivity. Qed.

(* a message topic whose type has no definition in the result of getSchemas *)
Theorem C18_db3_err_schema_missing : forall o lib compress topics sch msgs t,
  In t topics -> is_msg_topic t = true -> schema_of (t_type t) sch = None ->
  dr_err (db3_to_mcap o lib compress topics (Some sch) msgs) = Some EOther.
Proof. exact db3_err_schema_missing. Qed.
Print Assumptions C18_db3_err_schema_missing.
Example C18_db3_err_schema_missing_ex :
  (exists t, In t ex_topics /\ is_msg_topic t = true /\ schema_of (t_type t) (tl ex_sch) = None) /\
  dr_err (db3_to_mcap (ex_opts false 0) ex_lib ex_compress ex_topics (Some (tl ex_sch)) ex_msgs) = Some EOther.
Proof. split; [eexists; split; [left; reflexivity|split; reflexivity]|vm_compute; reflexivity]. Qed.

(* getSchemas failed / a topic id of the topics table is not a uint16: an error, and nothing is written *)
Theorem C18_db3_err_schemas_failed : forall o lib compress topics msgs,
  let R := db3_to_mcap o lib compress topics None msgs in dr_err R = Some EOther /\ dr_writes R = [].
Proof. exact db3_err_schemas_failed. Qed.
Print Assumptions C18_db3_err_schemas_failed.

Theorem C18_db3_err_topic_id : forall o lib compress topics schemas msgs t,
  In t topics -> u16_ok (t_id t) = false ->
  let R := db3_to_mcap o lib compress topics schemas msgs in dr_err R = Some EOther /\ dr_writes R = [].
Proof. exact db3_err_topic_id. Qed.
Print Assumptions C18_db3_err_topic_id.
Example C18_db3_err_topic_id_ex :
  let t := {| t_id := 65536; t_name := []; t_type := ex_type_s; t_fmt := []; t_qos := None |} in
  In t (t :: ex_topics) /\ u16_ok (t_id t) = false.
Proof. split; [left; reflexivity|reflexivity]. Qed.

(* more than 65535 message topics: schema id uint16(i+1) wraps to 0, which WriteSchema refuses *)
Theorem C18_db3_err_too_many_topics : forall o lib compress topics schemas msgs,
  65535 < N.of_nat (length (msg_topics topics)) ->
  dr_err (db3_to_mcap o lib compress topics schemas msgs) = Some EOther.
Proof. exact db3_err_too_many_topics. Qed.
Print Assumptions C18_db3_err_too_many_topics.
Example C18_db3_err_too_many_topics_ex :
  65535 < N.of_nat (length (msg_topics ex_many_topics)).
Proof. vm_compute. reflexivity. Qed.

(* NewWriter refuses the options *)
Theorem C18_db3_err_new_writer : forall o lib compress topics schemas msgs,
  new_ok o = false -> dr_err (db3_to_mcap o lib compress topics schemas msgs) = Some EOther.
Proof. exact db3_err_new_writer. Qed.
Print Assumptions C18_db3_err_new_writer.
Example C18_db3_err_new_writer_ex :
  new_ok {| o_crc := true; o_chunked := true; o_chunksize := 0; o_comp := [x78]; o_custom := false; o_skip_mi := false;
            o_skip_stats := false; o_skip_rsh := false; o_skip_rch := false; o_skip_ai := false; o_skip_mdi := false;
            o_skip_ci := false; o_skip_so := false; o_override_lib := false; o_skip_magic := false |} = false.
Proof. reflexivity. Qed.

(* rows that are not rows of a message topic are skipped: same calls, same result, no error *)
Theorem C18_db3_row_kept_iff : forall topics m,
  row_kept (known_chans topics) m = true <->
  exists t, In t topics /\ is_msg_topic t = true /\ topic_chan t = row_chan m.
Proof. exact row_kept_iff. Qed.
Print Assumptions C18_db3_row_kept_iff.

Theorem C18_db3_expected_calls_skip : forall topics sch msgs,
  db3_expected_calls topics sch msgs = db3_expected_calls topics sch (kept_rows topics msgs).
Proof. exact db3_expected_calls_skip. Qed.
Print Assumptions C18_db3_expected_calls_skip.

Theorem C18_db3_skipped_rows : forall o lib compress topics sch msgs,
  db3_accepts o topics (Some sch) msgs = true ->
  db3_accepts o topics (Some sch) (kept_rows topics msgs) = true /\
  db3_to_mcap o lib compress topics (Some sch) msgs
  = db3_to_mcap o lib compress topics (Some sch) (kept_rows topics msgs).
Proof. exact db3_skipped_rows. Qed.
Print Assumptions C18_db3_skipped_rows.
Example C18_db3_skipped_rows_ex :
  length (kept_rows ex_topics ex_msgs) = 5%nat /\ length ex_msgs = 6%nat /\
  map mr_topic (kept_rows ex_topics ex_msgs) = [1; 3; 1; 3; 1]%Z.
Proof. vm_compute. repeat split. Qed.

(* the given statement "a message row with an unknown topic id is an error" is false of the model: topic id 99 is
   the id of no topic; the row is skipped and the output is that of the database without it *)
Example C18_db3_ex_unknown_topic_no_error :
  let m := {| mr_topic := 99; mr_ts := 5; mr_data := [x01] |} in
  let R := db3_to_mcap (ex_opts true 60) ex_lib ex_compress ex_topics (Some ex_sch) (m :: ex_msgs) in
  dr_err R = None /\
  dr_writes R = dr_writes (db3_to_mcap (ex_opts true 60) ex_lib ex_compress ex_topics (Some ex_sch) ex_msgs).
Proof. vm_compute. split; reflexivity. Qed.

(* ---------------------------------------------------------------------------------------------- *)
(* Task 4: what the expected calls are, and the content of the written file                        *)
(* ---------------------------------------------------------------------------------------------- *)

Theorem C18_db3_expected_calls_closed_form : forall topics sch msgs,
  db3_expected_calls topics sch msgs
  = (CHeader ros2_header :: topics_calls sch 0 (msg_topics topics)
     ++ map (fun x => CMessage (msg_of x)) (number_rows [] (kept_rows topics msgs))) ++ [CClose].
Proof. exact db3_expected_calls_eq. Qed.
Print Assumptions C18_db3_expected_calls_closed_form.

Theorem C18_db3_expected_messages : forall topics sch msgs,
  calls_msgs (db3_expected_calls topics sch msgs) = db3_messages topics msgs.
Proof. exact expected_messages. Qed.
Print Assumptions C18_db3_expected_messages.

Theorem C18_db3_expected_schemas : forall topics sch msgs,
  calls_schemas (db3_expected_calls topics sch msgs) = db3_schemas topics sch.
Proof. exact expected_schemas. Qed.
Print Assumptions C18_db3_expected_schemas.

Theorem C18_db3_expected_channels : forall topics sch msgs,
  calls_channels (db3_expected_calls topics sch msgs) = db3_channels topics.
Proof. exact expected_channels. Qed.
Print Assumptions C18_db3_expected_channels.

(* one message per converted row, in the order of the rows: channel = the row's topic id, log time = publish time
   = uint64(timestamp), payload = the row's data *)
Theorem C18_db3_messages_rows : forall topics msgs,
  length (db3_messages topics msgs) = length (kept_rows topics msgs) /\
  map m_chan (db3_messages topics msgs) = map row_chan (kept_rows topics msgs) /\
  map m_log (db3_messages topics msgs) = map row_time (kept_rows topics msgs) /\
  map m_pub (db3_messages topics msgs) = map row_time (kept_rows topics msgs) /\
  map m_data (db3_messages topics msgs) = map mr_data (kept_rows topics msgs).
Proof. exact db3_messages_rows. Qed.
Print Assumptions C18_db3_messages_rows.

(* the message of a converted row: its sequence number is the number of converted rows before it with the same topic
   id, mod 2^32 *)
Theorem C18_db3_messages_at : forall topics msgs l1 m l2,
  kept_rows topics msgs = l1 ++ m :: l2 ->
  exists ms1 ms2,
    db3_messages topics msgs = ms1 ++ row_message (rows_on (row_chan m) l1) m :: ms2 /\
    length ms1 = length l1 /\ length ms2 = length l2.
Proof. exact db3_messages_at. Qed.
Print Assumptions C18_db3_messages_at.
Example C18_db3_messages_at_ex :
  kept_rows ex_topics ex_msgs
  = firstn 2 (kept_rows ex_topics ex_msgs) ++ {| mr_topic := 1; mr_ts := 20; mr_data := [] |} :: skipn 3 (kept_rows ex_topics ex_msgs).
Proof. reflexivity. Qed.

Theorem C18_db3_row_message : forall n m,
  let x := row_message n m in
  m_chan x = Z.to_N (mr_topic m) /\ m_seq x = n mod two32 /\
  m_log x = Z.to_N (mr_ts m mod 18446744073709551616)%Z /\ m_pub x = m_log x /\ m_data x = mr_data m.
Proof. exact row_message_fields. Qed.
Print Assumptions C18_db3_row_message.

Theorem C18_db3_topic_schema : forall sch i t,
  let s := topic_schema sch (i, t) in
  s_id s = (i + 1) mod two16 /\ s_name s = t_type t /\ s_encoding s = s_ros2msg /\
  (forall d, schema_of (t_type t) sch = Some d -> s_data s = d).
Proof. exact topic_schema_fields. Qed.
Print Assumptions C18_db3_topic_schema.

Theorem C18_db3_topic_channel : forall i t,
  let c := topic_channel (i, t) in
  c_id c = Z.to_N (t_id t) /\ c_schema c = (i + 1) mod two16 /\ c_topic c = t_name t /\ c_menc c = t_fmt t /\
  c_meta c = match t_qos t with Some q => [(s_qos, q)] | None => [] end.
Proof. exact topic_channel_fields. Qed.
Print Assumptions C18_db3_topic_channel.

(* one schema and one channel per message topic, in the order of the topics table; schema ids 1, 2, 3, ... *)
Theorem C18_db3_schema_ids : forall topics sch,
  N.of_nat (length (msg_topics topics)) <= 65535 ->
  map s_id (db3_schemas topics sch) = map (fun x => fst x + 1) (index_from 0 (msg_topics topics)) /\
  map c_schema (db3_channels topics) = map s_id (db3_schemas topics sch) /\
  map s_name (db3_schemas topics sch) = map t_type (msg_topics topics) /\
  map c_topic (db3_channels topics) = map t_name (msg_topics topics) /\
  map c_id (db3_channels topics) = known_chans topics.
Proof. exact db3_schema_ids. Qed.
Print Assumptions C18_db3_schema_ids.
Example C18_db3_schema_ids_ex : N.of_nat (length (msg_topics ex_topics)) <= 65535.
Proof. vm_compute. discriminate. Qed.

(* every written message is on a written channel *)
Theorem C18_db3_message_channel : forall topics msgs m,
  In m (db3_messages topics msgs) -> In (m_chan m) (map c_id (db3_channels topics)).
Proof. exact db3_message_channel. Qed.
Print Assumptions C18_db3_message_channel.
Example C18_db3_message_channel_ex : exists m, In m (db3_messages ex_topics ex_msgs).
Proof. eexists. left. reflexivity. Qed.

(* the file: through the writer theorems (C01_file_is_trace, C01_trace_classes).  unz undoes the compressor oracle;
   call_small: every schema / channel / message record is shorter than 2^64 bytes *)
Theorem C18_db3_file_content : forall o lib compress unz topics sch msgs,
  db3_accepts o topics (Some sch) msgs = true ->
  (forall n plain, unz (o_comp o) (compress n plain) = plain) ->
  Forall call_small (db3_body_calls topics sch msgs) ->
  let R := db3_to_mcap o lib compress topics (Some sch) msgs in
  let recs := data_records unz (rev (w_trace (dr_final R))) in
  dr_err R = None /\
  concat (dr_writes R) = render (rev (w_trace (dr_final R))) /\
  filter (is_op OpHeader) recs
    = [CR OpHeader (enc_header {| h_profile := s_ros2; h_library := header_library o lib ros2_header |})] /\
  filter (is_op OpSchema) recs = map (fun s => CR OpSchema (enc_schema s)) (db3_schemas topics sch) /\
  filter (is_op OpChannel) recs = map (fun c => CR OpChannel (enc_channel c)) (db3_channels topics) /\
  filter (is_op OpMessage) recs = map (fun m => CR OpMessage (enc_message m)) (db3_messages topics msgs) /\
  filter is_auto recs = expected_records o lib (filter call_auto (db3_body_calls topics sch msgs)).
Proof. exact db3_file_content. Qed.
Print Assumptions C18_db3_file_content.

Example C18_db3_file_content_ex : forall chunked chunksize,
  db3_accepts (ex_opts chunked chunksize) ex_topics (Some ex_sch) ex_msgs = true /\
  (forall n plain, ex_unz (o_comp (ex_opts chunked chunksize)) (ex_compress n plain) = plain) /\
  Forall call_small (db3_body_calls ex_topics ex_sch ex_msgs).
Proof. intros. split; [apply ex_accepted|]. split; [reflexivity|exact ex_call_small]. Qed.

(* the example, evaluated: (channel, sequence, log time) of the written messages; the two rows with timestamp 20 keep
   the order in which the engine returned them *)
Example C18_db3_ex_messages :
  map (fun m => (m_chan m, m_seq m, m_log m, m_pub m)) (db3_messages ex_topics ex_msgs)
  = [(1, 0, 10, 10); (3, 0, 20, 20); (1, 1, 20, 20); (3, 1, 30, 30); (1, 2, 31, 31)] /\
  map m_data (db3_messages ex_topics ex_msgs) = map mr_data (kept_rows ex_topics ex_msgs).
Proof. vm_compute. split; reflexivity. Qed.

(* computed independently of the theorems: the message records of the data section of the written file (3 chunks) *)
Example C18_db3_ex_file_messages :
  let R := db3_to_mcap (ex_opts true 60) ex_lib ex_compress ex_topics (Some ex_sch) ex_msgs in
  filter (is_op OpMessage) (data_records ex_unz (rev (w_trace (dr_final R))))
  = map (fun m => CR OpMessage (enc_message m)) (db3_messages ex_topics ex_msgs).
Proof. vm_compute. reflexivity. Qed.

(* a negative timestamp is converted like uint64(int64) in Go *)
Example C18_db3_ex_negative_timestamp :
  map m_log (db3_messages ex_topics [{| mr_topic := 1; mr_ts := -1; mr_data := [] |}]) = [18446744073709551615].
Proof. vm_compute. reflexivity. Qed.

(* two topics with the same type: the schema is written twice, with ids 1 and 2 (one schema per message topic, not
   per distinct type) *)
Example C18_db3_ex_same_type :
  map call_code (db3_expected_calls ex_topics_same_type ex_sch []) = [1; 101; 251; 102; 262; 9] /\
  map s_name (db3_schemas ex_topics_same_type ex_sch) = [ex_type_a; ex_type_a] /\
  dr_err (db3_to_mcap (ex_opts false 0) ex_lib ex_compress ex_topics_same_type (Some ex_sch) []) = None.
Proof. vm_compute. repeat split. Qed.
