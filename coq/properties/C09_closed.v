(* C09_closed - companion of C09.v: the truncation theorems, which C09.v states for an arbitrary
   well-formed item list (wf_file), restated for the files the WRITER model produces, with
   hypotheses about the writer's inputs only.  All proofs are in theories/Closed2.v; each is the
   composition of C09_lexer / C09_cut with C01_closed.writer_trace_wf / writer_trace_fuel and
   C01_file_is_trace.

   Setting (as in C01_closed.v): R = W o lib comp None (cs' ++ [CClose]).

   writer_ok o lib comp lo ds cs'  (Closed2.v) = the hypotheses of writer_trace_wf:
       C06_hyps o lib comp cs'        NewWriter and every call succeed, no CClose in cs'
       codec_ok lo ds o comp          the lexer's decoder undoes the writer's compressor
       lo_skip_magic lo = o_skip_magic o
       o_chunked o = true -> comp_supported lo (o_comp o) = true
       lo_cb lo = CbNone \/ CbFull
       validating lexer + caller-supplied codec -> the codec preserves the length
       Forall call_times_ok cs'       64-bit log/create times
       lex_limits lo |file| Uc        the lexer's size limits are not exceeded
   content_ok o lib lo cs' = Forall call_small cs' /\ Forall (call_wf o lib) cs' /\
                             lo_emit_chunks lo = false     (the extra hypotheses of C01_closed)
   codec_prefix_ok ds      the decoder, fed a prefix of a payload, delivers a prefix of the
                           plaintext (C09.v)

   Fuel: fuel_of (file_of R) cs' + 2 = |file| + auto_bytes cs' + 3 always suffices.

   1. C09_closed          every cut position n (n >= |file| included): the read of the first n
                          bytes never crashes (Ok, or ErrBadMagic for n < 8), returns a prefix of
                          the events of the full file in the sense of C09_lexer (a last attachment
                          event may carry fewer data bytes and then has a failing ParsedCRC), and
                          every item completely before the cut is returned in full;
   2. C09_closed_cut      the sharper form of C09_cut for n < |file|;
   3. C09_closed_messages the schema/channel/message records returned decode to exactly the
                          first j such records the calls wrote (call order, written content); j is
                          at least the number of such records of the items (chunks) completely
                          before the cut;
   4. writer_chunk_events the events of a chunk of the trace are the tokens of the records the
                          writer put into it (all of them schema/channel/message records). *)
From Mcap Require ConstsTie LayoutTie DecisionTieL. (* regenerated ties to /repo's source that this property's model relies on *)
From Coq Require Import List NArith ZArith Bool.
From Coq.Strings Require Import Byte.
From Mcap Require Import Bytes GoSem Crc32 Records RecordsFacts Writer WriterFactsA WriterFactsB
  Lexer LexSpec LexerFactsB ComposeFacts C01Closed Closed2.
Import ListNotations.
Open Scope N_scope.

Theorem C09_closed : forall o lib comp lo ds cs' sk n,
  writer_ok o lib comp lo ds cs' -> codec_prefix_ok ds ->
  let R := W o lib comp None (cs' ++ [CClose]) in
  let items := rev (w_trace (r_final R)) in
  forall fuel, (fuel_of (file_of R) cs' + 2 <= fuel)%nat ->
  let r := lex_all lo ds fuel (src_of (firstn n (file_of R)) sk) in
  (lo_skip_magic lo = false /\ (n < 8)%nat /\ r = Err EBadMagic)
  \/ exists evs fin st,
       r = Ok (evs, fin, st)
       /\ event_prefix evs (file_events lo ds items)
       /\ ((length (file_of R) <= n)%nat -> evs = file_events lo ds items /\ fin = EEOF)
       /\ (forall pre it post, items = pre ++ it :: post ->
             (length (render (pre ++ [it])) <= n)%nat ->
             is_prefix (file_events lo ds (pre ++ [it])) evs).
Proof. exact C09_closed_thm. Qed.
Print Assumptions C09_closed.

Theorem C09_closed_cut : forall o lib comp lo ds cs' sk n,
  writer_ok o lib comp lo ds cs' -> codec_prefix_ok ds ->
  let R := W o lib comp None (cs' ++ [CClose]) in
  let items := rev (w_trace (r_final R)) in
  (n < length (file_of R))%nat ->
  forall fuel, (fuel_of (file_of R) cs' + 2 <= fuel)%nat ->
  let r := lex_all lo ds fuel (src_of (firstn n (file_of R)) sk) in
  (lo_skip_magic lo = false /\ (n < 8)%nat /\ r = Err EBadMagic)
  \/ exists done it post partial fin st,
       items = done ++ it :: post
       /\ (length (render done) <= n < length (render (done ++ [it])))%nat
       /\ r = Ok (file_events lo ds done ++ partial, fin, st)
       /\ event_prefix partial (item_events lo ds it).
Proof. exact C09_closed_cut_thm. Qed.
Print Assumptions C09_closed_cut.

Theorem C09_closed_messages : forall o lib comp lo ds cs' sk n,
  writer_ok o lib comp lo ds cs' -> content_ok o lib lo cs' -> codec_prefix_ok ds ->
  let R := W o lib comp None (cs' ++ [CClose]) in
  let items := rev (w_trace (r_final R)) in
  forall fuel, (fuel_of (file_of R) cs' + 2 <= fuel)%nat ->
  forall evs fin st,
    lex_all lo ds fuel (src_of (firstn n (file_of R)) sk) = Ok (evs, fin, st) ->
    let got := filter ev_auto (data_events evs) in
    map decode_event got
      = map Ok (firstn (length got) (flat_map (call_contents lo o lib) (filter call_auto cs')))
    /\ (forall pre it post, items = pre ++ it :: post ->
          (length (render (pre ++ [it])) <= n)%nat ->
          is_prefix (file_events lo ds (pre ++ [it])) evs
          /\ (length (filter ev_auto (data_events (file_events lo ds (pre ++ [it])))) <= length got)%nat).
Proof. exact C09_closed_messages_thm. Qed.
Print Assumptions C09_closed_messages.

Theorem writer_chunk_events : forall o lib comp lo ds cs' k,
  writer_ok o lib comp lo ds cs' -> lo_emit_chunks lo = false ->
  let R := W o lib comp None (cs' ++ [CClose]) in
  In (IChunk k) (rev (w_trace (r_final R))) ->
  exists j inner,
    k_records k = comp j (frames inner) /\ Forall auto_rec inner /\
    k_crc k = (if o_crc o then crc32 (frames inner) else 0) /\
    item_events lo ds (IChunk k) = map (fun r => EvToken (fst r) (snd r)) inner.
Proof. exact writer_chunk_events_thm. Qed.
Print Assumptions writer_chunk_events.

(* ----- non-vacuity: the workloads of C01_closed.v ----- *)
(* C01_closed_hyps implies writer_ok and content_ok *)
Example C09_closed_ex_of_C01_hyps : forall o lib comp lo ds cs',
  C01_closed_hyps o lib comp lo ds cs' -> writer_ok o lib comp lo ds cs' /\ content_ok o lib lo cs'.
Proof. exact writer_ok_of_closed_hyps. Qed.

Example C09_closed_ex_hyps :
  (writer_ok ex_o ex_lib ex_comp ex_lo ds_id ex_cs_pre /\ content_ok ex_o ex_lib ex_lo ex_cs_pre) /\
  (writer_ok ex_o_z ex_lib comp_z ex_lo ds_z ex_cs_pre /\ content_ok ex_o_z ex_lib ex_lo ex_cs_pre) /\
  (writer_ok ex_o_u ex_lib ex_comp ex_lo ds_z ex_cs_pre /\ content_ok ex_o_u ex_lib ex_lo ex_cs_pre) /\
  (writer_ok ex_o_big ex_lib ex_comp ex_lo ds_z ex_cs_pre /\ content_ok ex_o_big ex_lib ex_lo ex_cs_pre).
Proof. exact ex2_writer_ok. Qed.

(* the first workload under every lexer mode: validation on/off, invalid-chunk tokens on/off,
   attachment callback none/full *)
Example C09_closed_ex_hyps_modes : forall validate emit_invalid cb,
  cb = CbNone \/ cb = CbFull ->
  writer_ok ex_o ex_lib ex_comp (ex_lopts validate emit_invalid cb) ds_id ex_cs_pre /\
  content_ok ex_o ex_lib (ex_lopts validate emit_invalid cb) ex_cs_pre.
Proof. exact ex2_writer_ok_modes. Qed.

Example C09_closed_ex_codecs : codec_prefix_ok ds_id /\ codec_prefix_ok ds_z.
Proof. split; [exact ds_id_prefix_ok|exact ds_z_prefix_ok]. Qed.

(* ex2_R / ex2_file (Closed2.v) are notations for the first workload's run and file *)
Example C09_closed_ex_layout :
  length ex2_file = 1015%nat /\ (fuel_of ex2_file ex_cs_pre + 2 = 1173)%nat /\
  map (fun it => length (render_item it)) (firstn 8 (rev (w_trace (r_final ex2_R))))
    = [8; 19; 136; 31; 117; 47; 50; 28]%nat.
Proof. exact ex2_layout. Qed.

(* a chunk of the trace, for writer_chunk_events (ex2_k: the chunk at index 2) *)
Example C09_closed_ex_chunk : In (IChunk ex2_k) (rev (w_trace (r_final ex2_R))).
Proof. exact (proj1 ex2_C07_general_hyps). Qed.

(* the theorem applied: every cut of the first workload's file, every mode *)
Example C09_closed_ex_applies : forall validate cb sk n, cb = CbNone \/ cb = CbFull ->
  let lo := ex_lopts validate false cb in
  let items := rev (w_trace (r_final ex2_R)) in
  let r := lex_all lo ds_id 1173 (src_of (firstn n ex2_file) sk) in
  (lo_skip_magic lo = false /\ (n < 8)%nat /\ r = Err EBadMagic)
  \/ exists evs fin st,
       r = Ok (evs, fin, st)
       /\ event_prefix evs (file_events lo ds_id items)
       /\ ((length ex2_file <= n)%nat -> evs = file_events lo ds_id items /\ fin = EEOF)
       /\ (forall pre it post, items = pre ++ it :: post ->
             (length (render (pre ++ [it])) <= n)%nat ->
             is_prefix (file_events lo ds_id (pre ++ [it])) evs).
Proof. exact ex2_C09_applies. Qed.

(* computed on the two models, independently of the theorems: the written file cut at byte 300
   (inside the second message of the second chunk, which spans bytes 194-311).  lex_tags = the
   opcodes of the tokens returned and the final error; None = no result (here: ErrBadMagic). *)
Example C09_closed_ex_cut_300 :
  lex_tags (lex_all (ex_lopts false false CbFull) ds_id 1173 (src_of (firstn 300 ex2_file) false))
    = Some ([Some OpHeader; Some OpSchema; Some OpChannel; Some OpMessage; Some OpMessageIndex; Some OpMessage], ETruncated) /\
  lex_tags (lex_all (ex_lopts true false CbFull) ds_id 1173 (src_of (firstn 300 ex2_file) false))
    = Some ([Some OpHeader; Some OpSchema; Some OpChannel; Some OpMessage; Some OpMessageIndex], EUnexpectedEOF) /\
  lex_tags (lex_all (ex_lopts true false CbFull) ds_id 1173 (src_of (firstn 5 ex2_file) false)) = None /\
  match lex_all (ex_lopts false false CbFull) ds_id 1173 (src_of (firstn 300 ex2_file) false) with
  | Ok (evs, _, _) =>
    map decode_event (filter ev_auto (data_events evs))
    = map Ok (firstn 4 (flat_map (call_contents (ex_lopts false false CbFull) ex_o ex_lib) (filter call_auto ex_cs_pre)))
  | _ => False
  end.
Proof. exact ex2_C09_cut_300. Qed.
