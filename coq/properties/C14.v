(* C14 - destination faults and failing attachment sources.
   "No call panics" holds in the model by typing: every writer function returns
   `wres = wstate * option err`; there is no Panic constructor on this path.  The Go side of
   that clause is checked by the correspondence harness. *)
From Mcap Require ConstsTie LayoutTie. (* regenerated ties to /repo's source that this property's model relies on *)
From Coq Require Import List NArith ZArith Bool.
From Coq.Strings Require Import Byte.
From Mcap Require Import Bytes GoSem Crc32 Records Writer WriterFactsB.
Import ListNotations.
Open Scope N_scope.

(* 1. the call during which the faulty destination write happens returns an error *)
Theorem C14_error_reported : forall o lib comp cs (f : fault),
  let R := W o lib comp (Some f) cs in
  let n0 := w_nw (fst (new_writer (effective_opts o) (Some f))) in
  ((ft_index f < n0)%nat -> r_new R <> None) /\
  (forall i e n, nth_error (r_calls R) i = Some (e, n) ->
     (writes_before n0 (r_calls R) i <= ft_index f < n)%nat -> e <> None).
Proof. exact C14_error_reported_thm. Qed.
Print Assumptions C14_error_reported.

(* 2. what the destination accepted up to and including the faulty write is a prefix of the
      fault-free output *)
Theorem C14_prefix : forall o lib comp cs (f : fault),
  let R := W o lib comp (Some f) cs in
  let R0 := W o lib comp None cs in
  exists suffix, file_of R0 = concat (firstn (S (ft_index f)) (r_writes R)) ++ suffix.
Proof. exact C14_prefix_thm. Qed.
Print Assumptions C14_prefix.

(* 3. a permanent fault: nothing is accepted after the faulty write *)
Theorem C14_permanent_stops : forall o lib comp cs (f : fault),
  ft_permanent f = true ->
  let R := W o lib comp (Some f) cs in
  concat (r_writes R) = concat (firstn (S (ft_index f)) (r_writes R)).
Proof. exact C14_permanent_stops_thm. Qed.
Print Assumptions C14_permanent_stops.

(* 4. a failing or mis-sized attachment source makes WriteAttachment return an error *)
Theorem C14_source : forall o flt a src s,
  as_fail src = true \/ blen (concat (as_frags src)) <> a_size a ->
  snd (write_attachment o flt a src s) <> None.
Proof. exact C14_source_thm. Qed.
Print Assumptions C14_source.

(* ----- non-vacuity ----- *)
(* fault at write 5 (FShort), hit during call 3 (the first message, whose chunk is flushed) *)
Example C14_ex_call :
  let R := W ex_o ex_lib ex_comp (Some ex_fault) ex_cs in
  let n0 := w_nw (fst (new_writer (effective_opts ex_o) (Some ex_fault))) in
  nth_error (r_calls R) 3 = Some (Some EInjected, 6%nat) /\
  (writes_before n0 (r_calls R) 3 <=? ft_index ex_fault)%nat = true /\
  (ft_index ex_fault <? 6)%nat = true /\
  r_new R = None.
Proof. vm_compute. repeat split. Qed.

(* fault at write 0 is hit during NewWriter *)
Example C14_ex_new :
  let R := W ex_o ex_lib ex_comp (Some ex_fault_new) ex_cs in
  let n0 := w_nw (fst (new_writer (effective_opts ex_o) (Some ex_fault_new))) in
  (ft_index ex_fault_new <? n0)%nat = true /\ r_new R = Some EInjected.
Proof. vm_compute. repeat split. Qed.

(* the accepted prefix is proper and non-empty; the short write accepted 4 of 9 bytes *)
Example C14_ex_prefix :
  let R := W ex_o ex_lib ex_comp (Some ex_fault) ex_cs in
  let R0 := W ex_o ex_lib ex_comp None ex_cs in
  let p := concat (firstn (S (ft_index ex_fault)) (r_writes R)) in
  length p = 167%nat /\ length (file_of R0) = 1015%nat /\
  firstn 167 (file_of R0) = p /\
  map (@length byte) (firstn 6 (r_writes R)) = [8; 9; 10; 49; 87; 4]%nat /\
  map (@length byte) (firstn 6 (r_writes R0)) = [8; 9; 10; 49; 87; 9]%nat.
Proof. vm_compute. repeat split. Qed.

(* permanent fault: the run keeps calling Write (many more write calls), none is accepted *)
Example C14_ex_permanent :
  let R := W ex_o ex_lib ex_comp (Some ex_fault_perm) ex_cs in
  ft_permanent ex_fault_perm = true /\
  (S (ft_index ex_fault_perm) <? length (r_writes R))%nat = true /\
  length (concat (r_writes R)) = 163%nat.
Proof. vm_compute. repeat split. Qed.

(* both hypotheses of C14_source are satisfiable and lead to the expected error classes *)
Example C14_ex_source_fail :
  as_fail ex_src_fail = true /\
  snd (write_attachment ex_o None ex_att ex_src_fail init_state) = Some EInjected.
Proof. vm_compute. repeat split. Qed.
Example C14_ex_source_short :
  (blen (concat (as_frags ex_src_short)) =? a_size ex_att) = false /\
  snd (write_attachment ex_o None ex_att ex_src_short init_state) = Some EAttachmentSize.
Proof. vm_compute. repeat split. Qed.
