(* C01 - Write then sequential read returns exactly what was written.
   "Every schema, channel, message, attachment and metadata record handed to the Go writer (in any
    legal call order, under any writer configuration) is returned by a sequential read of the
    resulting file with every field byte-for-byte equal; messages come back in write order, each
    bound to the channel and schema it was written with, and attachments/metadata keep their own
    relative order.  Values already returned to the caller are not altered by later reads."

   This file is the LEXER half of the property, as a composition of the writer model (Writer.v)
   with the lexer model (Lexer.v); all proofs are in theories/ComposeFacts.v.

   Setting: fault-free runs W o lib comp None (cs' ++ [CClose]) in which NewWriter and every call
   succeed and cs' contains no CClose (C06_hyps); any options o, any compressor oracle comp.
   The header call is not required to be first (the theorems hold for every position).

   1. C01_file_is_trace     the file is the rendering of the writer's ghost trace.
   2. C01_trace_content /   the data section of the trace (everything before the DataEnd record),
      C01_trace_classes     with every chunk replaced by the records of its uncompressed content
                            and message-index records ignored, holds exactly the records the
                            calls asked for - per class: schema/channel/message records in their
                            mutual call order, header/attachment/metadata records in their mutual
                            call order.  The relative order BETWEEN the two classes is not
                            preserved by a chunked writer (attachments and metadata bypass the
                            chunk buffer: ComposeFacts.ex_layouts exhibits a file in which the
                            attachment precedes messages written before it); the property only
                            claims the order within each class.
   3. C01_lexer             the lexer model, run on the file, returns file_events of the trace,
                            for every lexer configuration for which the trace is a well-formed
                            file (wf_file: sizes below MaxRecordSize / MaxInt32, the decoder
                            accepts the chunks); wf_file is kept as a hypothesis and is
                            established by computation for the example workloads.
   4. C01_events /          the tokens of the data section, per class, are the tokens of the
      C01_roundtrip /       written records, in order; parsing their bodies (parse_* of
      C01_lexer_roundtrip   Records.v, the model of parse.go) gives back the written values
                            (metadata maps of channels and metadata records sorted by key, as Go
                            maps carry no order); attachment events carry the written fields,
                            the concatenated data and the CRC-32 of fields ++ data.

   Not covered here, tied by the correspondence harness (check_c01 in /verif/tools/props.py):
   the non-indexed message iterator half (channel/schema binding of each message; reader
   correspondence cases `messages` and `messages into`), and the clause "values already returned
   are not altered by later reads" (the model's events are immutable values; aliasing of reused Go
   buffers can only be observed on the Go side, which the harness does with its buffer-reuse
   lexer cases). *)
From Mcap Require ConstsTie LayoutTie. (* regenerated ties to /repo's source that this property's model relies on *)
From Coq Require Import List NArith ZArith Bool.
From Coq.Strings Require Import Byte.
From Mcap Require Import Bytes GoSem Crc32 Records RecordsFacts Writer WriterFactsA WriterFactsB
  Lexer LexSpec LexerFactsB ComposeFacts.
Import ListNotations.
Open Scope N_scope.

Theorem C01_file_is_trace : forall o lib comp cs',
  C06_hyps o lib comp cs' ->
  let R := W o lib comp None (cs' ++ [CClose]) in
  file_of R = render (rev (w_trace (r_final R))).
Proof. exact C01_file_is_trace_thm. Qed.
Print Assumptions C01_file_is_trace.

(* unz: any function that undoes the compressor oracle (unz compression stored = plain);
   call_small: the records that go through a chunk have a length below 2^64 (true of any Go
   slice; needed to split the chunk content at the record frames again) *)
Theorem C01_trace_content : forall o lib comp unz cs',
  C06_hyps o lib comp cs' ->
  (forall n plain, unz (o_comp o) (comp n plain) = plain) ->
  Forall call_small cs' ->
  let R := W o lib comp None (cs' ++ [CClose]) in
  let recs := data_records unz (rev (w_trace (r_final R))) in
  filter is_direct recs = filter is_direct (expected_records o lib cs') /\
  filter is_auto recs = filter is_auto (expected_records o lib cs').
Proof. exact C01_trace_content_thm. Qed.
Print Assumptions C01_trace_content.

Theorem C01_trace_classes : forall o lib comp unz cs',
  C06_hyps o lib comp cs' ->
  (forall n plain, unz (o_comp o) (comp n plain) = plain) ->
  Forall call_small cs' ->
  let R := W o lib comp None (cs' ++ [CClose]) in
  let recs := data_records unz (rev (w_trace (r_final R))) in
  (* (a) schemas, channels and messages, in their mutual call order *)
  filter is_auto recs = expected_records o lib (filter call_auto cs') /\
  (* (b) attachments *)
  filter is_att recs = expected_records o lib (filter is_attachment cs') /\
  (* (c) metadata *)
  filter (is_op OpMetadata) recs = expected_records o lib (filter is_metadata cs') /\
  (* the header; header, attachments and metadata in their mutual call order *)
  filter (is_op OpHeader) recs = expected_records o lib (filter is_header_call cs') /\
  filter is_direct recs = expected_records o lib (filter call_direct cs') /\
  (* messages alone, schemas alone, channels alone *)
  filter (is_op OpMessage) recs = expected_records o lib (filter is_message cs') /\
  filter (is_op OpSchema) recs = expected_records o lib (filter is_schema_call cs') /\
  filter (is_op OpChannel) recs = expected_records o lib (filter is_channel_call cs').
Proof. exact C01_trace_classes_thm. Qed.
Print Assumptions C01_trace_classes.

Theorem C01_lexer : forall o lib comp lo ds cs' sk,
  C06_hyps o lib comp cs' ->
  let R := W o lib comp None (cs' ++ [CClose]) in
  let items := rev (w_trace (r_final R)) in
  wf_file lo ds items ->
  forall fuel, (file_steps lo ds items + 1 <= fuel)%nat ->
  exists st, lex_all lo ds fuel (src_of (file_of R) sk) = Ok (file_events lo ds items, EEOF, st).
Proof. exact C01_lexer_thm. Qed.
Print Assumptions C01_lexer.

(* codec_ok lo ds o comp: the lexer's decoder undoes the writer's compressor *)
Theorem C01_events : forall o lib comp lo ds cs',
  C06_hyps o lib comp cs' -> codec_ok lo ds o comp -> Forall call_small cs' ->
  lo_emit_chunks lo = false ->
  let R := W o lib comp None (cs' ++ [CClose]) in
  let evs := data_events (file_events lo ds (rev (w_trace (r_final R)))) in
  filter ev_direct evs = flat_map (crec_events lo) (filter is_direct (expected_records o lib cs')) /\
  filter ev_auto evs = flat_map (crec_events lo) (filter is_auto (expected_records o lib cs')).
Proof. exact C01_events_thm. Qed.
Print Assumptions C01_events.

Theorem C01_roundtrip : forall o lib comp lo ds cs',
  C06_hyps o lib comp cs' -> codec_ok lo ds o comp -> Forall call_small cs' ->
  Forall (call_wf o lib) cs' -> lo_emit_chunks lo = false ->
  let R := W o lib comp None (cs' ++ [CClose]) in
  let evs := data_events (file_events lo ds (rev (w_trace (r_final R)))) in
  map decode_event (filter ev_direct evs) = map Ok (flat_map (call_contents lo o lib) (filter call_direct cs')) /\
  map decode_event (filter ev_auto evs) = map Ok (flat_map (call_contents lo o lib) (filter call_auto cs')).
Proof. exact C01_roundtrip_thm. Qed.
Print Assumptions C01_roundtrip.

(* the lexer half of C01 in one statement *)
Definition C01_full_statement : Prop :=
  forall o lib comp lo ds cs' sk,
  C06_hyps o lib comp cs' -> codec_ok lo ds o comp -> Forall call_small cs' ->
  Forall (call_wf o lib) cs' -> lo_emit_chunks lo = false ->
  let R := W o lib comp None (cs' ++ [CClose]) in
  wf_file lo ds (rev (w_trace (r_final R))) ->
  forall fuel, (file_steps lo ds (rev (w_trace (r_final R))) + 1 <= fuel)%nat ->
  exists evs st,
    lex_all lo ds fuel (src_of (file_of R) sk) = Ok (evs, EEOF, st) /\
    map decode_event (filter ev_direct (data_events evs))
      = map Ok (flat_map (call_contents lo o lib) (filter call_direct cs')) /\
    map decode_event (filter ev_auto (data_events evs))
      = map Ok (flat_map (call_contents lo o lib) (filter call_auto cs')).

Theorem C01_lexer_roundtrip : C01_full_statement.
Proof. exact C01_lexer_roundtrip_thm. Qed.
Print Assumptions C01_lexer_roundtrip.

(* ----- non-vacuity: the chunked, CRC-enabled workload of WriterFactsB (schema, channel, three
   messages in two chunks, an attachment from a two-fragment source, a metadata record) ----- *)
Example C01_ex_hyps :
  C06_hyps ex_o ex_lib ex_comp ex_cs_pre /\
  (forall n plain, ex_unz (o_comp ex_o) (ex_comp n plain) = plain) /\
  codec_ok ex_lo ds_id ex_o ex_comp /\
  Forall call_small ex_cs_pre /\ Forall (call_wf ex_o ex_lib) ex_cs_pre /\
  lo_emit_chunks ex_lo = false /\
  wf_file ex_lo ds_id (rev (w_trace (r_final (W ex_o ex_lib ex_comp None (ex_cs_pre ++ [CClose]))))) /\
  (file_steps ex_lo ds_id (rev (w_trace (r_final (W ex_o ex_lib ex_comp None (ex_cs_pre ++ [CClose]))))) + 1 <= 40)%nat.
Proof.
  split; [exact ex_C06_hyps|]. split; [exact ex_unz_ok|]. split; [exact ex_codec_ok|].
  split; [exact ex_call_small|]. split; [exact ex_call_wf|]. split; [reflexivity|].
  assert (E : ex_trace = rev (w_trace (r_final (W ex_o ex_lib ex_comp None (ex_cs_pre ++ [CClose])))))
    by (unfold ex_trace, ex_R, ex_cs; reflexivity).
  rewrite <- E. split; [exact ex_trace_wf|exact ex_fuel].
Qed.

(* the same calls under three more configurations (a compressing codec; no chunking and several
   Skip* flags; one big chunk written at Close without message indexes) *)
Example C01_ex_hyps_more :
  (C06_hyps ex_o_z ex_lib comp_z ex_cs_pre /\ codec_ok ex_lo ds_z ex_o_z comp_z /\ wf_file ex_lo ds_z ex_trace_z) /\
  (C06_hyps ex_o_u ex_lib ex_comp ex_cs_pre /\ codec_ok ex_lo ds_z ex_o_u ex_comp /\ wf_file ex_lo ds_z ex_trace_u) /\
  (C06_hyps ex_o_big ex_lib ex_comp ex_cs_pre /\ codec_ok ex_lo ds_z ex_o_big ex_comp
   /\ wf_file ex_lo ds_z ex_trace_big).
Proof.
  split; [|split].
  - split; [exact ex_C06_hyps_z|]. split; [exact ex_codec_ok_z|exact ex_trace_wf_z].
  - split; [exact ex_C06_hyps_u|]. split; [exact ex_codec_ok_u|exact ex_trace_wf_u].
  - split; [exact ex_C06_hyps_big|]. split; [exact ex_codec_ok_big|exact ex_trace_wf_big].
Qed.

(* computed independently of the theorems *)
Example C01_ex_data_records :
  filter is_auto (data_records ex_unz ex_trace) = filter is_auto (expected_records ex_o ex_lib ex_cs_pre) /\
  filter is_direct (data_records ex_unz ex_trace) = filter is_direct (expected_records ex_o ex_lib ex_cs_pre) /\
  length (filter is_auto (data_records ex_unz ex_trace)) = 5%nat /\
  length (filter is_direct (data_records ex_unz ex_trace)) = 3%nat /\
  length (all_records ex_unz ex_trace) = 25%nat.
Proof. exact ex_data_records. Qed.

Example C01_ex_lex_written : forall sk,
  match lex_all ex_lo ds_id 40 (src_of (file_of ex_R) sk) with
  | Ok (evs, EEOF, _) =>
    map decode_event (filter ev_auto (data_events evs))
      = map Ok (flat_map (call_contents ex_lo ex_o ex_lib) (filter call_auto ex_cs_pre)) /\
    map decode_event (filter ev_direct (data_events evs))
      = map Ok (flat_map (call_contents ex_lo ex_o ex_lib) (filter call_direct ex_cs_pre)) /\
    length (filter ev_auto (data_events evs)) = 5%nat /\ length (filter ev_direct (data_events evs)) = 3%nat
  | _ => False
  end.
Proof. exact ex_lex_written. Qed.
