(* C03 - "Reading an indexed file in log-time order returns each selected message exactly once
   with non-decreasing log time, and in reverse log-time order exactly once with non-increasing
   log time, no matter how chunk time ranges overlap, nest or run backwards in the file.
   Messages of one chunk that share a log time keep their file order (reverse file order when
   reading in reverse), and repeating the read gives the same sequence."

   Stated on the abstract iterator of Iter.v (a_read = a_run on the chunk list sorted as ci_sort
   does), which Reader.i_next refines (Iter.i_next_refines_thm, Iter.indexed_all_refines_thm).
   chunks_wf is the writer guarantee C05: every message of a chunk lies in the chunk index's
   [start, end].  No bound on the number or size of chunks; fuel is explicit. *)
From Mcap Require ConstsTie LayoutTie DecisionTieR. (* regenerated ties to /repo's source that this property's model relies on *)
From Coq Require Import List NArith ZArith Bool Permutation Sorted.
From Mcap Require Import Bytes GoSem Records Reader Iter.
Import ListNotations.
Open Scope N_scope.

Theorem C03_logtime : forall (sel : amsg -> bool) cks fuel n,
  chunks_wf cks ->
  (length cks + 1 <= fuel)%nat -> (length (filter sel (all_msgs cks)) + 1 <= n)%nat ->
  exists out st, a_read sel LogTimeOrder fuel n cks = Some (out, st) /\
    Permutation out (filter sel (all_msgs cks)) /\
    StronglySorted (fun a b => am_ts a <= am_ts b) out /\
    (forall c m1 m2, In c cks -> before m1 m2 (ac_msgs c) -> am_ts m1 = am_ts m2 ->
       sel m1 = true -> sel m2 = true -> before m1 m2 out) /\
    out = sortd am_ts true (filter sel (all_msgs (ac_sort LogTimeOrder cks))).
Proof. exact C03_logtime_thm. Qed.
Print Assumptions C03_logtime.

Theorem C03_reverse : forall (sel : amsg -> bool) cks fuel n,
  chunks_wf cks ->
  (length cks + 1 <= fuel)%nat -> (length (filter sel (all_msgs cks)) + 1 <= n)%nat ->
  exists out st, a_read sel ReverseLogTimeOrder fuel n cks = Some (out, st) /\
    Permutation out (filter sel (all_msgs cks)) /\
    StronglySorted (fun a b => am_ts b <= am_ts a) out /\
    (forall c m1 m2, In c cks -> before m1 m2 (ac_msgs c) -> am_ts m1 = am_ts m2 ->
       sel m1 = true -> sel m2 = true -> before m2 m1 out) /\
    out = sortd am_ts false
            (concat (map (fun c => rev (filter sel (ac_msgs c))) (ac_sort ReverseLogTimeOrder cks))).
Proof. exact C03_reverse_thm. Qed.
Print Assumptions C03_reverse.

(* the run is a function of (order, selection, chunk list); moreover the order in which the
   summary section lists the chunk indexes is irrelevant when chunk offsets are distinct *)
Theorem C03_deterministic : forall (sel : amsg -> bool) o fuel n cks cks',
  Permutation cks cks' -> NoDup (map ac_off cks) ->
  ac_sort o cks = ac_sort o cks' /\ a_read sel o fuel n cks = a_read sel o fuel n cks'.
Proof. exact C03_deterministic_thm. Qed.
Print Assumptions C03_deterministic.

(* the load order produced by the (stable insertion) sort of the chunk indexes *)
Theorem C03_load_order_logtime : forall l,
  Permutation (ac_sort LogTimeOrder l) l /\
  StronglySorted (fun a b => ac_start a <= ac_start b) (ac_sort LogTimeOrder l).
Proof. exact C03_load_order_logtime_thm. Qed.
Print Assumptions C03_load_order_logtime.
Theorem C03_load_order_reverse : forall l,
  Permutation (ac_sort ReverseLogTimeOrder l) l /\
  StronglySorted (fun a b => ac_end b <= ac_end a) (ac_sort ReverseLogTimeOrder l).
Proof. exact C03_load_order_reverse_thm. Qed.
Print Assumptions C03_load_order_reverse.

(* "before" is an occurrence-order statement; with unique message identities the output has no
   duplicates, so it is the order of the unique occurrences *)
Theorem C03_before_meaning : forall (A : Type) (a b : A) l,
  (before a b l <-> exists l1 l2 l3, l = l1 ++ a :: l2 ++ b :: l3) /\
  (NoDup l -> before a b l -> before b a l -> False).
Proof. exact C03_before_meaning_thm. Qed.
Print Assumptions C03_before_meaning.
Theorem C03_output_nodup : forall sel o fuel n cks out st,
  NoDup (map am_uid (all_msgs cks)) -> a_read sel o fuel n cks = Some (out, st) -> NoDup out.
Proof. exact a_read_nodup. Qed.
Print Assumptions C03_output_nodup.

(* refinement of the byte-level iterator (one call, and the complete read) *)
Theorem C03_refinement_next : forall dall ro sm f sel pairs,
  loader_ok dall ro sm f sel pairs -> forall fuel s a, st_match pairs s a ->
  match i_next dall ro sm f fuel s with
  | OutOfFuel => a_next sel (ro_order ro) fuel a = None
  | Ok (r, s') =>
      exists ar a', a_next sel (ro_order ro) fuel a = Some (ar, a') /\
      match ar with
      | AEnd => r = IEnd EEOF /\ st_match pairs s' a'
      | AMsg m => exists e s1 x, en_match e x /\ fst x = m /\ (r, s') = yield sm e s1 /\
                    r <> IEnd EEOF /\ (forall t, r = IMsg t -> st_match pairs s' a')
      end
  | _ => False
  end.
Proof. exact i_next_refines_thm. Qed.
Print Assumptions C03_refinement_next.

Theorem C03_refinement_all : forall dall ro sm f sel pairs,
  loader_ok dall ro sm f sel pairs ->
  forall fuel n s a acc aacc st ms st',
  st_match pairs s a ->
  indexed_all dall fuel n ro sm f s acc st = Ok (ms, EEOF, st') ->
  exists out, a_run sel (ro_order ro) fuel n a aacc st = Some (aacc ++ out, st') /\
              length ms = (length acc + length out)%nat.
Proof. exact indexed_all_refines_thm. Qed.
Print Assumptions C03_refinement_all.

(* the log times of the messages handed to the caller by the byte-level read are those of the
   abstract run (load_chunk_i and yield are opened for this; only loader_ok is assumed) *)
Theorem C03_refinement_logtimes : forall dall ro sm f sel pairs,
  loader_ok dall ro sm f sel pairs ->
  forall fuel n cis cks ms st,
  Forall2 (ci_match pairs) cis cks ->
  indexed_all dall fuel n ro sm f
    {| i_cis := ci_sort (ro_order ro) cis; i_queue := []; i_slots := []; i_reccap := 0; i_allocs := [] |}
    [] (O, O) = Ok (ms, EEOF, st) ->
  exists out, a_read sel (ro_order ro) fuel n cks = Some (out, st) /\ map log_of ms = map am_ts out.
Proof. exact indexed_read_refines_thm. Qed.
Print Assumptions C03_refinement_logtimes.

(* end to end: d = true is LogTimeOrder (non-decreasing), d = false ReverseLogTimeOrder *)
Theorem C03_indexed_time : forall dall ro sm f sel pairs d fuel n cis cks ms st,
  loader_ok dall ro sm f sel pairs -> ro_order ro = order_of d ->
  Forall2 (ci_match pairs) cis cks -> chunks_wf cks ->
  indexed_all dall fuel n ro sm f (i_init ro cis) [] (O, O) = Ok (ms, EEOF, st) ->
  StronglySorted (fun a b => led d a b) (map log_of ms) /\
  Permutation (map log_of ms) (map am_ts (filter sel (all_msgs cks))).
Proof. exact C03_indexed_time_thm. Qed.
Print Assumptions C03_indexed_time.

(* ----- non-vacuity ----- *)
(* ex_cks: three chunks (summary order B, C, A; file order B, C, A by offset 100, 200, 300; time
   order A, B, C), overlapping ranges [10,20] [15,30] [25,40], ties at 15, 20 and 25 *)
Example C03_ex_hyps :
  chunks_wf ex_cks /\ NoDup (map ac_off ex_cks) /\ NoDup (map am_uid (all_msgs ex_cks)) /\
  (length ex_cks + 1 <= 4)%nat /\ (length (filter sel_all (all_msgs ex_cks)) + 1 <= 12)%nat.
Proof.
  exact (conj ex_cks_wf (conj ex_cks_offsets (conj ex_cks_uids ex_fuel))).
Qed.
Example C03_ex_logtime :
  uids (a_read sel_all LogTimeOrder 4 12 ex_cks) = Some ([0; 2; 5; 1; 3; 4; 7; 8; 10; 6; 9]%nat, (2, 2)%nat).
Proof. exact ex_logtime. Qed.
Example C03_ex_reverse :
  uids (a_read sel_all ReverseLogTimeOrder 4 12 ex_cks) = Some ([9; 6; 10; 8; 7; 4; 3; 1; 5; 2; 0]%nat, (2, 2)%nat).
Proof. exact ex_reverse. Qed.
Example C03_ex_tie : before (mk_msg 20 1 1) (mk_msg 20 2 3) (ac_msgs exA) /\ In exA ex_cks.
Proof. exact ex_tie. Qed.
Example C03_ex_summary_order :
  Permutation ex_cks [exA; exB; exC] /\
  a_read sel_all LogTimeOrder 4 12 [exA; exB; exC] = a_read sel_all LogTimeOrder 4 12 ex_cks.
Proof. exact ex_summary_order. Qed.
(* a byte-level file (one uncompressed chunk, three messages, one on an unselected channel) for
   which the loader hypothesis is proved and the read is evaluated *)
Example C03_ex_loader_ok : loader_ok x_dall x_ro x_sm x_file x_sel x_pairs.
Proof. exact x_loader_ok. Qed.
Example C03_ex_matches :
  Forall2 (ci_match x_pairs) [x_ci] [x_ac] /\ st_match x_pairs x_s0 (a_init (ac_sort LogTimeOrder [x_ac])).
Proof. exact x_matches. Qed.
Example C03_ex_indexed_all :
  match indexed_all x_dall 4 4 x_ro x_sm x_file x_s0 [] (O, O) with
  | Ok (ms, e, st) => Some (map log_of ms, e, st)
  | _ => None
  end = Some ([15; 20], EEOF, (1, 1)%nat) /\
  uids (a_read x_sel LogTimeOrder 4 4 [x_ac]) = Some ([2; 0]%nat, (1, 1)%nat).
Proof. exact x_indexed_all. Qed.
Example C03_ex_end_to_end_hyps :
  loader_ok x_dall x_ro x_sm x_file x_sel x_pairs /\ ro_order x_ro = order_of true /\
  Forall2 (ci_match x_pairs) [x_ci] [x_ac] /\ chunks_wf [x_ac] /\ ranges_ok [x_ac] /\ NoDup (map ac_off [x_ac]) /\
  exists ms st, indexed_all x_dall 4 4 x_ro x_sm x_file (i_init x_ro [x_ci]) [] (O, O) = Ok (ms, EEOF, st).
Proof. exact x_end_to_end_hyps. Qed.
