(* C16, end to end - "Any uncompressed file written by the Go writer is read by the repository's Python
   readers (with CRC validation) as exactly the content that was written."

   The two halves proved separately (the Go writer model: C01/C05/C06/C08, EndToEnd.E2E_Writer; the Python
   streaming reader model on typed files: C16_pyread) are joined here; all proofs are in theories/GoToPy.v.

   Hypotheses (go_hyps, all explicit, all decidable except the compressor's extensional identity; go_checks
   decides them for the identity compressor):
     - the writer is UNCOMPRESSED: not chunked, or chunked with compression "" and an identity compressor
       (when it is not chunked the compressor is never consulted: GoToPy.W_unchunked);
     - o_skip_magic = false (the Python readers insist on the leading magic);
     - the run  W o lib compress None (CHeader hd :: cs ++ [CClose])  is error free (all_ok), cs contains no
       second header (no_header) and no Close, every call fits its wire format (C02.call_wf) and is
       shorter than 2^64 (call_small);
     - every string Python decodes is valid UTF-8 (call_utf8: schema name/encoding, channel topic/message
       encoding/metadata keys and values, attachment name/media type, metadata name/keys/values; header
       profile and the library string the writer computes).  Without it Python raises UnicodeDecodeError;
     - sizes: the file is shorter than 2^63 bytes and no record (9-byte frame included) is longer than 2^32
       bytes - the Python reader's record limit (item_small);
     - ids_consistent (no channel or schema id registered twice with different content) for the message
       results only: Python resolves a message through the LAST registration of its channel id, Go through
       the first.

   The typed description ps of the file carries the time stamps of chunk, message index and chunk index
   records and the counters of the statistics record reduced to the width of their wire fields (mi_wrap,
   ci_wrap, st_wrap): the writer theorems describe a chunk through an existentially quantified record list
   and so determine these values only through their encodings.  The reduction is the identity on values
   that fit (mi_wrap_id, ci_wrap_id, st_wrap_id), which is what go_to_python_statistics uses. *)
From Mcap Require ConstsTie LayoutTie PyDecisionTie. (* regenerated ties to /repo's source that this property's model relies on *)
From Coq Require Import List NArith ZArith Bool.
From Coq.Strings Require Import Byte.
From Mcap Require Import Bytes GoSem Crc32 Records RecordsFacts Writer WriterFactsA WriterFactsC ComposeFacts
  Py PyReadFacts EndToEnd GoToPy.
From McapProps Require Import C02.
Import ListNotations.
Open Scope N_scope.

(* 1. the written file is  magic ++ py_render ps ++ magic  for a typed description ps that the Python reader
      accepts with CRC validation on and off (pwf_file: DataEnd crc 0 or the running crc, chunk crcs 0 or
      right, exactly one footer, last, field ranges, UTF-8); item by item ps renders as the writer's trace
      between the two magics *)
Theorem C16_go_trace_typed : forall o lib compress hd cs, go_hyps o lib compress hd cs ->
  let R := W o lib compress None (CHeader hd :: cs ++ [CClose]) in
  exists ps,
    file_of R = magic ++ py_render ps ++ magic /\
    map render_item (to_items ps) = map render_item (removelast (tl (rev (w_trace (r_final R))))) /\
    pwf_file true false ps /\ pwf_file false false ps.
Proof. exact go_trace_typed. Qed.
Print Assumptions C16_go_trace_typed.

(* 2. StreamReader(file, skip_magic=False, emit_chunks=False, validate_crcs).records *)
Theorem C16_go_to_python_stream : forall o lib compress hd cs, go_hyps o lib compress hd cs ->
  let R := W o lib compress None (CHeader hd :: cs ++ [CClose]) in
  exists ps,
    file_of R = magic ++ py_render ps ++ magic /\
    pwf_file true false ps /\ pwf_file false false ps /\
    stream_records (file_of R) false false true limit_4g = (py_expected ps, EStop) /\
    stream_records (file_of R) false false false limit_4g = (py_expected ps, EStop).
Proof. exact go_to_python_stream. Qed.
Print Assumptions C16_go_to_python_stream.

(* the record stream itself: the header, the records of the data section (dx: only schema, channel, message,
   attachment, metadata and message index records; its schema/channel/message records are those of the
   calls in call order, its attachments and metadata records those of the calls in call order), DataEnd, the
   summary records of the writer's final state (state_sum_recs: repeated schemas and channels, statistics,
   chunk / attachment / metadata indexes, summary offsets), the footer *)
Theorem C16_go_to_python_records : forall o lib compress hd cs, go_hyps o lib compress hd cs ->
  let R := W o lib compress None (CHeader hd :: cs ++ [CClose]) in
  let s := r_final R in
  let eo := effective_opts o in
  let hdr := {| h_profile := h_profile hd; h_library := header_library eo lib hd |} in
  exists dx c1 offs ft,
    (forall validate, stream_records (file_of R) false false validate limit_4g
       = (PHeader hdr :: dx ++ PDataEnd {| de_crc := c1 |} :: map py_norm (state_sum_recs eo s offs) ++ [PFooter ft], EStop)) /\
    Forall data_rec dx /\
    filter scm dx = map arec_out (auto_recs cs) /\
    filter Py.is_att dx = map (fun ad => PAttachment (att_set (fst ad) (snd ad))) (attachments_of cs) /\
    filter is_md dx = map (fun m => PMetadata (py_metadata m)) (metadata_of cs) /\
    (o_crc o = false -> c1 = 0).
Proof. exact go_to_python_records. Qed.
Print Assumptions C16_go_to_python_records.

(* 2 (a)-(e). NonSeekingReader(file, validate_crcs): the content, in terms of the calls.
   go_msgs cs flt: the message calls in call order, each with py_channel of the channel call of its channel id
   and the schema call of that channel's schema id (None for schema id 0), filtered by flt.
   py_channel / py_metadata: the map as the dict built from the pairs in the order Go wrote them, i.e.
   pd_build (kv_sort m), which is kv_sort m for distinct keys (C16_py_map_order). *)
Theorem C16_go_to_python_content : forall o lib compress hd cs,
  go_hyps o lib compress hd cs -> ids_consistent cs ->
  let R := W o lib compress None (CHeader hd :: cs ++ [CClose]) in
  forall validate,
  ns_get_header (file_of R) validate
    = POk {| h_profile := h_profile hd; h_library := header_library (effective_opts o) lib hd |} /\
  ns_iter Py.is_att (file_of R) validate
    = (map (fun ad => PAttachment (att_set (fst ad) (snd ad))) (attachments_of cs), EStop) /\
  ns_iter is_md (file_of R) validate = (map (fun m => PMetadata (py_metadata m)) (metadata_of cs), EStop) /\
  (forall flt reverse, ns_iter_messages (file_of R) validate flt false reverse = (go_msgs cs flt, EStop)) /\
  (forall flt reverse,
     ns_iter_messages (file_of R) validate flt true reverse = (py_sorted reverse (go_msgs cs flt), EStop)).
Proof. exact go_to_python_content. Qed.
Print Assumptions C16_go_to_python_content.

(* 3. NonSeekingReader.get_summary: None exactly when the writer wrote no summary record; otherwise the
      statistics record and the chunk / attachment / metadata index lists of the writer's final state, and
      (ids consistent) its schema and channel tables: E2E_Writer.tables_of_run gives them as the first-wins
      folds of the schema / channel calls *)
Theorem C16_go_to_python_summary : forall o lib compress hd cs, go_hyps o lib compress hd cs ->
  let R := W o lib compress None (CHeader hd :: cs ++ [CClose]) in
  let s := r_final R in
  let eo := effective_opts o in
  forall validate, exists su,
    ns_get_summary (file_of R) validate = POk (match state_sum_recs eo s [] with [] => None | _ => Some su end) /\
    su_stats su = (if o_skip_stats eo then None else Some (py_statistics (st_wrap (stats_record s)))) /\
    su_chunks su = map (fun ci => py_chunkindex (ci_wrap ci)) (if o_skip_ci eo then [] else w_chunk_indexes s) /\
    su_atts su = (if o_skip_ai eo then [] else w_att_indexes s) /\
    su_mds su = (if o_skip_mdi eo then [] else w_md_indexes s) /\
    (ids_consistent cs ->
     su_schemas su = w_schemas s /\ su_channels su = map (fun p => (fst p, py_channel (snd p))) (w_channels s)).
Proof. exact go_to_python_summary. Qed.
Print Assumptions C16_go_to_python_summary.

(* SeekingReader.get_summary (the footer read at the end of the file, then the summary section from
   summary_start on): the same statistics record and index lists *)
Theorem C16_go_to_python_seeking_summary : forall o lib compress hd cs, go_hyps o lib compress hd cs ->
  let R := W o lib compress None (CHeader hd :: cs ++ [CClose]) in
  let s := r_final R in
  let eo := effective_opts o in
  exists su,
    sk_get_summary (file_of R) = POk (match state_sum_recs eo s [] with [] => None | _ => Some su end) /\
    su_stats su = (if o_skip_stats eo then None else Some (py_statistics (st_wrap (stats_record s)))) /\
    su_chunks su = map (fun ci => py_chunkindex (ci_wrap ci)) (if o_skip_ci eo then [] else w_chunk_indexes s) /\
    su_atts su = (if o_skip_ai eo then [] else w_att_indexes s) /\
    su_mds su = (if o_skip_mdi eo then [] else w_md_indexes s).
Proof. exact go_to_python_seeking_summary. Qed.
Print Assumptions C16_go_to_python_seeking_summary.

(* the statistics Python reports are the writer's, and these are the true aggregates of the calls
   (record_correct: property C08) *)
Theorem C16_go_to_python_statistics : forall o lib compress hd cs, go_hyps o lib compress hd cs ->
  let R := W o lib compress None (CHeader hd :: cs ++ [CClose]) in
  let s := r_final R in
  o_skip_stats o = false -> wf_statistics (stats_record s) ->
  forall validate, exists su,
    ns_get_summary (file_of R) validate = POk (Some su) /\
    su_stats su = Some (stats_record s) /\
    record_correct (CHeader hd :: cs ++ [CClose]) (N.of_nat (length (w_chunk_indexes s))) (stats_record s).
Proof. exact go_to_python_statistics. Qed.
Print Assumptions C16_go_to_python_statistics.

(* the compressor of a writer that is not chunked is irrelevant *)
Theorem C16_go_unchunked_compressor : forall o lib c1 c2 flt cs,
  o_chunked o = false -> W o lib c1 flt cs = W o lib c2 flt cs.
Proof. exact W_unchunked. Qed.
Print Assumptions C16_go_unchunked_compressor.

(* the reductions are the identity on values that fit their fields *)
Theorem C16_go_wrap_identity :
  (forall st, wf_statistics st -> st_wrap st = st) /\
  (forall ci, wf_chunkindex ci -> ci_wrap ci = ci) /\
  (forall mi, wf_msgindex mi -> mi_wrap mi = mi).
Proof. exact (conj st_wrap_id (conj ci_wrap_id mi_wrap_id)). Qed.
Print Assumptions C16_go_wrap_identity.

(* the decidable part of the hypotheses *)
Theorem C16_go_checks : forall o lib hd cs, go_checks o lib hd cs = true -> go_hyps o lib idc hd cs.
Proof. exact go_checks_ok. Qed.
Print Assumptions C16_go_checks.

(* ---------------------------------------------------------------------------------------------- *)
(* non-vacuity: the workloads of properties/C02_full.v (gx_cs) and properties/C01.v (gy_cs) written
   unchunked and chunked-uncompressed (chunk size 40), CRCs on and off *)
Example C16_e2e_ex_hyps : forall chunked crc,
  go_hyps (gx_o chunked crc) gx_lib idc gx_hd gx_cs /\ ids_consistent gx_cs.
Proof. intros chunked crc. split; [apply gx_hyps|exact gx_consistent]. Qed.

Example C16_e2e_ex_hyps_c01 : forall chunked crc,
  go_hyps (gx_o chunked crc) gy_lib idc gy_hd gy_cs /\ ids_consistent gy_cs /\
  WriterFactsB.ex_cs_pre = CHeader gy_hd :: gy_cs.
Proof. intros chunked crc. split; [apply gy_hyps|split; [exact gy_consistent|reflexivity]]. Qed.

(* the hypotheses hold by computation *)
Example C16_e2e_ex_checks : forall chunked crc,
  go_checks (gx_o chunked crc) gx_lib gx_hd gx_cs = true /\ go_checks (gx_o chunked crc) gy_lib gy_hd gy_cs = true.
Proof. intros chunked crc. destruct chunked, crc; vm_compute; split; reflexivity. Qed.

(* the extra hypotheses of C16_go_to_python_statistics *)
Example C16_e2e_ex_stats_hyps : forall chunked crc,
  o_skip_stats (gx_o chunked crc) = false /\
  wf_statistics (stats_record (r_final (W (gx_o chunked crc) gx_lib idc None (CHeader gx_hd :: gx_cs ++ [CClose])))).
Proof.
  intros chunked crc. split; [reflexivity|]. apply wf_statisticsb_iff. destruct chunked, crc; vm_compute; reflexivity.
Qed.

(* the theorems applied to the examples *)
Example C16_e2e_ex_applies : forall chunked crc validate,
  let R := W (gx_o chunked crc) gx_lib idc None (CHeader gx_hd :: gx_cs ++ [CClose]) in
  (exists ps, file_of R = magic ++ py_render ps ++ magic /\
              stream_records (file_of R) false false true limit_4g = (py_expected ps, EStop)) /\
  ns_iter_messages (file_of R) validate flt_all false false = (go_msgs gx_cs flt_all, EStop) /\
  (exists su, ns_get_summary (file_of R) validate = POk (Some su) /\ su_stats su = Some (stats_record (r_final R))).
Proof.
  intros chunked crc validate R.
  destruct (C16_e2e_ex_hyps chunked crc) as [H Hc]. destruct (C16_e2e_ex_stats_hyps chunked crc) as [S1 S2].
  split; [|split].
  - destruct (C16_go_to_python_stream _ _ _ _ _ H) as (ps & E & _ & _ & E1 & _). exists ps. split; assumption.
  - destruct (C16_go_to_python_content _ _ _ _ _ H Hc validate) as (_ & _ & _ & D & _). apply D.
  - destruct (C16_go_to_python_statistics _ _ _ _ _ H S1 S2 validate) as (su & E1 & E2 & _). exists su. split; assumption.
Qed.

(* the Python model evaluated by vm_compute on the written files, against right-hand sides computed from
   the calls and the writer's final state only (go_example_spec): stream_records ends normally, starts with
   the header; its schema/channel/message records are those of the calls followed by the repeated tables;
   attachments, metadata, the statistics record, the three index lists, the DataEnd crc (crc32 of the bytes
   before it, or 0); get_header; iter_messages in file order and in both log-time orders; get_summary
   of both readers (statistics, index lists and the schema / channel tables of the writer's final state) *)
Example C16_e2e_ex_computed : forall chunked crc validate,
  go_example_spec (gx_o chunked crc) gx_lib gx_hd gx_cs validate /\
  go_example_spec (gx_o chunked crc) gy_lib gy_hd gy_cs validate.
Proof. intros chunked crc validate. split; [apply gx_example|apply gy_example]. Qed.

(* the examples are not degenerate: record counts of the four files of the first workload, and the messages
   come back in call order although the chunked files hold the attachment and the metadata record at other
   positions relative to the messages than the unchunked ones *)
Example C16_e2e_ex_shape :
  map (fun cc => length (fst (stream_records
         (file_of (W (gx_o (fst cc) (snd cc)) gx_lib idc None (CHeader gx_hd :: gx_cs ++ [CClose])))
         false false true limit_4g)))
      [(false, false); (false, true); (true, false); (true, true)] = [23; 23; 31; 31]%nat /\
  map (fun t => m_log (snd t)) (go_msgs gx_cs flt_all) = [10; 7; 12; 3] /\
  map (fun t => m_log (snd t)) (py_sorted false (go_msgs gx_cs flt_all)) = [3; 7; 10; 12] /\
  map (fun t => match fst (fst t) with Some sc => s_id sc | None => 0 end) (go_msgs gx_cs flt_all) = [1; 0; 1; 0].
Proof. vm_compute. repeat split. Qed.

(* a writer that is not chunked may be given any compressor (here one that prepends a byte) *)
Example C16_e2e_ex_any_compressor : forall crc,
  go_hyps (gx_o false crc) gx_lib (fun _ b => xff :: b) gx_hd gx_cs.
Proof. exact gx_hyps_any_compressor. Qed.

(* ---------------------------------------------------------------------------------------------- *)
(* the hypotheses that input bounds do not imply are needed *)

(* call_utf8: a schema name that is not valid UTF-8; every other hypothesis holds and Python raises
   UnicodeDecodeError after the header *)
Example C16_e2e_utf8_needed :
  let R := W (gx_o false true) gx_lib idc None (CHeader gx_hd :: gz_bad_cs ++ [CClose]) in
  forallb call_wfb gz_bad_cs = true /\ forallb call_smallb gz_bad_cs = true /\ r_new R = None /\
  all_okb (r_calls R) = true /\ forallb item_smallb (rev (w_trace (r_final R))) = true /\
  forallb call_utf8b gz_bad_cs = false /\
  stream_records (file_of R) false false true limit_4g
    = ([PHeader {| h_profile := []; h_library := gx_lib |}], ERaise PUnicode).
Proof. exact gz_utf8_needed. Qed.

(* ids_consistent (for the message results): channel id 1 registered twice with different topics; go_hyps
   holds; the Go writer writes both channel records (and repeats the first one in the summary section), the
   Python reader resolves the second message through the second registration, go_msgs through the first *)
Example C16_e2e_consistency_needed :
  let R := W (gx_o false true) gx_lib idc None (CHeader gx_hd :: gz_re_cs ++ [CClose]) in
  go_hyps (gx_o false true) gx_lib idc gx_hd gz_re_cs /\ ~ ids_consistent gz_re_cs /\
  map (fun t => c_topic (snd (fst t))) (fst (ns_iter_messages (file_of R) true flt_all false false)) = [[x74]; [x75]] /\
  map (fun t => c_topic (snd (fst t))) (go_msgs gz_re_cs flt_all) = [[x74]; [x74]].
Proof. exact gz_consistency_needed. Qed.

(* o_skip_magic = false: without the leading magic both Python readers fail at once *)
Example C16_e2e_magic_needed :
  let R := W gz_o_nomagic gx_lib idc None (CHeader gx_hd :: gx_cs ++ [CClose]) in
  r_new R = None /\ all_okb (r_calls R) = true /\
  ns_get_header (file_of R) true = PRaise PInvalidMagic /\
  stream_records (file_of R) false false true limit_4g = ([], ERaise PInvalidMagic).
Proof. exact gz_magic_needed. Qed.

(* the size hypotheses follow from: the file is not longer than 4 GiB *)
Theorem C16_go_sizes_of_file : forall o lib compress hd cs,
  let R := W o lib compress None (CHeader hd :: cs ++ [CClose]) in
  Forall call_wf cs -> all_ok R -> blen (file_of R) <= two32 ->
  Forall item_small (rev (w_trace (r_final R))).
Proof. exact items_small_of_file. Qed.
Print Assumptions C16_go_sizes_of_file.
