(* C04 (companion of C03_tie) / C02 / C04 / C12 (source tie) - the decisions that C03's theorems reason about are the decisions written in
   go/mcap's indexed_message_iterator.go, reader_options.go and mcap.go *today*: the definitions `go_*` below are
   regenerated from the Go AST on every run (theories/DecisionsR_gen.v, tools/gotrans) and each theorem equates one of them
   with the model's own definition (proofs: theories/DecisionTieR.v).  A change of a comparator, of the window test, of
   the topic pruning, of the "load the next chunk first" test, of an option validator or of `CanReadMessagesUsingIndex`
   makes one of these stop compiling, and with it every property file that requires this tie. *)
From Mcap Require ConstsTie LayoutTie DecisionTieR. (* regenerated ties to /repo's source that this property's model relies on *)
From Coq Require Import List NArith ZArith Bool.
From RecordUpdate Require Import RecordSet.
From Mcap Require Import Bytes GoSem Records Lexer Writer Reader DecisionsR_gen DecisionTieR.
Import ListNotations RecordSetNotations.
Open Scope N_scope.

(* C04: which chunk indexes and which messages a window and a topic set select *)
Theorem C04_tie_chunk_window : forall (ro : ropts) (ci : chunkindex), ci_time_ok ro false ci = go_ci_overlap ro ci.
Proof. exact tie_ci_overlap. Qed.
Print Assumptions C04_tie_chunk_window.
Theorem C04_tie_chunk_topics : forall (chans : list (N * channel)) (ci : chunkindex),
  ci_topic_ok chans ci = go_prune_init ci || existsb (fun kv => go_prune_hit chans (fst kv)) (ci_mioffsets ci).
Proof. exact tie_prune. Qed.
Print Assumptions C04_tie_chunk_topics.
Theorem C04_tie_message_indexed : forall (ro : ropts) (chans : list (N * channel)) (m : message),
  go_msg_select_indexed ro chans true m =
  match tab_get (m_chan m) chans with Some _ => in_window ro (m_log m) | None => false end.
Proof. exact tie_msg_select. Qed.
Print Assumptions C04_tie_message_indexed.
Theorem C04_tie_message_scan : forall (ro : ropts) (m : message), in_window ro (m_log m) = go_u_msg_window ro m.
Proof. exact tie_u_msg_window. Qed.
Print Assumptions C04_tie_message_scan.
Theorem C04_tie_channel_scan : forall (ro : ropts) (t : bytes), topic_selected (ro_topics ro) t = go_u_chan_select ro t.
Proof. exact tie_u_chan_select. Qed.
Print Assumptions C04_tie_channel_scan.
Theorem C04_tie_finalize : forall r,
  finalize r =
  let r1 := if go_finalize_start r then r <| ro_start_n := Z.to_N (ro_start r) |> else r in
  if go_finalize_end r1 then r1 <| ro_end_n := Z.to_N (ro_end r1) |> <| ro_unbounded := false |> else r1.
Proof. exact tie_finalize. Qed.
Print Assumptions C04_tie_finalize.
