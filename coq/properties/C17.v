(* C17 - the Go tools reproduce the cross-language conformance expectations.
   The quantifier is finite (416 vectors), so evaluation inside Coq is a proof: the vectors are regenerated
   from tests/conformance/data on every run (theories/Vectors_gen.v).  The two theorems tie the *models*
   to the expectations; the real tools are run against the same pinned bytes by the harness. *)
From Mcap Require ConstsTie LayoutTie. (* regenerated ties to /repo's source that this property's model relies on *)
From Coq Require Import List NArith Bool.
From Mcap Require Import Bytes Writer Lexer C17Support Vectors_gen.
Import ListNotations.

(* for every unpadded vector the writer model, driven by the calls and options the write-conformance tool
   derives from the vector, emits exactly the expected binary (every offset, length and CRC included) *)
Theorem C17_writer :
  List.length vectors_w = n_vectors_w /\
  forallb (fun v => write_ok (fst (fst v)) (snd (fst v)) (snd v)) vectors_w = true.
Proof. split; vm_compute; reflexivity. Qed.
Print Assumptions C17_writer.

(* for every vector (padded ones included) the lexer model, configured as the streamed read-conformance
   tool, returns exactly the expected record stream and then a clean end of file *)
Theorem C17_reader :
  List.length vectors_r = n_vectors_r /\
  forallb (fun v => lex_ok (fst v) (snd v)) vectors_r = true.
Proof. split; vm_compute; reflexivity. Qed.
Print Assumptions C17_reader.

Example C17_nonvacuous : Nat.leb 200 n_vectors_w = true /\ Nat.leb 400 n_vectors_r = true.
Proof. split; reflexivity. Qed.
