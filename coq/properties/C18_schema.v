(* C18 (schema half): the schema assembly of the ROS 2 db3 -> MCAP converter (go/ros/ros2db3_to_mcap.go: getSchema,
   getSchemas, fieldToQualifiedROSType), model theories/Ros2Schema.v over a finite file-system tree.
   All proofs are in theories/Ros2SchemaFacts.v.

   Vocabulary (theories/Ros2SchemaFacts.v):
     no_crash x = true       x is Ok or Err (GoSem): not Panic, not Exit, not OutOfFuel;
     buf_inv first buf q     the loop invariant of getSchemas: the buffer is not empty, or the queue is empty, or nothing
                             has been written yet and exactly one definition is queued;
     sd_ok sd                the package that fields of sd are resolved against has no '/';
     keys t                  the lines of all files of t (as many as `fs_weight t - 2` at most);
     mdef / dline / ftype    an abstract universe of message definitions: (package, name, lines), a line being a
                             comment, an empty line or "<type><suffix> <rest>" with type primitive | Name | pkg/Name;
     type_of d, text_of d    "pkg/msg/Name", the lines joined by '\n';
     tree_of dir defs        the tree with ONE search directory dir: per package the index file
                             dir/share/ament_index/resource_index/rosidl_interfaces/pkg listing "msg/Name.msg", and the
                             files dir/share/pkg/msg/Name.msg;
     wf_defs defs            names: visible ASCII without '/', '.', '[', '<', '#', not empty, type names not primitive;
                             suffix "" or '['.. or '<'.. without white space; rest not empty, without newline, ending in
                             visible ASCII; comment text without newline, ending in visible ASCII; distinct type
                             names; every referenced type is in the universe;
     bfs_order defs ty       breadth-first order of first occurrence from ty (fuel |defs|; any larger fuel gives the
                             same list: C18_schema_spec_fuel);
     expected_schema defs ty the texts of bfs_order; before each text but the first: a newline when the buffer does
                             not end in one, 80 '=' and '\n', "MSG: pkg/Name\n".

   Findings:
     - `assemble` alone CAN reach the panic site of the buffer access (site_buffer_last), from a state with an empty
       buffer, an empty first definition and a second queued definition (C18_schema_ex_assemble_outside_invariant);
       get_schema_for never creates such a state: the queue holds one definition when nothing has been written, and an
       empty definition enqueues nothing (C18_schema_assemble_no_panic).  No crash candidate for the Go code.
     - the fuel `fs_weight t` is sufficient for EVERY tree: the root type is the only unnormalised type string; every
       enqueued type is the Clean-ed "P/msg/C", which determines a line of an index file of the tree
       (C18_schema_get_schema_for_total has no hypothesis). *)
From Mcap Require ConstsTie LayoutTie. (* regenerated ties to /repo's source that this property's model relies on *)
From Coq Require Import List NArith ZArith Bool.
From Coq.Strings Require Import Byte.
From Coq.Strings Require String.
Import String.StringSyntax.
From Mcap Require Import Bytes GoSem Records Writer Ros1Msg Db3 Db3Facts Ros2Schema Ros2SchemaFacts.
Import ListNotations.
Open Scope nat_scope.

(* ---------------------------------------------------------------------------------------------- *)
(* 1. totality: Ok or Err for every tree, every list of search directories, every type name        *)
(* ---------------------------------------------------------------------------------------------- *)

Theorem C18_schema_get_schema_total : forall t dirs q, no_crash (get_schema t dirs q) = true.
Proof. exact get_schema_fine. Qed.
Print Assumptions C18_schema_get_schema_total.

(* in particular the panic site of fieldToQualifiedROSType (site_fieldToQualified) is not reached *)
Theorem C18_schema_scan_lines_total : forall t dirs sd lines seen queue,
  no_crash (scan_lines t dirs sd lines seen queue) = true.
Proof. exact scan_lines_fine. Qed.
Print Assumptions C18_schema_scan_lines_total.

(* the loop, any fuel: no Panic / Exit from a state that satisfies the invariant *)
Theorem C18_schema_assemble_no_panic : forall t dirs fuel queue seen first buf,
  buf_inv first buf queue -> Forall sd_ok queue ->
  match assemble fuel t dirs queue seen first buf with Panic _ | Exit _ => False | _ => True end.
Proof. exact assemble_no_panic. Qed.
Print Assumptions C18_schema_assemble_no_panic.

(* the loop, enough fuel: the queue, the index lines not yet used by a type in `added`, and the final test *)
Theorem C18_schema_assemble_total : forall t dirs fuel queue seen first buf added,
  buf_inv first buf queue -> Forall sd_ok queue ->
  NoDup added -> incl added seen -> Forall (good t) added ->
  length queue + (length (keys t) - length added) + 1 <= fuel ->
  no_crash (assemble fuel t dirs queue seen first buf) = true.
Proof. exact assemble_fine. Qed.
Print Assumptions C18_schema_assemble_total.

Theorem C18_schema_keys_weight : forall t, length (keys t) + 2 <= fs_weight t.
Proof. exact keys_weight. Qed.
Print Assumptions C18_schema_keys_weight.

(* the initial state of get_schema_for satisfies the hypotheses *)
Example C18_schema_assemble_total_ex : forall t dirs ty sc,
  let q := [{| sd_parent := hd [] (split_byte 47 ty); sd_type := ty; sd_schema := sc |}] in
  buf_inv true [] q /\ Forall sd_ok q /\ NoDup (@nil bytes) /\ incl [] [ty] /\ Forall (good t) [] /\
  length q + (length (keys t) - length (@nil bytes)) + 1 <= fs_weight t /\
  no_crash (assemble (fs_weight t) t dirs q [ty] true []) = true.
Proof. exact assemble_fine_initial. Qed.

(* without the invariant the buffer access is reachable *)
Example C18_schema_ex_assemble_outside_invariant :
  let sd := {| sd_parent := []; sd_type := []; sd_schema := [] |} in
  assemble 3 {| ft_files := []; ft_dirs := [] |} [] [sd; sd] [] true [] = Panic site_buffer_last.
Proof. exact assemble_panic_outside_invariant. Qed.

Theorem C18_schema_get_schema_for_total : forall t dirs ty, no_crash (get_schema_for t dirs ty) = true.
Proof. exact get_schema_for_fine. Qed.
Print Assumptions C18_schema_get_schema_for_total.

Theorem C18_schema_get_schemas_total : forall t dirs types acc, no_crash (get_schemas t dirs types acc) = true.
Proof. exact get_schemas_fine. Qed.
Print Assumptions C18_schema_get_schemas_total.

(* ---------------------------------------------------------------------------------------------- *)
(* 2. DB3ToMCAP with the assembly inside                                                           *)
(* ---------------------------------------------------------------------------------------------- *)

Theorem C18_schema_db3_total : forall o lib compress t dirs topics msgs,
  exists r, db3_to_mcap_fs o lib compress t dirs topics msgs = Ok r.
Proof. exact db3_to_mcap_fs_total. Qed.
Print Assumptions C18_schema_db3_total.

Theorem C18_schema_db3_cases : forall o lib compress t dirs topics msgs,
  let types := map t_type (filter (fun x => is_message_type (t_type x)) topics) in
  match get_schemas t dirs types [] with
  | Ok l => db3_to_mcap_fs o lib compress t dirs topics msgs = Ok (db3_to_mcap o lib compress topics (Some l) msgs)
  | Err _ => exists r, db3_to_mcap_fs o lib compress t dirs topics msgs = Ok r /\
                       r = db3_to_mcap o lib compress topics None msgs /\
                       dr_err r = Some EOther /\ dr_writes r = []
  | _ => False
  end.
Proof. exact db3_to_mcap_fs_cases. Qed.
Print Assumptions C18_schema_db3_cases.

Theorem C18_schema_db3_ok : forall o lib compress t dirs topics msgs l,
  get_schemas t dirs (map t_type (filter (fun x => is_message_type (t_type x)) topics)) [] = Ok l ->
  db3_to_mcap_fs o lib compress t dirs topics msgs = Ok (db3_to_mcap o lib compress topics (Some l) msgs).
Proof. exact db3_to_mcap_fs_ok. Qed.
Print Assumptions C18_schema_db3_ok.

Theorem C18_schema_db3_err : forall o lib compress t dirs topics msgs e,
  get_schemas t dirs (map t_type (filter (fun x => is_message_type (t_type x)) topics)) [] = Err e ->
  db3_to_mcap_fs o lib compress t dirs topics msgs = Ok (db3_to_mcap o lib compress topics None msgs) /\
  dr_err (db3_to_mcap o lib compress topics None msgs) = Some EOther /\
  dr_writes (db3_to_mcap o lib compress topics None msgs) = [].
Proof. exact db3_to_mcap_fs_err. Qed.
Print Assumptions C18_schema_db3_err.

Example C18_schema_db3_ok_ex :
  exists l, get_schemas ex_tree [ex_dir]
              (map t_type (filter (fun x => is_message_type (t_type x)) ex_fs_topics)) []
            = Ok l.
Proof. eexists. vm_compute. reflexivity. Qed.

Example C18_schema_db3_err_ex :
  get_schemas ex_tree [ex_dir]
    (map t_type (filter (fun x => is_message_type (t_type x)) [ex_topic 1 (B "pa/msg/A"); ex_topic 2 (B "pa/msg/Nope")])) []
  = Err EOther.
Proof. vm_compute. reflexivity. Qed.

(* ---------------------------------------------------------------------------------------------- *)
(* 3. functional correctness on the tree of a well-formed universe                                 *)
(* ---------------------------------------------------------------------------------------------- *)

Theorem C18_schema_get_schema_universe : forall dir defs, wf_defs defs = true ->
  forall d, In d defs -> get_schema (tree_of dir defs) [dir] (type_of d) = Ok (text_of d).
Proof. exact get_schema_universe. Qed.
Print Assumptions C18_schema_get_schema_universe.

(* one canonical line: nothing to look up, or the qualified type of the field *)
Theorem C18_schema_line : forall pkg l, pkg_ok pkg = true -> dline_ok l = true ->
  line_ref pkg (render_dline l) = Ok (ref_of pkg l).
Proof. exact line_ref_render. Qed.
Print Assumptions C18_schema_line.
Example C18_schema_line_ex :
  pkg_ok (B "pa") = true /\ dline_ok (DField (FQual (B "pb") (B "Bb")) (B "[<=3]") (B "bs 1 # x")) = true /\
  line_ref (B "pa") (B "pb/Bb[<=3] bs 1 # x") = Ok (Some (B "pb/msg/Bb")) /\
  line_ref (B "pa") (B "Leaf l") = Ok (Some (B "pa/msg/Leaf")) /\
  line_ref (B "pa") (B "  uint8[4] data  ") = Ok None.
Proof. vm_compute. repeat split. Qed.

(* the general statement: cyclic reference graphs included *)
Theorem C18_schema_full : forall dir defs, wf_defs defs = true ->
  forall d, In d defs ->
  get_schema_for (tree_of dir defs) [dir] (type_of d) = Ok (expected_schema defs (type_of d)).
Proof. exact get_schema_for_universe. Qed.
Print Assumptions C18_schema_full.

Theorem C18_schema_get_schemas : forall dir defs, wf_defs defs = true ->
  forall tys acc, incl tys (map type_of defs) ->
  get_schemas (tree_of dir defs) [dir] tys acc
  = Ok (fold_left (fun a ty => sch_set ty (expected_schema defs ty) a) tys acc).
Proof. exact get_schemas_universe. Qed.
Print Assumptions C18_schema_get_schemas.

(* the map as DB3ToMCAP reads it: a type listed once or several times has its expected schema *)
Theorem C18_schema_map_get : forall defs tys ty, In ty tys ->
  schema_of ty (schemas_of defs tys) = Some (expected_schema defs ty).
Proof. exact schemas_of_get. Qed.
Print Assumptions C18_schema_map_get.

Theorem C18_schema_db3_universe : forall o lib compress dir defs topics msgs,
  wf_defs defs = true ->
  (forall x, In x topics -> is_message_type (t_type x) = true -> In (t_type x) (map type_of defs)) ->
  let tys := map t_type (filter (fun x => is_message_type (t_type x)) topics) in
  db3_to_mcap_fs o lib compress (tree_of dir defs) [dir] topics msgs
  = Ok (db3_to_mcap o lib compress topics (Some (schemas_of defs tys)) msgs) /\
  forall x, In x topics -> is_message_type (t_type x) = true ->
            schema_of (t_type x) (schemas_of defs tys) = Some (expected_schema defs (t_type x)).
Proof. exact db3_to_mcap_fs_universe. Qed.
Print Assumptions C18_schema_db3_universe.
Example C18_schema_db3_universe_ex :
  wf_defs ex_defs = true /\
  forall x, In x ex_fs_topics -> is_message_type (t_type x) = true -> In (t_type x) (map type_of ex_defs).
Proof. exact ex_fs_topics_in_universe. Qed.

(* computed independently of the theorems: the conversion over the example tree succeeds and writes the two schemas;
   with a topic whose type has no definition it fails before anything is written *)
Example C18_schema_db3_ex_run :
  match db3_to_mcap_fs (ex_opts false 0) ex_lib ex_compress ex_tree [ex_dir] ex_fs_topics [] with
  | Ok r => dr_err r = None /\
            map s_data (calls_schemas (db3_expected_calls ex_fs_topics (schemas_of ex_defs [B "pa/msg/A"; B "pb/msg/Bb"]) []))
            = [ex_text_A; ex_text_Bb]
  | _ => False
  end /\
  match db3_to_mcap_fs (ex_opts false 0) ex_lib ex_compress ex_tree [ex_dir] (ex_topic 4 (B "pa/msg/Nope") :: ex_fs_topics) [] with
  | Ok r => dr_err r = Some EOther /\ dr_writes r = []
  | _ => False
  end.
Proof. vm_compute. repeat split. Qed.

(* the specification does not depend on its fuel *)
Theorem C18_schema_spec_fuel : forall defs, wf_defs defs = true ->
  forall ty f, In ty (map type_of defs) -> length defs <= f -> bfs f defs [ty] [ty] = bfs_order defs ty.
Proof. exact bfs_order_stable. Qed.
Print Assumptions C18_schema_spec_fuel.

(* what the order is: it starts with ty, has no repetition, is closed under "refers to", and every other member is
   referred to by a member (refers defs q r: q is the type of a definition of the universe that has a field of type r) *)
Theorem C18_schema_spec_order : forall defs, wf_defs defs = true ->
  forall ty, In ty (map type_of defs) ->
  exists extra, bfs_order defs ty = ty :: extra /\ NoDup (ty :: extra) /\
    (forall q r, In q (ty :: extra) -> refers defs q r -> In r (ty :: extra)) /\
    (forall x, In x extra -> exists q, In q (ty :: extra) /\ refers defs q x).
Proof. exact bfs_order_spec. Qed.
Print Assumptions C18_schema_spec_order.

(* distinct type names = distinct (package, name) pairs *)
Theorem C18_schema_type_pairs : forall d d', mdef_ok d = true -> mdef_ok d' = true -> type_of d = type_of d' ->
  md_pkg d = md_pkg d' /\ md_name d = md_name d'.
Proof. exact type_of_pair_inj. Qed.
Print Assumptions C18_schema_type_pairs.
Example C18_schema_type_pairs_ex : forallb mdef_ok ex_defs = true.
Proof. vm_compute. reflexivity. Qed.

(* (a) no references: the content of the file; (b) one level of references *)
Theorem C18_schema_leaf : forall defs, wf_defs defs = true ->
  forall d, In d defs -> refs_of d = [] -> expected_schema defs (type_of d) = text_of d.
Proof. exact expected_leaf. Qed.
Print Assumptions C18_schema_leaf.

Theorem C18_schema_one_level : forall defs, wf_defs defs = true ->
  forall d, In d defs ->
  (forall q d', In q (refs_of d) -> lookup defs q = Some d' -> refs_of d' = []) ->
  expected_schema defs (type_of d) = render_defs (d :: lookup_all defs (fresh (refs_of d) [type_of d])).
Proof. exact expected_one_level. Qed.
Print Assumptions C18_schema_one_level.

(* non-vacuity: two packages, pa/A and pb/Bb refer to each other, both refer to pa/Leaf *)
Example C18_schema_ex_wf :
  wf_defs ex_defs = true /\ map type_of ex_defs = [B "pa/msg/A"; B "pb/msg/Bb"; B "pa/msg/Leaf"] /\
  map refs_of ex_defs = [[B "pb/msg/Bb"; B "pa/msg/Leaf"]; [B "pa/msg/A"; B "pa/msg/Leaf"]; []].
Proof. vm_compute. repeat split. Qed.

Example C18_schema_ex_leaf : exists d, In d ex_defs /\ refs_of d = [].
Proof. eexists. split; [right; right; left; reflexivity|reflexivity]. Qed.

Example C18_schema_ex_one_level :
  wf_defs ex_defs2 = true /\
  exists d, In d ex_defs2 /\ md_name d = B "Top" /\
            forall q d', In q (refs_of d) -> lookup ex_defs2 q = Some d' -> refs_of d' = [].
Proof. exact ex_defs2_one_level. Qed.

Example C18_schema_ex_one_level_result :
  get_schema_for (tree_of ex_dir ex_defs2) [ex_dir] (B "pa/msg/Top") = Ok (B
"Leaf a
pb/Other b
pa/Leaf c
================================================================================
MSG: pa/Leaf
bool x
================================================================================
MSG: pb/Other
float64 y
").
Proof. vm_compute. reflexivity. Qed.

(* computed independently of the theorems: the assembled texts *)
Example C18_schema_ex_result :
  get_schemas ex_tree [ex_dir] [B "pa/msg/A"; B "pb/msg/Bb"; B "pa/msg/Leaf"; B "pa/msg/A"] []
  = Ok [(B "pa/msg/A", ex_text_A); (B "pb/msg/Bb", ex_text_Bb); (B "pa/msg/Leaf", ex_text_Leaf)] /\
  expected_schema ex_defs (B "pa/msg/A") = ex_text_A /\
  expected_schema ex_defs (B "pb/msg/Bb") = ex_text_Bb /\
  expected_schema ex_defs (B "pa/msg/Leaf") = ex_text_Leaf /\
  bfs_order ex_defs (B "pb/msg/Bb") = [B "pb/msg/Bb"; B "pa/msg/A"; B "pa/msg/Leaf"].
Proof. vm_compute. repeat split. Qed.

(* several search directories: the first one that has the index entry and the line is used *)
Example C18_schema_ex_search_dirs :
  get_schema_for ex_tree [[B "nowhere"]; ex_dir] (B "pa/msg/Leaf") = Ok ex_text_Leaf /\
  get_schema_for ex_tree [] (B "pa/msg/Leaf") = Err EOther.
Proof. vm_compute. split; reflexivity. Qed.

(* the root type name is not normalised (only fields 1 and 3 are used); all these are distinct entries of `seen`,
   the fuel is not exhausted *)
Example C18_schema_ex_root_variants :
  map (fun ty => is_ok (get_schema_for ex_tree [ex_dir] ty))
      [B "pa/msg/A"; B "pa//msg/A"; B "pa/x/A"; B "pa/msg/A/extra"; B "/pa/msg/A/"]
  = [true; true; true; true; false] /\
  fs_weight ex_tree = 118 /\ length (keys ex_tree) = 12.
Proof. vm_compute. repeat split. Qed.

(* ---------------------------------------------------------------------------------------------- *)
(* 4. hostile inputs                                                                               *)
(* ---------------------------------------------------------------------------------------------- *)

(* definition files "/ x" and "// y" (field types made of separators only: the crash found with this model, fixed in
   the Go code), an empty file, a field of a type that has no definition, a field type "../X" *)
Example C18_schema_ex_hostile_files :
  map text_of hostile_defs = [B "/ x"; B "// y"; B ""; B "Nowhere z"; B "../X z"] /\
  map (get_schema_for hostile_tree [ex_dir]) (map type_of hostile_defs)
  = [Err EOther; Err EOther; Ok []; Err EOther; Err EOther].
Proof. vm_compute. split; reflexivity. Qed.

(* type names: "", "pkg/T", "pkg/msg/..", a type that is not listed, a package without index entry, separators only *)
Example C18_schema_ex_hostile_types :
  map (get_schema_for ex_tree [ex_dir]) [B ""; B "pa/A"; B "pa/msg/.."; B "pa/msg/Nope"; B "zz/msg/A"; B "/"; B "///"]
  = [Err EOther; Err EOther; Err EOther; Err EOther; Err EOther; Err EOther; Err EOther].
Proof. vm_compute. reflexivity. Qed.

(* the index entry of the package is a directory (listed, or the parent of a file); the definition file of pa/A is
   missing (also when it is only referenced: pb/Bb); pa/Leaf is still found *)
Example C18_schema_ex_hostile_trees :
  get_schema_for index_dir_tree [ex_dir] (B "pa/msg/A") = Err EOther /\
  get_schema_for index_below_file_tree [ex_dir] (B "pa/msg/A") = Err EOther /\
  get_schema_for missing_def_tree [ex_dir] (B "pa/msg/A") = Err EOther /\
  get_schema_for missing_def_tree [ex_dir] (B "pb/msg/Bb") = Err EOther /\
  get_schema_for missing_def_tree [ex_dir] (B "pa/msg/Leaf") = Ok ex_text_Leaf.
Proof. vm_compute. repeat split. Qed.
