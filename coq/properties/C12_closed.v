(* C12_closed - companion of C12.v (C12_writer_layouts) with the ACTUAL lexer runs on the two
   written files and hypotheses about the writers' inputs only (writer_ok for both configurations,
   see C09_closed.v).  Proof in theories/Closed2.v: composition of C12_writer_layouts with
   C01_closed.writer_trace_wf / writer_trace_fuel / C01_file_is_trace.

   Two Go writer configurations (chunked or not, any chunk size, any compression the lexer's
   decoder undoes, any Skip* flags, CRCs on/off) are given the same calls; the same lexer reads
   both files to the end (io.EOF) and delivers the same header/attachment/metadata events in the
   same order and the same schema/channel/message tokens in the same order.  (The relative order
   of the two classes differs between layouts: C12.v, C12_ex_layouts.) *)
From Mcap Require ConstsTie LayoutTie DecisionTieR. (* regenerated ties to /repo's source that this property's model relies on *)
From Coq Require Import List NArith ZArith Bool.
From Coq.Strings Require Import Byte.
From Mcap Require Import Bytes GoSem Crc32 Records RecordsFacts Writer WriterFactsA WriterFactsB
  Lexer LexSpec LexerFactsB ComposeFacts C01Closed Closed2.
Import ListNotations.
Open Scope N_scope.

Theorem C12_closed : forall o1 o2 lib comp1 comp2 lo ds cs' sk1 sk2,
  writer_ok o1 lib comp1 lo ds cs' -> writer_ok o2 lib comp2 lo ds cs' ->
  o_override_lib o1 = o_override_lib o2 ->
  Forall call_small cs' -> lo_emit_chunks lo = false ->
  let R1 := W o1 lib comp1 None (cs' ++ [CClose]) in
  let R2 := W o2 lib comp2 None (cs' ++ [CClose]) in
  exists evs1 evs2 st1 st2,
    lex_all lo ds (fuel_of (file_of R1) cs') (src_of (file_of R1) sk1) = Ok (evs1, EEOF, st1) /\
    lex_all lo ds (fuel_of (file_of R2) cs') (src_of (file_of R2) sk2) = Ok (evs2, EEOF, st2) /\
    filter ev_direct (data_events evs1) = filter ev_direct (data_events evs2) /\
    filter ev_auto (data_events evs1) = filter ev_auto (data_events evs2).
Proof. exact C12_closed_thm. Qed.
Print Assumptions C12_closed.

(* ----- non-vacuity: the four writer configurations of C01_closed.v (two uncompressed chunks; a
   toy compressing codec; unchunked with Skip* flags; one big chunk written at Close), all read by
   ex_lo with the decoder ds_z ----- *)
Example C12_closed_ex_hyps :
  writer_ok ex_o ex_lib ex_comp ex_lo ds_z ex_cs_pre /\ writer_ok ex_o_z ex_lib comp_z ex_lo ds_z ex_cs_pre /\
  writer_ok ex_o_u ex_lib ex_comp ex_lo ds_z ex_cs_pre /\ writer_ok ex_o_big ex_lib ex_comp ex_lo ds_z ex_cs_pre /\
  Forall call_small ex_cs_pre /\ lo_emit_chunks ex_lo = false /\
  o_override_lib ex_o = o_override_lib ex_o_z /\ o_override_lib ex_o = o_override_lib ex_o_u /\
  o_override_lib ex_o = o_override_lib ex_o_big.
Proof. exact ex2_C12_hyps. Qed.

(* computed independently of the theorem: ex2_run o comp = the lexer run of the theorem on the
   file written under (o, comp); same_classes = both end with io.EOF and agree on both classes
   (3 header/attachment/metadata events, 5 schema/channel/message tokens) *)
Example C12_closed_ex_computed :
  same_classes (ex2_run ex_o ex_comp) (ex2_run ex_o_z comp_z) /\
  same_classes (ex2_run ex_o ex_comp) (ex2_run ex_o_u ex_comp) /\
  same_classes (ex2_run ex_o ex_comp) (ex2_run ex_o_big ex_comp) /\
  file_of (W ex_o ex_lib ex_comp None (ex_cs_pre ++ [CClose])) <> file_of (W ex_o_big ex_lib ex_comp None (ex_cs_pre ++ [CClose])).
Proof. exact ex2_C12_computed. Qed.
