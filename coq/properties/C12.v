(* C12 - Readers return the same content for every legal layout of it.
   "Two spec-valid files that carry the same logical content return the same content from the Go
    readers, however the producer chose to lay it out: how messages are split into chunks, which
    compression each chunk uses, where and how often schema and channel records are repeated, in
    which order the summary groups appear, and which optional parts (message indexes, statistics,
    summary offsets, attachment/metadata indexes, CRCs) are present."

   Lexer half, on the lexer model; all proofs are in theories/ComposeFacts.v.

   The logical records of a file: data_records (lunz lo ds) items flattens the items before the
   DataEnd record into framed records / attachments, every chunk being replaced by the records of
   its decompressed content (lunz = the lexer's own decompressor).  content_events keeps, of what
   the lexer delivers before the DataEnd token, the header/schema/channel/message/metadata tokens
   and the attachment events.

   C12_content              content_events is a function of the content records alone;
   C12_chunking_invisible   two item lists with the same content records give the same
                            content_events: the partition of the records into chunks, the
                            compression of each chunk, the presence and position of message-index
                            records, unknown records, everything from DataEnd on (summary section
                            with or without statistics, indexes, summary offsets; CRC values in
                            DataEnd/footer) do not show;
   C12_lexer                hence, for two well-formed files, the lexer model returns event lists
                            with the same content_events;
   C12_rechunk              one chunk holding inner1 ++ inner2, two chunks holding inner1 and
                            inner2 (any compression each), and the same records unchunked are the
                            same records;
   C12_writer_layouts       two Go writer configurations (chunked or not, any chunk size, any
                            compression the lexer's decoder undoes, any Skip* flags, CRCs on/off)
                            given the same calls: the lexer delivers the same schema/channel/
                            message tokens in the same order and the same header/attachment/
                            metadata events in the same order.

   What the lexer level cannot hide, and what is not covered here:
   - a schema or channel record repeated in the data section is a token each time (the readers
     built on the lexer de-duplicate them; tied by the harness);
   - the relative order between attachment/metadata records and chunked records differs between
     layouts (ComposeFacts.ex_layouts), so C12_writer_layouts is stated per class;
   - the order of the summary groups, Info and the index-based readers: tied by the harness (the
     order-dependent summary pass of the indexed reader was a defect and has been fixed in /repo). *)
From Mcap Require ConstsTie LayoutTie DecisionTieR. (* regenerated ties to /repo's source that this property's model relies on *)
From Coq Require Import List NArith ZArith Bool.
From Coq.Strings Require Import Byte.
From Mcap Require Import Bytes GoSem Crc32 Records RecordsFacts Writer WriterFactsB Lexer LexSpec LexerFactsB
  ComposeFacts.
Import ListNotations.
Open Scope N_scope.

Theorem C12_content : forall lo ds items,
  lo_emit_chunks lo = false ->
  content_events (file_events lo ds items)
  = flat_map (crec_events lo) (filter is_content (data_records (lunz lo ds) items)).
Proof. exact C12_content_thm. Qed.
Print Assumptions C12_content.

Theorem C12_chunking_invisible : forall lo ds items1 items2,
  lo_emit_chunks lo = false ->
  filter is_content (data_records (lunz lo ds) items1) = filter is_content (data_records (lunz lo ds) items2) ->
  content_events (file_events lo ds items1) = content_events (file_events lo ds items2).
Proof. exact C12_chunking_invisible_thm. Qed.
Print Assumptions C12_chunking_invisible.

Theorem C12_lexer : forall lo ds items1 items2 sk1 sk2,
  lo_emit_chunks lo = false -> wf_file lo ds items1 -> wf_file lo ds items2 ->
  filter is_content (data_records (lunz lo ds) items1) = filter is_content (data_records (lunz lo ds) items2) ->
  forall fuel, (file_steps lo ds items1 + 1 <= fuel)%nat -> (file_steps lo ds items2 + 1 <= fuel)%nat ->
  exists evs1 evs2 st1 st2,
    lex_all lo ds fuel (src_of (render items1) sk1) = Ok (evs1, EEOF, st1) /\
    lex_all lo ds fuel (src_of (render items2) sk2) = Ok (evs2, EEOF, st2) /\
    content_events evs1 = content_events evs2.
Proof. exact C12_lexer_thm. Qed.
Print Assumptions C12_lexer.

Theorem C12_rechunk : forall lo ds k k1 k2 inner1 inner2 pre post,
  chunk_stream lo ds (k_comp k) (k_records k) None = (frames (inner1 ++ inner2), None) ->
  chunk_stream lo ds (k_comp k1) (k_records k1) None = (frames inner1, None) ->
  chunk_stream lo ds (k_comp k2) (k_records k2) None = (frames inner2, None) ->
  Forall (fun r => blen (snd r) < two64) (inner1 ++ inner2) ->
  all_records (lunz lo ds) (pre ++ IChunk k :: post) = all_records (lunz lo ds) (pre ++ IChunk k1 :: IChunk k2 :: post)
  /\ all_records (lunz lo ds) (pre ++ IChunk k :: post)
     = all_records (lunz lo ds) (pre ++ map (fun r => IRec (fst r) (snd r)) (inner1 ++ inner2) ++ post).
Proof. exact C12_rechunk_thm. Qed.
Print Assumptions C12_rechunk.

Theorem C12_writer_layouts : forall o1 o2 lib comp1 comp2 lo ds cs',
  C06_hyps o1 lib comp1 cs' -> C06_hyps o2 lib comp2 cs' ->
  codec_ok lo ds o1 comp1 -> codec_ok lo ds o2 comp2 ->
  o_override_lib o1 = o_override_lib o2 ->
  Forall call_small cs' -> lo_emit_chunks lo = false ->
  let ev o comp := data_events (file_events lo ds (rev (w_trace (r_final (W o lib comp None (cs' ++ [CClose])))))) in
  filter ev_direct (ev o1 comp1) = filter ev_direct (ev o2 comp2) /\
  filter ev_auto (ev o1 comp1) = filter ev_auto (ev o2 comp2).
Proof. exact C12_writer_layouts_thm. Qed.
Print Assumptions C12_writer_layouts.

(* ----- non-vacuity ----- *)
(* the example file of LexerFactsB section 9 against a re-laid-out version: the first message in a
   "compressed" chunk of its own (toy codec ds_z), a message-index record after it, the second
   message unchunked.  The files and the full event lists differ. *)
Example C12_ex_hyps :
  lo_emit_chunks ex_lo = false /\ wf_file ex_lo ds_z ex_items /\ wf_file ex_lo ds_z ex_items_split /\
  filter is_content (data_records (lunz ex_lo ds_z) ex_items)
    = filter is_content (data_records (lunz ex_lo ds_z) ex_items_split) /\
  (file_steps ex_lo ds_z ex_items + 1 <= 40)%nat /\ (file_steps ex_lo ds_z ex_items_split + 1 <= 40)%nat /\
  render ex_items <> render ex_items_split /\
  file_events ex_lo ds_z ex_items <> file_events ex_lo ds_z ex_items_split.
Proof. exact ex_split_hyps. Qed.

Example C12_ex_rechunk_hyps :
  chunk_stream ex_lo ds_z (k_comp ex_k) (k_records ex_k) None
    = (frames ([(OpMessage, ex_m1)] ++ [(OpMessage, ex_m2)]), None) /\
  chunk_stream ex_lo ds_z (k_comp ex_k_a) (k_records ex_k_a) None = (frames [(OpMessage, ex_m1)], None) /\
  Forall (fun r : byte * bytes => blen (snd r) < two64) ([(OpMessage, ex_m1)] ++ [(OpMessage, ex_m2)]).
Proof. exact ex_rechunk_hyps. Qed.

(* four Go writer configurations on the same calls: hypotheses of C12_writer_layouts, and the
   outcome computed independently of the theorem *)
Example C12_ex_writer_hyps :
  C06_hyps ex_o ex_lib ex_comp ex_cs_pre /\ C06_hyps ex_o_z ex_lib comp_z ex_cs_pre /\
  C06_hyps ex_o_u ex_lib ex_comp ex_cs_pre /\ C06_hyps ex_o_big ex_lib ex_comp ex_cs_pre /\
  codec_ok ex_lo ds_z ex_o ex_comp /\ codec_ok ex_lo ds_z ex_o_z comp_z /\
  codec_ok ex_lo ds_z ex_o_u ex_comp /\ codec_ok ex_lo ds_z ex_o_big ex_comp /\
  Forall call_small ex_cs_pre.
Proof.
  split; [exact ex_C06_hyps|]. split; [exact ex_C06_hyps_z|]. split; [exact ex_C06_hyps_u|].
  split; [exact ex_C06_hyps_big|]. split; [exact ex_codec_ok_n|]. split; [exact ex_codec_ok_z|].
  split; [exact ex_codec_ok_u|]. split; [exact ex_codec_ok_big|exact ex_call_small].
Qed.

Example C12_ex_layouts :
  render ex_trace <> render ex_trace_z /\ render ex_trace <> render ex_trace_u /\
  render ex_trace <> render ex_trace_big /\
  content_events (file_events ex_lo ds_z ex_trace) = content_events (file_events ex_lo ds_z ex_trace_z) /\
  content_events (file_events ex_lo ds_z ex_trace) = content_events (file_events ex_lo ds_z ex_trace_u) /\
  content_events (file_events ex_lo ds_z ex_trace) <> content_events (file_events ex_lo ds_z ex_trace_big) /\
  filter ev_auto (data_events (file_events ex_lo ds_z ex_trace))
    = filter ev_auto (data_events (file_events ex_lo ds_z ex_trace_big)) /\
  filter ev_direct (data_events (file_events ex_lo ds_z ex_trace))
    = filter ev_direct (data_events (file_events ex_lo ds_z ex_trace_big)).
Proof. exact ex_layouts. Qed.
