(* C08 (writer half) - the statistics a written file carries equal the true aggregates of what
   was written.  Proofs: theories/WriterFactsA.v.
   `true_stats cs` gives the aggregates of a call list as plain folds; `stats_correct cs s` says the
   w_st_* fields of state s are those aggregates (and chunk count = number of chunk indexes);
   `record_correct cs n st` says the same of a Statistics record, including its per-channel map. *)
From Mcap Require ConstsTie LayoutTie DecisionTieW. (* regenerated ties to /repo's source that this property's model relies on *)
From Coq Require Import List NArith ZArith Bool.
From Coq.Strings Require Import Byte.
From Mcap Require Import Bytes GoSem Records Writer WriterFactsA.
Import ListNotations.
Open Scope N_scope.

(* final state: any fault setting (a triggered fault makes some call fail, so the hypotheses
   exclude it); the fault-free case asked for is the instance flt := None below *)
Theorem C08_writer_statistics : forall o lib comp flt cs,
  let R := W o lib comp flt cs in
  r_new R = None -> Forall (fun r => fst r = None) (r_calls R) ->
  stats_correct cs (r_final R).
Proof. exact C08_writer_statistics_proof. Qed.
Print Assumptions C08_writer_statistics.

Theorem C08_writer_statistics_fault_free : forall o lib comp cs,
  let R := W o lib comp None cs in
  r_new R = None -> Forall (fun r => fst r = None) (r_calls R) ->
  stats_correct cs (r_final R).
Proof. exact (fun o lib comp => C08_writer_statistics_proof o lib comp None). Qed.
Print Assumptions C08_writer_statistics_fault_free.

(* the Statistics record emitted by a successful Close *)
Theorem C08_statistics_record : forall o lib comp flt cs0,
  let cs := cs0 ++ [CClose] in
  let R := W o lib comp flt cs in
  r_new R = None -> Forall (fun r => fst r = None) (r_calls R) -> o_skip_stats o = false ->
  let st := stats_record (r_final R) in
  In (IRec OpStatistics (enc_statistics st)) (w_trace (r_final R)) /\
  record_correct cs (N.of_nat (length (w_chunk_indexes (r_final R)))) st.
Proof. exact C08_statistics_record_proof. Qed.
Print Assumptions C08_statistics_record.

(* ---- non-vacuity: two channels, out-of-order log times including 0, chunk size 1 ---- *)
Definition ex_opts : wopts :=
  {| o_crc := true; o_chunked := true; o_chunksize := 1; o_comp := []; o_custom := false;
     o_skip_mi := false; o_skip_stats := false; o_skip_rsh := false; o_skip_rch := false;
     o_skip_ai := false; o_skip_mdi := false; o_skip_ci := false; o_skip_so := false;
     o_override_lib := false; o_skip_magic := false |}.
Definition ex_lib : bytes := [x6d; x63].
Definition ex_comp : nat -> bytes -> bytes := fun _ b => b.
Definition msg (ch lt : N) : wcall :=
  CMessage {| m_chan := ch; m_seq := 0; m_log := lt; m_pub := lt; m_data := [x2a] |}.
Definition ex_body : list wcall :=
  [ CHeader {| h_profile := []; h_library := [] |};
    CSchema {| s_id := 1; s_name := [x73]; s_encoding := [x65]; s_data := [x01] |};
    CSchema {| s_id := 1; s_name := [x73]; s_encoding := [x65]; s_data := [x01] |};   (* repeated id *)
    CChannel {| c_id := 1; c_schema := 1; c_topic := [x74]; c_menc := [x65]; c_meta := [] |};
    CChannel {| c_id := 2; c_schema := 0; c_topic := [x75]; c_menc := [x65]; c_meta := [([x6b], [x76])] |};
    CChannel {| c_id := 3; c_schema := 0; c_topic := [x76]; c_menc := [x65]; c_meta := [] |};     (* no message *)
    msg 2 5; msg 1 9; msg 2 0; msg 2 3;
    CAttachment {| a_log := 1; a_create := 2; a_name := [x61]; a_media := [x6d]; a_size := 3; a_data := [] |}
                {| as_frags := [[x01; x02]; [x03]]; as_fail := false |};
    CMetadata {| md_name := [x6e]; md_meta := [([x6b], [x76])] |};
    CMetadata {| md_name := [x6f]; md_meta := [] |} ].
Notation ex_cs := (ex_body ++ [CClose]).
Notation ex_R := (W ex_opts ex_lib ex_comp None ex_cs).

Example ex_hyp_new : r_new ex_R = None.
Proof. vm_compute. reflexivity. Qed.
Example ex_hyp_calls : Forall (fun r => fst r = None) (r_calls ex_R).
Proof. vm_compute. repeat constructor. Qed.
Example ex_hyp_stats : o_skip_stats ex_opts = false.
Proof. reflexivity. Qed.

(* the aggregates of the example, and the state fields they are claimed equal to *)
Example ex_true_stats :
  let a := true_stats ex_cs in
  (ag_messages a, ag_messages_on a 1, ag_messages_on a 2, ag_messages_on a 3, ag_schemas a, ag_channels a,
   ag_attachments a, ag_metadata a, ag_start a, ag_end a) = (4, 1, 3, 0, 1, 3, 1, 2, 0, 9).
Proof. vm_compute. reflexivity. Qed.
Example ex_final_fields :
  let s := r_final ex_R in
  (w_st_messages s, w_st_counts s, w_st_schemas s, w_st_channels s, w_st_attachments s, w_st_metadata s,
   w_st_chunks s, length (w_chunk_indexes s), w_st_start s, w_st_end s)
  = (4, [(1, 1); (2, 3)], 1, 3, 1, 2, 4, 4%nat, 0, 9).
Proof. vm_compute. reflexivity. Qed.

Example ex_theorem_applies : stats_correct ex_cs (r_final ex_R).
Proof. exact (C08_writer_statistics ex_opts ex_lib ex_comp None ex_cs ex_hyp_new ex_hyp_calls). Qed.
Example ex_record_applies :
  let st := stats_record (r_final ex_R) in
  In (IRec OpStatistics (enc_statistics st)) (w_trace (r_final ex_R)) /\
  record_correct ex_cs (N.of_nat (length (w_chunk_indexes (r_final ex_R)))) st.
Proof. exact (C08_statistics_record ex_opts ex_lib ex_comp None ex_body ex_hyp_new ex_hyp_calls ex_hyp_stats). Qed.
Example ex_record_value :
  stats_record (r_final ex_R) =
  {| st_messages := 4; st_schemas := 1; st_channels := 3; st_attachments := 1; st_metadata := 2; st_chunks := 4;
     st_start := 0; st_end := 9; st_counts := [(1, 1); (2, 3)] |}.
Proof. vm_compute. reflexivity. Qed.

(* Caveat on the wording "both zero only when there is no message": start and end are the
   minimum and maximum log time, so they are also both zero when every message has log time 0. *)
Example ex_zero_times_with_a_message :
  let R := W ex_opts ex_lib ex_comp None
             [CChannel {| c_id := 1; c_schema := 0; c_topic := []; c_menc := []; c_meta := [] |}; msg 1 0; CClose] in
  r_new R = None /\ map fst (r_calls R) = [None; None; None] /\
  (w_st_messages (r_final R), w_st_start (r_final R), w_st_end (r_final R)) = (1, 0, 0).
Proof. vm_compute. repeat split. Qed.
