(* C20, end to end over the writer model (all proofs in theories/EndToEnd2.v).

   C20 - "While reading through the index, the number of decompressed chunks held at once never
   exceeds max(1, the largest number of chunks whose time ranges overlap) (1 in file order); slots
   are reused."

   properties/C20.v proves the bound for the ABSTRACT iterator (C20_slots_time / C20_slots_file) and,
   under loader_ok, chunks_wf, ranges_ok and distinct offsets, for the byte-level iterator
   (C20_indexed_slots).  Here the file is one the WRITER model produced (EndToEnd.e2e_hyps), the
   read is Reader.read_messages on its bytes, rr_slots ri = (largest number of slots ever allocated,
   largest number of slots holding unread messages) as the model records them after every
   NextInto, and every hypothesis of the abstract theorem is DERIVED from the writer facts (C05):
     chunks_wf   the chunk index range covers the chunk's messages       (EndToEnd2.cks_wf)
     ranges_ok   start <= end                                           (EndToEnd2.cks_ranges)
     offsets     the chunk offsets are strictly increasing              (EndToEnd.cks_file_ordered)
   The iterator loads only the chunk indexes that survive the pruning by window and topics; their
   overlap is at most that of all chunk indexes (max_overlap_kept).
   The bound is max 1 (max_overlap (map ci_range cis)), cis the chunk indexes of the summary, ci_range
   ci the abstract chunk with ci's start, end and offset; also in terms of Reader.Info (C20_e2e_info).
   Full for reads that end with io.EOF: C20_e2e (every option list the dispatch sends to the indexed
   iterator), C20_e2e_enabled (index enabled: every accepted option list; io.EOF is then proved),
   C20_e2e_info.  Not covered: reads that end with an error (none on writer-produced files with the
   index enabled). *)
From Mcap Require ConstsTie LayoutTie. (* regenerated ties to /repo's source that this property's model relies on *)
From Coq Require Import List NArith ZArith Bool Permutation Sorted.
From Coq.Strings Require Import Byte.
From Mcap Require Import Bytes GoSem Crc32 Records RecordsFacts Writer WriterFactsC Lexer LexSpec LexerFactsB
  ComposeFacts Reader Iter ReaderFacts ReaderFacts2 EndToEnd EndToEnd2.
From McapProps Require Import C02.
Import ListNotations E2E_Writer.
Open Scope N_scope.

Theorem C20_e2e : C20_e2e_statement.
Proof. exact C20_e2e_thm. Qed.
Print Assumptions C20_e2e.

(* the statement unfolded *)
Theorem C20_e2e_unfolded :
  forall ds dall o lib compress hd cs, e2e_hyps ds dall o lib compress hd cs ->
  let w := W o lib compress None (CHeader hd :: cs ++ [CClose]) in
  let f := mem_file (file_of w) in
  let cis := if o_skip_ci (effective_opts o) then [] else w_chunk_indexes (r_final w) in
  forall os r ri,
    messages_dispatch ds f os = Ok (MIndexed, r) -> ro_md_cb r = false ->
    read_messages ds dall f os = Ok ri -> rr_end ri = EEOF ->
    (ro_order r = FileOrder -> (fst (rr_slots ri) <= 1)%nat /\ (snd (rr_slots ri) <= 1)%nat) /\
    (ro_order r <> FileOrder ->
       (fst (rr_slots ri) <= Nat.max 1 (max_overlap (map ci_range cis)))%nat /\
       (snd (rr_slots ri) <= Nat.max 1 (max_overlap (map ci_range cis)))%nat).
Proof. exact C20_e2e_thm. Qed.
Print Assumptions C20_e2e_unfolded.

(* index enabled, and statistics or a channel: every accepted option list that keeps the index and
   installs no metadata callback *)
Theorem C20_e2e_enabled :
  forall ds dall o lib compress hd cs, e2e_hyps ds dall o lib compress hd cs ->
  index_enabled (effective_opts o) -> o_skip_stats o = false \/ (exists c, In (CChannel c) cs) ->
  let w := W o lib compress None (CHeader hd :: cs ++ [CClose]) in
  let f := mem_file (file_of w) in
  forall os r0 ri,
    apply_opts os default_ropts = Ok r0 -> ro_use_index r0 = true -> ro_md_cb r0 = false ->
    read_messages ds dall f os = Ok ri ->
    rr_mode ri = Some MIndexed /\ rr_end ri = EEOF /\
    (ro_order r0 = FileOrder -> (fst (rr_slots ri) <= 1)%nat /\ (snd (rr_slots ri) <= 1)%nat) /\
    (fst (rr_slots ri) <= Nat.max 1 (max_overlap (map ci_range (w_chunk_indexes (r_final w)))))%nat /\
    (snd (rr_slots ri) <= Nat.max 1 (max_overlap (map ci_range (w_chunk_indexes (r_final w)))))%nat.
Proof. exact C20_e2e_enabled_thm. Qed.
Print Assumptions C20_e2e_enabled.

(* the bound computed from what Reader.Info returns for the file *)
Theorem C20_e2e_info :
  forall ds dall o lib compress hd cs, e2e_hyps ds dall o lib compress hd cs ->
  let f := mem_file (file_of (W o lib compress None (CHeader hd :: cs ++ [CClose]))) in
  forall sm os r ri,
    info ds f = Ok sm ->
    messages_dispatch ds f os = Ok (MIndexed, r) -> ro_md_cb r = false ->
    read_messages ds dall f os = Ok ri -> rr_end ri = EEOF ->
    (ro_order r = FileOrder -> (fst (rr_slots ri) <= 1)%nat /\ (snd (rr_slots ri) <= 1)%nat) /\
    (fst (rr_slots ri) <= Nat.max 1 (max_overlap (map ci_range (sm_cis sm))))%nat /\
    (snd (rr_slots ri) <= Nat.max 1 (max_overlap (map ci_range (sm_cis sm))))%nat.
Proof. exact C20_e2e_info_thm. Qed.
Print Assumptions C20_e2e_info.

(* max_overlap only depends on the time ranges *)
Theorem C20_e2e_overlap_ranges : forall l l' : list achunk,
  map (fun c => (ac_start c, ac_end c)) l = map (fun c => (ac_start c, ac_end c)) l' ->
  max_overlap l = max_overlap l'.
Proof. exact max_overlap_ranges. Qed.
Print Assumptions C20_e2e_overlap_ranges.

(* ---------- non-vacuity ---------- *)
Example C20_e2e_ex_hyps :
  e2e_hyps ds_id ce_dall ov_o [x6c] ce_id ex_hd ov_cs /\
  index_enabled (effective_opts ov_o) /\ (exists c, In (CChannel c) ov_cs) /\
  e2e_hyps ds_id ce_dall y_o [x6c] ce_id ex_hd ex_cs /\
  index_enabled (effective_opts y_o) /\ (exists c, In (CChannel c) ex_cs).
Proof.
  exact (conj ov_hyps (conj (proj1 ov_enabled) (conj (proj1 (proj2 ov_enabled))
          (conj ex1_hyps (proj2 (proj2 ov_enabled)))))).
Qed.

(* the chunk time ranges of the two runs and their overlap: 2 for the overlapping run (chunks
   [10,40] and [20,60]; [50,50] and [20,60]), 1 for the run with one message per chunk *)
Example C20_e2e_ex_layout :
  map (fun ci => (ci_start ci, ci_end ci, ci_offset ci)) (w_chunk_indexes (r_final ov_w))
    = [(50, 50, 26); (10, 40, 224); (20, 60, 444); (5, 5, 664)] /\
  max_overlap (map ci_range (w_chunk_indexes (r_final ov_w))) = 2%nat /\
  map (fun ci => (ci_start ci, ci_end ci)) (w_chunk_indexes (r_final (W y_o [x6c] ce_id None (CHeader ex_hd :: ex_cs ++ [CClose]))))
    = [(10, 10); (7, 7); (12, 12); (3, 3)] /\
  max_overlap (map ci_range (w_chunk_indexes (r_final (W y_o [x6c] ce_id None (CHeader ex_hd :: ex_cs ++ [CClose]))))) = 1%nat.
Proof. exact ov_layout. Qed.

Example C20_e2e_ex_info :
  option_map (fun sm => max_overlap (map ci_range (sm_cis sm))) (match info ds_id ov_f with Ok sm => Some sm | _ => None end) = Some 2%nat.
Proof. exact ov_info_overlap. Qed.

(* the slot statistics of the reads, computed independently of the theorems (third component):
   file order 1 slot, the two time orders 2 slots on the overlapping run - the bound is attained *)
Example C20_e2e_ex_reads :
  ov_view (read_messages ds_id ce_dall ov_f [OUsingIndex false])
    = Some (Some MScan, [(1, 1, 50); (1, 2, 10); (2, 3, 40); (1, 4, 40); (2, 5, 20); (1, 6, 60); (2, 7, 20); (1, 8, 5)], (0, 0)%nat, EEOF) /\
  ov_view (read_messages ds_id ce_dall ov_f [])
    = Some (Some MIndexed, [(1, 1, 50); (1, 2, 10); (2, 3, 40); (1, 4, 40); (2, 5, 20); (1, 6, 60); (2, 7, 20); (1, 8, 5)], (1, 1)%nat, EEOF) /\
  ov_view (read_messages ds_id ce_dall ov_f [OInOrder LogTimeOrder])
    = Some (Some MIndexed, [(1, 8, 5); (1, 2, 10); (2, 5, 20); (2, 7, 20); (2, 3, 40); (1, 4, 40); (1, 1, 50); (1, 6, 60)], (2, 2)%nat, EEOF) /\
  ov_view (read_messages ds_id ce_dall ov_f [OInOrder ReverseLogTimeOrder])
    = Some (Some MIndexed, [(1, 6, 60); (1, 1, 50); (1, 4, 40); (2, 3, 40); (2, 7, 20); (2, 5, 20); (1, 2, 10); (1, 8, 5)], (2, 2)%nat, EEOF).
Proof. exact ov_reads. Qed.

(* the run with one message per chunk: one slot in log-time order although the chunks are reordered *)
Example C20_e2e_ex_reads_chunk1 :
  let f1 := mem_file (file_of (W y_o [x6c] ce_id None (CHeader ex_hd :: ex_cs ++ [CClose]))) in
  ex_view (read_messages ds_id ce_dall f1 [OUsingIndex false]) = Some (Some MScan, [(1, 10); (2, 7); (1, 12); (2, 3)], 0%nat, EEOF) /\
  ex_view (read_messages ds_id ce_dall f1 [OInOrder LogTimeOrder]) = Some (Some MIndexed, [(2, 3); (2, 7); (1, 10); (1, 12)], 0%nat, EEOF) /\
  ex_view (read_messages ds_id ce_dall f1 [OInOrder ReverseLogTimeOrder]) = Some (Some MIndexed, [(1, 12); (1, 10); (2, 7); (2, 3)], 0%nat, EEOF) /\
  ex_view (read_messages ds_id ce_dall f1 [OAfterNanos 7; OBeforeNanos 12]) = Some (Some MIndexed, [(1, 10); (2, 7)], 0%nat, EEOF) /\
  ex_view (read_messages ds_id ce_dall f1 [OTopics [[x74]]]) = Some (Some MIndexed, [(1, 10); (1, 12)], 0%nat, EEOF) /\
  option_map (fun r => rr_slots r) (match read_messages ds_id ce_dall f1 [OInOrder LogTimeOrder] with Ok r => Some r | _ => None end)
    = Some (1, 0)%nat.
Proof. exact ex1_time_reads. Qed.

(* the theorem on the overlapping run: at most 2 slots for every accepted option list *)
Example C20_e2e_ex_applies : forall os r0 ri,
  apply_opts os default_ropts = Ok r0 -> ro_use_index r0 = true -> ro_md_cb r0 = false ->
  read_messages ds_id ce_dall ov_f os = Ok ri ->
  (fst (rr_slots ri) <= 2)%nat /\ (snd (rr_slots ri) <= 2)%nat.
Proof. exact ov_C20_applies. Qed.

(* the dispatch hypothesis (MIndexed, no metadata callback) on the overlapping run *)
Example C20_e2e_ex_dispatch :
  ov_disp [] = Some (MIndexed, false, FileOrder) /\
  ov_disp [OAfterNanos 10; OBeforeNanos 50] = Some (MIndexed, false, FileOrder) /\
  ov_disp [OInOrder LogTimeOrder; OTopics [[x75]]; OBeforeNanos 50; OAfterNanos 10] = Some (MIndexed, false, LogTimeOrder) /\
  ov_disp [OAfter 10; OBefore 50; OInOrder ReverseLogTimeOrder] = Some (MIndexed, false, ReverseLogTimeOrder).
Proof. exact ov_dispatch. Qed.
