(* C15 - "What the lexer and the readers return for a file is independent of how the underlying source
   delivers it (one byte at a time, arbitrary short reads, data returned together with end-of-file).
   If the source returns an I/O error at any position, the records returned before it are a prefix of
   the true sequence and the read ends with an error - never with a clean end-of-file and never with
   a crash."

   Source.v models the io.Reader contract and io.ReadFull; Lexer.v is the lexer model (it reads only
   through ReadFull).  All proofs live in theories/Source.v and theories/LexerFactsA.v. *)
From Mcap Require ConstsTie LayoutTie DecisionTieL. (* regenerated ties to /repo's source that this property's model relies on *)
From Coq Require Import List NArith ZArith Bool Lia.
From Coq.Strings Require Import Byte.
From Mcap Require Import Bytes GoSem Crc32 Records Lexer Source LexerFactsA.
Import ListNotations.
Open Scope N_scope.

(* ---------- 1. io.ReadFull makes fragmentation invisible ---------- *)
Theorem C15_read_full_norm : forall sk n src,
  let '(bs, e, src') := read_full_frags n src in
  let '(bs2, e2, r') := rd_full n (norm sk src) in
  bs = bs2 /\ e = e2 /\ norm sk src' = r'.
Proof. exact read_full_norm. Qed.
Print Assumptions C15_read_full_norm.

(* any sequence of ReadFull calls *)
Theorem C15_read_full_sequence : forall sk ns src,
  reads_frags ns src = reads_rdr ns (norm sk src).
Proof. exact reads_norm. Qed.
Print Assumptions C15_read_full_sequence.

Theorem C15_read_full_sequence_fragmentation : forall ns src src',
  concat_data src = concat_data src' -> src_end src = src_end src' ->
  reads_frags ns src = reads_frags ns src'.
Proof. exact reads_frags_indep. Qed.
Print Assumptions C15_read_full_sequence_fragmentation.

(* ---------- 2. the lexer cannot observe fragmentation ---------- *)
Theorem C15_fragmentation : forall lo dstream fuel sk src src',
  concat_data src = concat_data src' -> src_end src = src_end src' ->
  lex_all_frags lo dstream fuel sk src = lex_all_frags lo dstream fuel sk src'.
Proof. exact lex_all_frags_indep. Qed.
Print Assumptions C15_fragmentation.

(* ---------- 3. a failing source never ends in a crash ---------- *)
Theorem C15_error_no_crash : forall lo dstream fuel src site,
  lex_all lo dstream fuel src <> Panic site /\ lex_all lo dstream fuel src <> Exit site.
Proof. exact lex_all_no_panic. Qed.
Print Assumptions C15_error_no_crash.

(* ---------- 4. a failing source and the clean end-of-file ---------- *)
(* Without an attachment callback, for every oracle: if the run on a failing source ends with a clean
   EOF, that EOF was produced by the reader of a chunk (the lexer stopped inside a chunk whose reader
   ends with EOF) - never by the failing source itself.  The in-chunk case is real: see the
   counterexamples below. *)
Theorem C15_error_not_eof : forall lo dstream e,
  e <> EEOF -> e <> EUnexpectedEOF -> e <> ETruncated -> lo_cb lo = CbNone ->
  forall fuel p sk evs fin s',
    lex_all lo dstream fuel {| r_buf := p; r_end := Some e; r_seek := sk |} = Ok (evs, fin, s') ->
    fin = EEOF -> exists r, lx_chunk s' = Some r /\ end_err r = EEOF.
Proof. exact error_not_eof_stmt. Qed.
Print Assumptions C15_error_not_eof.

(* with EmitChunks the lexer never enters a chunk: never a clean EOF on a failing source *)
Theorem C15_error_not_eof_emit_chunks : forall lo dstream e,
  e <> EEOF -> e <> EUnexpectedEOF -> e <> ETruncated -> lo_cb lo = CbNone ->
  lo_emit_chunks lo = true ->
  forall fuel p sk evs fin s',
    lex_all lo dstream fuel {| r_buf := p; r_end := Some e; r_seek := sk |} = Ok (evs, fin, s') ->
    fin <> EEOF.
Proof. exact error_not_eof_emit_chunks_stmt. Qed.
Print Assumptions C15_error_not_eof_emit_chunks.

(* any callback mode: when a failing source does give a clean EOF, the failure is not the cause - the
   complete input gives the same events and the same clean EOF (a defect of the lexer on malformed
   input, see the counterexamples, not an effect of the I/O error) *)
Theorem C15_eof_not_caused_by_failure : forall lo dstream e,
  e <> EEOF -> e <> EUnexpectedEOF -> e <> ETruncated -> e <> EInvalidChunkCrc ->
  (forall c a, snd (dstream c a (Some e)) = Some e) ->
  (forall c a t, exists u, fst (dstream c (a ++ t) None) = fst (dstream c a (Some e)) ++ u) ->
  forall fuel fuel' p rest sk evsF sF evsC finC sC,
    lex_all lo dstream fuel {| r_buf := p; r_end := Some e; r_seek := sk |} = Ok (evsF, EEOF, sF) ->
    lex_all lo dstream fuel' {| r_buf := p ++ rest; r_end := None; r_seek := sk |} = Ok (evsC, finC, sC) ->
    finC = EEOF /\ evsC = evsF.
Proof. exact eof_not_caused_by_failure_gen_stmt. Qed.
Print Assumptions C15_eof_not_caused_by_failure.

(* ---------- 5. the events before the failure are a prefix of the true sequence ---------- *)
(* Full statement: any callback mode, compressed chunks allowed provided the decoder passes the source
   error through and is prefix-monotone.  The events of the run on the failing source are a prefix of
   the events for the complete input, except that its last event may be an attachment callback
   observation that carries fewer data bytes (att_truncated); and the run ends with the source's
   error, or it is identical to the run on the complete input. *)
Theorem C15_error_prefix : forall lo dstream e,
  e <> EEOF -> e <> EUnexpectedEOF -> e <> ETruncated -> e <> EInvalidChunkCrc ->
  (forall c a, snd (dstream c a (Some e)) = Some e) ->
  (forall c a t, exists u, fst (dstream c (a ++ t) None) = fst (dstream c a (Some e)) ++ u) ->
  forall fuel fuel' p rest sk evsF finF sF evsC finC sC,
    lex_all lo dstream fuel {| r_buf := p; r_end := Some e; r_seek := sk |} = Ok (evsF, finF, sF) ->
    lex_all lo dstream fuel' {| r_buf := p ++ rest; r_end := None; r_seek := sk |} = Ok (evsC, finC, sC) ->
    ((exists t, evsC = evsF ++ t) \/
     (exists pre a' a t, evsF = pre ++ [EvAttachment a'] /\ evsC = pre ++ EvAttachment a :: t /\
        ao_log a' = ao_log a /\ ao_create a' = ao_create a /\ ao_name a' = ao_name a /\
        ao_media a' = ao_media a /\ ao_size a' = ao_size a /\ exists d, ao_data a = ao_data a' ++ d))
    /\ (finF = e \/ (finF = finC /\ evsF = evsC)).
Proof. exact error_prefix_full_stmt. Qed.
Print Assumptions C15_error_prefix.

(* without an attachment callback the events are a plain prefix *)
Theorem C15_error_prefix_no_callback : forall lo dstream e,
  e <> EEOF -> e <> EUnexpectedEOF -> e <> ETruncated -> e <> EInvalidChunkCrc ->
  lo_cb lo = CbNone ->
  (forall c a, snd (dstream c a (Some e)) = Some e) ->
  (forall c a t, exists u, fst (dstream c (a ++ t) None) = fst (dstream c a (Some e)) ++ u) ->
  forall fuel fuel' p rest sk evsF finF sF evsC finC sC,
    lex_all lo dstream fuel {| r_buf := p; r_end := Some e; r_seek := sk |} = Ok (evsF, finF, sF) ->
    lex_all lo dstream fuel' {| r_buf := p ++ rest; r_end := None; r_seek := sk |} = Ok (evsC, finC, sC) ->
    (exists t, evsC = evsF ++ t) /\ (finF = e \/ (finF = finC /\ evsF = evsC)).
Proof. exact error_prefix_stmt. Qed.
Print Assumptions C15_error_prefix_no_callback.

(* ---------- non-vacuity ---------- *)
(* ReadFull over one-byte fragments, over arbitrary fragments and over data+EOF *)
Example C15_ex_read_full :
  let data := [x01; x02; x03; x04; x05] in
  let s1 := {| s_frags := one_byte_frags data; s_end := None |} in
  let s2 := {| s_frags := [FData [x01; x02]; FData []; FDataEOF [x03; x04; x05]; FData [x09]]; s_end := Some EInjected |} in
  reads_frags [2; 2; 3] s1 = [([x01; x02], None); ([x03; x04], None); ([x05], Some EUnexpectedEOF)] /\
  reads_frags [2; 2; 3] s2 = reads_frags [2; 2; 3] s1 /\
  reads_frags [5; 1] s2 = [(data, None); ([], Some EEOF)] /\
  reads_frags [2; 4; 1] {| s_frags := one_byte_frags data; s_end := Some EInjected |}
    = [([x01; x02], None); ([x03; x04; x05], Some EInjected); ([], Some EInjected)].
Proof. vm_compute. repeat split; reflexivity. Qed.

(* the same file delivered one byte at a time and all at once together with EOF *)
Example C15_ex_fragmentation :
  lex_all_frags (ex_lo true CbNone 0 0) id_oracle 500 false {| s_frags := one_byte_frags ex_file; s_end := None |}
  = lex_all_frags (ex_lo true CbNone 0 0) id_oracle 500 false {| s_frags := [FDataEOF ex_file]; s_end := Some EInjected |}
  /\ is_ok (lex_all_frags (ex_lo true CbNone 0 0) id_oracle 500 false {| s_frags := [FDataEOF ex_file]; s_end := Some EInjected |}) = true.
Proof.
  split.
  - apply lex_all_frags_indep.
    + unfold concat_data. cbn [s_frags frags_data]. apply one_byte_frags_data.
    + unfold src_end. cbn [s_frags s_end frags_end]. rewrite one_byte_frags_end. reflexivity.
  - vm_compute. reflexivity.
Qed.

(* the oracle hypotheses of the prefix theorem are satisfiable *)
Example C15_ex_oracle :
  (forall c a, snd (id_oracle c a (Some EInjected)) = Some EInjected) /\
  (forall c a t, exists u, fst (id_oracle c (a ++ t) None) = fst (id_oracle c a (Some EInjected)) ++ u).
Proof. split; [exact (id_oracle_propagates EInjected)|exact (id_oracle_monotone EInjected)]. Qed.

(* a source failing after 130 of the 208 bytes (inside the second message of the chunk) *)
Example C15_ex_error_prefix :
  ex_strip (lex_all (ex_lo false CbNone 0 0) id_oracle 500 (ex_rdr (firstn 130 ex_file) (Some EInjected) false))
  = Ok ([EvToken OpHeader (pstr [] ++ pstr []);
         EvToken OpMessage (enc_message {| m_chan := 1; m_seq := 2; m_log := 3; m_pub := 4; m_data := [x61] |})],
        EInjected)
  /\ is_ok (lex_all (ex_lo false CbNone 0 0) id_oracle 500 (ex_rdr (firstn 130 ex_file ++ skipn 130 ex_file) None false)) = true.
Proof. vm_compute. split; reflexivity. Qed.

(* the documented corner (magic then end of input is a clean EOF) cannot arise with a failing source *)
Example C15_ex_magic_only :
  ex_strip (lex_all (ex_lo false CbNone 0 0) id_oracle 100 (ex_rdr magic None false)) = Ok ([], EEOF) /\
  ex_strip (lex_all (ex_lo false CbNone 0 0) id_oracle 100 (ex_rdr magic (Some EInjected) false)) = Ok ([], EInjected).
Proof. vm_compute. split; reflexivity. Qed.

(* with a reading callback: the source fails after 70 of 108 bytes, inside the attachment data; the last
   event of the failing run is the attachment observation with 2 of the 4 data bytes *)
Example C15_ex_error_prefix_callback :
  let evsF := ex_events (lex_all (ex_lo false CbFull 0 0) id_oracle 200 (ex_rdr (firstn 70 ex_att_file) (Some EInjected) true)) in
  let evsC := ex_events (lex_all (ex_lo false CbFull 0 0) id_oracle 200 (ex_rdr (firstn 70 ex_att_file ++ skipn 70 ex_att_file) None true)) in
  length evsF = 2%nat /\ length evsC = 3%nat /\ firstn 1 evsF = firstn 1 evsC /\
  match nth 1 evsF EvInvalidChunk, nth 1 evsC EvInvalidChunk with
  | EvAttachment a', EvAttachment a => ao_data a' = [x01; x02] /\ ao_data a = [x01; x02; x03; x04]
  | _, _ => False
  end /\
  ex_strip (lex_all (ex_lo false CbFull 0 0) id_oracle 200 (ex_rdr (firstn 70 ex_att_file) (Some EInjected) true))
  = Ok (evsF, EInjected).
Proof. vm_compute. repeat split; reflexivity. Qed.

(* ---------- counterexamples: clean EOF in the middle of a file (failing source or not) ---------- *)
(* (i) validating lexer, chunk declaring 5 uncompressed bytes with an empty records field: io.ReadFull
   of the chunk buffer returns io.EOF, loadChunk wraps it with %w *)
Example C15_cex_validated_empty_chunk :
  ex_strip (lex_all (ex_lo true CbNone 0 0) id_oracle 100 (ex_rdr ex_empty_chunk (Some EInjected) false))
  = Ok ([EvToken OpHeader (pstr [] ++ pstr [])], EEOF) /\
  ex_strip (lex_all (ex_lo true CbNone 0 0) id_oracle 100 (ex_rdr (ex_empty_chunk ++ ex_hdr) None false))
  = Ok ([EvToken OpHeader (pstr [] ++ pstr [])], EEOF).
Proof. vm_compute. split; reflexivity. Qed.
(* (ii) attachment record inside a (non-validated) chunk, longer than the chunk: skipReader's
   io.CopyN returns io.EOF *)
Example C15_cex_attachment_in_chunk :
  ex_strip (lex_all (ex_lo false CbNone 0 0) id_oracle 100 (ex_rdr ex_att_in_chunk (Some EInjected) false))
  = Ok ([EvToken OpHeader (pstr [] ++ pstr [])], EEOF).
Proof. vm_compute. reflexivity. Qed.
(* (iii) with an attachment callback: an attachment record of length 8 (parseAttachmentReader's second
   ReadFull returns io.EOF at the record limit) - this one is on the base reader, which is why
   C15_error_not_eof requires lo_cb = CbNone *)
Example C15_cex_short_attachment_callback :
  ex_strip (lex_all (ex_lo false CbFull 0 0) id_oracle 100 (ex_rdr ex_short_att (Some EInjected) false))
  = Ok ([EvToken OpHeader (pstr [] ++ pstr [])], EEOF).
Proof. vm_compute. reflexivity. Qed.
