(* C12 (summary part) - the order in which the summary records appear does not change what readers
   obtain from the summary section.  Proofs: theories/ReaderFacts2.v.

   Two files with the same bytes in front of the summary (pre), whose summary sections S and S' are
   permutations of one another (any interleaving of the records, not only whole groups; summary
   offset records are SOther records), read with the same options ro (topics, time window, order).
   Schema ids pairwise distinct, channel ids pairwise distinct (otherwise "last record wins" makes the
   order observable: ex_order_needs_distinct_ids), chunk offsets pairwise distinct, at most one
   statistics record.  Then parseSummarySection returns the same schema and channel tables, the same
   statistics, the same attachment / metadata indexes up to order, and - after time pruning, topic
   pruning at the footer and sorting - the identical list of chunk indexes, i.e. the same chunks are
   loaded in the same order; CanUseIndex and the choice of iterator agree. *)
From Mcap Require ConstsTie LayoutTie DecisionTieR. (* regenerated ties to /repo's source that this property's model relies on *)
From Coq Require Import List NArith ZArith Bool Permutation.
From Coq.Strings Require Import Byte.
From RecordUpdate Require Import RecordSet.
From Mcap Require Import Bytes GoSem Records RecordsFacts Writer Lexer LexSpec Reader ReaderFacts2.
Import ListNotations RecordSetNotations.
Open Scope N_scope.

(* what parseSummarySection returns on a rendered file, any options *)
Theorem C12_parse_summary_rendered :
  forall (ds : doracle) (ro : ropts) (im : bool) (pre : list item) (S : list (srec * bytes)) (ft : footer),
  Forall wf_sitem S -> wf_footer ft ->
  f_summary_start ft = blen (render pre) -> 0 < f_summary_start ft -> f_summary_start ft < two63 ->
  parse_summary ds {| fs_data := summ_file pre S ft; fs_fail := None |} ro im =
    Ok (summ_finish ro (fold_left (summ_step ro im) (map fst S) (empty_summ <| sm_footer := Some ft |>))).
Proof. exact parse_summary_rendered_thm. Qed.
Print Assumptions C12_parse_summary_rendered.

Theorem C12_summary_order :
  forall (ds : doracle) (ro : ropts) (im : bool) (pre : list item) (S S' : list (srec * bytes)) (ft ft' : footer),
  Permutation S S' -> Forall wf_sitem S -> wf_footer ft -> wf_footer ft' ->
  f_summary_start ft = blen (render pre) -> f_summary_start ft' = f_summary_start ft ->
  0 < f_summary_start ft -> f_summary_start ft < two63 ->
  let rs := map fst S in
  NoDup (map s_id (schemas_of rs)) -> NoDup (map c_id (channels_of rs)) ->
  NoDup (map ci_offset (cis_of rs)) -> (length (stats_of rs) <= 1)%nat ->
  exists sm sm',
    parse_summary ds {| fs_data := summ_file pre S ft; fs_fail := None |} ro im = Ok sm /\
    parse_summary ds {| fs_data := summ_file pre S' ft'; fs_fail := None |} ro im = Ok sm' /\
    sm_schemas sm = sm_schemas sm' /\ sm_channels sm = sm_channels sm' /\
    Permutation (sm_ais sm) (sm_ais sm') /\ Permutation (sm_mxs sm) (sm_mxs sm') /\
    sm_cis sm = sm_cis sm' /\ sm_stats sm = sm_stats sm' /\
    can_use_index sm = can_use_index sm'.
Proof. exact C12_summary_order_thm. Qed.
Print Assumptions C12_summary_order.

(* Messages(opts...) picks the same iterator with the same options for both layouts *)
Theorem C12_dispatch :
  forall (ds : doracle) (pre : list item) (S S' : list (srec * bytes)) (ft ft' : footer) (os : list ropt),
  Permutation S S' -> Forall wf_sitem S -> wf_footer ft -> wf_footer ft' ->
  f_summary_start ft = blen (render pre) -> f_summary_start ft' = f_summary_start ft ->
  0 < f_summary_start ft -> f_summary_start ft < two63 ->
  let rs := map fst S in
  NoDup (map s_id (schemas_of rs)) -> NoDup (map c_id (channels_of rs)) ->
  NoDup (map ci_offset (cis_of rs)) -> (length (stats_of rs) <= 1)%nat ->
  messages_dispatch ds {| fs_data := summ_file pre S ft; fs_fail := None |} os =
  messages_dispatch ds {| fs_data := summ_file pre S' ft'; fs_fail := None |} os.
Proof. exact C12_dispatch_thm. Qed.
Print Assumptions C12_dispatch.

(* the two facts behind it *)
Theorem C12_table_insertion_order : forall (A : Type) (key : A -> N) (l l' : list A),
  Permutation l l' -> NoDup (map key l) -> tab_of key l [] = tab_of key l' [].
Proof. exact (@tab_of_perm_eq). Qed.
Print Assumptions C12_table_insertion_order.

Theorem C12_load_order_deterministic : forall (o : rorder) (l l' : list chunkindex),
  Permutation l l' -> NoDup (map ci_offset l) -> ci_sort o l = ci_sort o l'.
Proof. exact ci_sort_deterministic. Qed.
Print Assumptions C12_load_order_deterministic.

(* ---------- non-vacuity: the written file of ReaderFacts2 section 6 and the same file with its 16
   summary records in reverse order ---------- *)
Example ex_hyps :
  Forall wf_sitem y_S /\ wf_footer y_ft /\ f_summary_start y_ft = blen (render y_pre)
  /\ 0 < f_summary_start y_ft /\ f_summary_start y_ft < two63.
Proof. exact y_info_hyps. Qed.
Example ex_order_hyps :
  let rs := map fst y_S in
  Permutation y_S y_S' /\ y_S <> y_S' /\
  NoDup (map s_id (schemas_of rs)) /\ NoDup (map c_id (channels_of rs)) /\
  NoDup (map ci_offset (cis_of rs)) /\ (length (stats_of rs) <= 1)%nat /\
  f_summary_start y_ft = f_summary_start y_ft.
Proof. exact y_order_hyps. Qed.
Example ex_order_value :
  let r := y_ro [[x75]] LogTimeOrder in
  let view x := match x with Ok sm => Some (map ci_offset (sm_cis sm), map fst (sm_channels sm)) | _ => None end in
  view (parse_summary ds_none {| fs_data := y_F; fs_fail := None |} r false) = Some ([527; 226], [2]) /\
  view (parse_summary ds_none {| fs_data := summ_file y_pre y_S' y_ft; fs_fail := None |} r false) = Some ([527; 226], [2]).
Proof. exact y_order_value. Qed.
Example ex_order_needs_distinct_ids :
  let c1 := {| c_id := 1; c_schema := 0; c_topic := [x61]; c_menc := []; c_meta := [] |} in
  let c2 := {| c_id := 1; c_schema := 0; c_topic := [x62]; c_menc := []; c_meta := [] |} in
  let S1 := [(SChannel c1, []); (SChannel c2, [])] in
  let ft := {| f_summary_start := 8; f_summary_offset_start := 0; f_crc := 0 |} in
  let view S := match info ds_none {| fs_data := summ_file [IMagic] S ft; fs_fail := None |} with
                | Ok sm => Some (map (fun kv => c_topic (snd kv)) (sm_channels sm)) | _ => None end in
  view S1 = Some [[x62]] /\ view (rev S1) = Some [[x61]].
Proof. exact y_order_needs_distinct_ids. Qed.
