(* C10 - "For any byte string whatsoever, opening it, lexing it, parsing any single record from it ...
   terminates by returning data or an error: the library never panics, never terminates the process,
   never loops forever, and never requests memory beyond its documented ceilings - 2 GiB for any single
   buffer, and the caller-configured record and chunk size limits where those are set."

   Statements about the executable models Records.v (parse.go, utils.go, reader.go getPrefixed functions) and
   Lexer.v (lexer.go).  All proofs live in theories/LexerFactsA.v. *)
From Mcap Require ConstsTie LayoutTie DecisionTieL. (* regenerated ties to /repo's source that this property's model relies on *)
From Coq Require Import List NArith ZArith Bool Lia.
From Coq.Strings Require Import Byte.
From Mcap Require Import Bytes GoSem Crc32 Records Lexer Source LexerFactsA.
Import ListNotations.
Open Scope N_scope.

(* ---------- 1. every body parser is total on every byte string ---------- *)
Theorem C10_parse_total : forall buf : bytes,
  no_crash (parse_header buf) = true /\ no_crash (parse_footer buf) = true /\
  no_crash (parse_schema buf) = true /\ no_crash (parse_channel buf) = true /\
  no_crash (parse_message buf) = true /\ no_crash (parse_chunk buf) = true /\
  no_crash (parse_msgindex buf) = true /\ no_crash (parse_chunkindex buf) = true /\
  no_crash (parse_attindex buf) = true /\ no_crash (parse_statistics buf) = true /\
  no_crash (parse_metadata buf) = true /\ no_crash (parse_mdindex buf) = true /\
  no_crash (parse_sumoffset buf) = true /\ no_crash (parse_dataend buf) = true.
Proof. exact parse_total_no_crash. Qed.
Print Assumptions C10_parse_total.

(* ---------- 2. the lexer never panics and never exits, for every oracle and every option ---------- *)
Theorem C10_lexer_no_panic : forall lo dstream fuel pcap s evs site,
  lex_next lo dstream fuel pcap s evs <> Panic site /\ lex_next lo dstream fuel pcap s evs <> Exit site.
Proof. exact lex_next_no_panic. Qed.
Print Assumptions C10_lexer_no_panic.

Theorem C10_new_lexer_total : forall lo src, no_crash (new_lexer lo src) = true.
Proof. exact new_lexer_no_crash. Qed.
Print Assumptions C10_new_lexer_total.

Theorem C10_lex_all_no_panic : forall lo dstream fuel src site,
  lex_all lo dstream fuel src <> Panic site /\ lex_all lo dstream fuel src <> Exit site.
Proof. exact lex_all_no_panic. Qed.
Print Assumptions C10_lex_all_no_panic.

(* ---------- 3. the lexer never loops forever: explicit fuel bounds ---------- *)
(* general form: the decoder delivers at most B bytes more than it was given *)
Theorem C10_lexer_total : forall lo dstream (B : nat),
  (forall c a e, (length (fst (dstream c a e)) <= length a + B)%nat) ->
  forall fuel pcap s evs,
    (length (r_buf (lx_base s)) * (B + 2) +
     match lx_chunk s with None => 0 | Some r => S (length (r_buf r)) end < fuel)%nat ->
    exists evs' res s', lex_next lo dstream fuel pcap s evs = Ok (evs', res, s').
Proof. exact lex_next_total_explicit. Qed.
Print Assumptions C10_lexer_total.

(* the decoder delivers at most B bytes *)
Theorem C10_lexer_total_bounded_oracle : forall lo dstream (B : nat),
  (forall c a e, (length (fst (dstream c a e)) <= B)%nat) ->
  forall fuel pcap s evs,
    ((length (r_buf (lx_base s)) + 1) * (B + 2) +
     match lx_chunk s with None => 0 | Some r => length (r_buf r) end + 2 <= fuel)%nat ->
    exists evs' res s', lex_next lo dstream fuel pcap s evs = Ok (evs', res, s').
Proof. exact lex_next_total_abs. Qed.
Print Assumptions C10_lexer_total_bounded_oracle.

(* identity-like decoders: never more than the input *)
Theorem C10_lexer_total_nonexpanding_oracle : forall lo dstream,
  (forall c a e, (length (fst (dstream c a e)) <= length a)%nat) ->
  forall fuel pcap s evs,
    (2 * length (r_buf (lx_base s)) +
     match lx_chunk s with None => 0 | Some r => length (r_buf r) end + 2 <= fuel)%nat ->
    exists evs' res s', lex_next lo dstream fuel pcap s evs = Ok (evs', res, s').
Proof. exact lex_next_total_nonexpanding. Qed.
Print Assumptions C10_lexer_total_nonexpanding_oracle.

(* driving Next: with enough fuel (for the inner loop and for the number of tokens) the drive ends
   with the terminal error of the lexer *)
Theorem C10_lex_loop_total : forall lo dstream (B : nat),
  (forall c a e, (length (fst (dstream c a e)) <= length a + B)%nat) ->
  forall n fuel s acc, (mu B s < fuel)%nat -> (mu B s < n)%nat ->
  exists evs fin s', lex_loop lo dstream n fuel s acc = Ok (evs, fin, s').
Proof. exact lex_loop_total. Qed.
Print Assumptions C10_lex_loop_total.

(* lex_loop n stops with OutOfFuel after n tokens by design: if it does, the inner fuel was never
   the reason - n tokens were produced *)
Theorem C10_lex_loop_out_of_fuel_by_design : forall lo dstream (B : nat),
  (forall c a e, (length (fst (dstream c a e)) <= length a + B)%nat) ->
  forall n fuel s acc, (mu B s < fuel)%nat ->
  lex_loop lo dstream n fuel s acc = OutOfFuel -> tokens_produced lo dstream n fuel s.
Proof. exact lex_loop_out_of_fuel. Qed.
Print Assumptions C10_lex_loop_out_of_fuel_by_design.

Theorem C10_lex_all_total : forall lo dstream (B : nat),
  (forall c a e, (length (fst (dstream c a e)) <= B)%nat) ->
  forall fuel src, (length (r_buf src) * (B + 2) < fuel)%nat ->
  no_crash (lex_all lo dstream fuel src) = true.
Proof. exact lex_all_total_abs. Qed.
Print Assumptions C10_lex_all_total.

Theorem C10_lex_all_total_nonexpanding_oracle : forall lo dstream,
  (forall c a e, (length (fst (dstream c a e)) <= length a)%nat) ->
  forall fuel src, (2 * length (r_buf src) < fuel)%nat ->
  no_crash (lex_all lo dstream fuel src) = true.
Proof. exact lex_all_total_nonexpanding. Qed.
Print Assumptions C10_lex_all_total_nonexpanding_oracle.

(* ---------- 4. allocation ceilings ---------- *)
(* every request that reaches make is below MaxInt32: invariant of the log *)
Theorem C10_alloc_ceiling : forall lo dstream fuel pcap s evs evs' res s',
  Forall (fun n => n < max_int32) (lx_allocs s) ->
  lex_next lo dstream fuel pcap s evs = Ok (evs', res, s') ->
  Forall (fun n => n < max_int32) (lx_allocs s').
Proof. exact lex_next_alloc_invariant. Qed.
Print Assumptions C10_alloc_ceiling.

Theorem C10_alloc_ceiling_load_chunk : forall lo dstream rl s oe s',
  Forall (fun n => n < max_int32) (lx_allocs s) ->
  load_chunk lo dstream rl s = (oe, s') ->
  Forall (fun n => n < max_int32) (lx_allocs s').
Proof. exact load_chunk_alloc_invariant. Qed.
Print Assumptions C10_alloc_ceiling_load_chunk.

(* the requests made by one call of Next (the log grows by l): each is below MaxInt32 and, when
   MaxRecordSize is set, at most MaxRecordSize - unless it is the chunk buffer of a validating lexer,
   which is at most 2 * MaxDecompressedChunkSize when that is set *)
Theorem C10_alloc_ceiling_refined : forall lo dstream fuel pcap s evs evs' res s',
  lex_next lo dstream fuel pcap s evs = Ok (evs', res, s') ->
  exists l, lx_allocs s' = l ++ lx_allocs s /\
    Forall (fun n =>
      n < max_int32 /\
      (0 < lo_max_record lo ->
         n <= lo_max_record lo \/
         (lo_emit_chunks lo = false /\ lo_validate lo = true /\
          (0 < lo_max_chunk lo -> n <= 2 * lo_max_chunk lo)))) l.
Proof. exact lex_next_allocs. Qed.
Print Assumptions C10_alloc_ceiling_refined.

(* the requests made by one call of loadChunk for a chunk record of length rl: the scratch buffer for
   the compression name fits in the record (n + 32 <= rl), the chunk buffer exists only when
   validating and is at most 2 * MaxDecompressedChunkSize when that is set *)
Theorem C10_alloc_ceiling_load_chunk_refined : forall lo dstream rl s oe s',
  load_chunk lo dstream rl s = (oe, s') ->
  exists l, lx_allocs s' = l ++ lx_allocs s /\
    Forall (fun n =>
      n < max_int32 /\
      (n + 32 <= rl \/
       (lo_validate lo = true /\ (0 < lo_max_chunk lo -> n <= 2 * lo_max_chunk lo)))) l.
Proof. exact load_chunk_allocs. Qed.
Print Assumptions C10_alloc_ceiling_load_chunk_refined.

(* a whole run: every request ever logged satisfies the refined ceiling *)
Theorem C10_alloc_ceiling_lex_all : forall lo dstream fuel src evs fin s',
  lex_all lo dstream fuel src = Ok (evs, fin, s') ->
  Forall (step_alloc_ok lo) (lx_allocs s').
Proof. exact lex_all_allocs. Qed.
Print Assumptions C10_alloc_ceiling_lex_all.

(* ---------- non-vacuity ---------- *)
(* the oracle hypotheses are satisfiable *)
Example C10_ex_oracle : forall c a e, (length (fst (id_oracle c a e)) <= length a)%nat.
Proof. exact id_oracle_nonexpanding. Qed.

(* hostile input: a chunk record header claiming 2^63 bytes whose chunk claims 2^62 uncompressed
   bytes: an error, no allocation *)
Example C10_ex_hostile_chunk_validating :
  ex_strip (lex_all (ex_lo true CbNone 0 0) id_oracle 200 (ex_rdr ex_hostile_chunk None false))
  = Ok ([], ELengthOutOfRange)
  /\ ex_allocs (lex_all (ex_lo true CbNone 0 0) id_oracle 200 (ex_rdr ex_hostile_chunk None false)) = [].
Proof. vm_compute. split; reflexivity. Qed.
Example C10_ex_hostile_chunk :
  ex_strip (lex_all (ex_lo false CbNone 0 0) id_oracle 200 (ex_rdr ex_hostile_chunk None false))
  = Ok ([], ETruncated).
Proof. vm_compute. reflexivity. Qed.
(* hostile input: a message record claiming 2^63 bytes *)
Example C10_ex_hostile_msg :
  ex_strip (lex_all (ex_lo false CbNone 0 0) id_oracle 200 (ex_rdr ex_hostile_msg None false))
  = Ok ([EvToken OpHeader (pstr [] ++ pstr [])], ELengthOutOfRange).
Proof. vm_compute. reflexivity. Qed.
Example C10_ex_hostile_msg_limit :
  ex_strip (lex_all (ex_lo false CbNone 1000 0) id_oracle 200 (ex_rdr ex_hostile_msg None false))
  = Ok ([EvToken OpHeader (pstr [] ++ pstr [])], ERecordTooLarge).
Proof. vm_compute. reflexivity. Qed.
(* the fuel bound of C10_lex_all_total_nonexpanding_oracle on a well-formed file (208 bytes), and its
   allocation log *)
Example C10_ex_file :
  Nat.ltb (2 * length (r_buf (ex_rdr ex_file None false))) 500 = true /\
  is_ok (lex_all (ex_lo true CbNone 0 0) id_oracle 500 (ex_rdr ex_file None false)) = true /\
  ex_allocs (lex_all (ex_lo true CbNone 0 0) id_oracle 500 (ex_rdr ex_file None false))
  = [20; 23; 24; 23; 130; 8].
Proof. vm_compute. repeat split; try reflexivity. Qed.
(* parsers on truncated and hostile bodies *)
Example C10_ex_parse_truncated :
  parse_header (firstn 6 (pstr [x61; x62] ++ pstr [x63])) = Err EShortBuffer /\
  parse_header [xff; xff; xff; xff; x01] = Err EShortBuffer /\
  parse_channel (firstn 12 (enc_channel {| c_id := 1; c_schema := 0; c_topic := [x61]; c_menc := [];
                                           c_meta := [([x6b], [x76])] |})) = Err EShortBuffer /\
  parse_channel (enc_channel {| c_id := 1; c_schema := 0; c_topic := [x61]; c_menc := [];
                                c_meta := [([x6b], [x76])] |})
  = Ok {| c_id := 1; c_schema := 0; c_topic := [x61]; c_menc := []; c_meta := [([x6b], [x76])] |}.
Proof. vm_compute. repeat split; reflexivity. Qed.
