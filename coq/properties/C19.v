(* C19 - "Parsing a concatenated ROS 1 message definition returns the field tree it describes:
   field names and order, primitive versus nested types, fixed and variable arrays, nested types
   resolved by exact, package-relative or Header-special lookup, with comments and constants
   ignored.  For any input at all, parsing returns a result or an error in bounded time and
   stack; it never crashes the process."

   Model: Ros1Msg.parse_msgdef (= ParseMessageDefinition after the recursion and bracket fixes).
   All proofs are in theories/Ros1MsgFacts.v.

   Totality: C19_total (never Panic / Exit / OutOfFuel, for every input), C19_resolve_total (the
   generalised fuel lemma), C19_depth (recursion depth <= number of sections + 2; more fuel gives
   the same result), helper fuels C19_trim_space_spec / C19_trim_left_fuel / C19_field_match_fuel,
   cycles C19_cycle_is_error / C19_cycle_self / C19_cycle_qualified.

   Correctness: an abstract type graph [agraph] is rendered canonically ([render_graph]:
   "<type><array suffix> <name>" lines, sections introduced by 80 '=' and "MSG: <name>");
   [wf_graph pkg g] is a boolean: field names are identifiers, type names are non-empty visible
   ASCII without '#', '=', '[', ']', primitive fields name a ROS primitive, array lengths are
   digit strings that strconv.Atoi accepts, section names are non-empty visible ASCII and
   pairwise distinct, and the traversal from the top-level fields resolves each reference by
   the three lookup rules relative to the current parent package (exact name; "Header" ->
   std_msgs/Header; unqualified name -> <parent package>/<name>) to the section given in the
   graph without ever re-entering a section that is being expanded (acyclicity).
   C19_tree: the parser returns exactly [tree_of g].  C19_tree_decorated: the same with ignored
   lines (blank, comment, constant: any line the classifier skips) anywhere between field lines,
   including a trailing newline.  C19_tree_lines: the common generalisation. *)
From Mcap Require ConstsTie. (* regenerated ties to /repo's source that this property's model relies on *)
From Coq Require Import List NArith ZArith Bool String.
From Coq.Strings Require Import Byte.
From Mcap Require Import Bytes GoSem Ros1Msg Ros1MsgFacts.
Import ListNotations.

Definition b (s : string) : bytes := list_byte_of_string s.

(* ---------------------------------------------------------------------------------------- *)
(* Task 1: totality                                                                          *)

Theorem C19_total : forall pkg data,
  match parse_msgdef pkg data with Ok _ | Err _ => True | _ => False end.
Proof. exact parse_msgdef_fine. Qed.
Print Assumptions C19_total.

(* the fuel lemma behind it: along a recursion path the visiting list is duplicate free and made
   of keys of the table, hence never longer than the table *)
Theorem C19_resolve_total : forall deps fuel pkg visiting def,
  NoDup visiting -> incl visiting (map fst deps) ->
  (List.length deps + 2 <= fuel + List.length visiting)%nat ->
  match resolve fuel pkg deps visiting def with Ok _ | Err _ => True | _ => False end.
Proof. exact resolve_fine. Qed.
Print Assumptions C19_resolve_total.

Example C19_resolve_total_ex :
  NoDup (@nil bytes) /\ incl (@nil bytes) (map fst [(b "p/A", b "int32 x")]) /\
  (List.length [(b "p/A", b "int32 x")] + 2 <= 3 + List.length (@nil bytes))%nat.
Proof. split; [constructor|]. split; [intros x []|]. vm_compute. repeat constructor. Qed.

(* bounded stack: depth (number of sections) + 2 is enough, and the fuel is immaterial above it *)
Theorem C19_depth : forall pkg data k,
  resolve (List.length (msgdef_deps data) + 2 + k) pkg (msgdef_deps data) [] (msgdef_top data)
  = parse_msgdef pkg data.
Proof. exact parse_msgdef_depth. Qed.
Print Assumptions C19_depth.

(* helper fuels *)
Theorem C19_trim_space_spec : forall s,
  strip_one spaces (trim_space s) = None /\
  strip_one (map (@rev byte) spaces) (rev (trim_space s)) = None /\
  exists la lb, Forall (fun p => In p spaces) la /\ Forall (fun p => In p spaces) lb /\
                s = List.concat la ++ trim_space s ++ List.concat lb.
Proof. exact trim_space_spec. Qed.
Print Assumptions C19_trim_space_spec.

Theorem C19_trim_left_fuel : forall s k,
  strip_one spaces (trim_left (List.length s) s) = None /\
  trim_left (List.length s + k) s = trim_left (List.length s) s.
Proof. exact (fun s k => conj (trim_left_done s) (trim_left_fuel s k)). Qed.
Print Assumptions C19_trim_left_fuel.

Theorem C19_field_match_fuel : forall s k,
  field_match (S (List.length s) + k) s = field_match (S (List.length s)) s.
Proof. exact field_match_enough. Qed.
Print Assumptions C19_field_match_fuel.

(* cycles are errors *)
Theorem C19_cycle_is_error : forall pkg data ks pkg' def',
  ref_path (msgdef_deps data) pkg (msgdef_top data) ks pkg' def' -> ~ NoDup ks ->
  exists e, parse_msgdef pkg data = Err e.
Proof. exact parse_msgdef_cycle_err. Qed.
Print Assumptions C19_cycle_is_error.

(* non-vacuity: the mutual recursion p/A -> p/B -> p/A satisfies the hypotheses *)
Example C19_cycle_is_error_ex :
  mut_data = b "A x
================================================================================
MSG: p/A
B y
================================================================================
MSG: p/B
A z
" /\
  exists ks pkg' def',
    ref_path (msgdef_deps mut_data) (b "p") (msgdef_top mut_data) ks pkg' def' /\ ~ NoDup ks.
Proof. split; [vm_compute; reflexivity | exact mut_data_path]. Qed.

(* "Foo x \n ====...==== \n MSG: <pkg>/Foo \n Foo y \n" for every parent package *)
Theorem C19_cycle_self : forall pkg, contains_byte 10 pkg = false ->
  exists e, parse_msgdef pkg (cyc_data pkg) = Err e.
Proof. exact cycle_self_is_error. Qed.
Print Assumptions C19_cycle_self.

Example C19_cycle_self_ex :
  contains_byte 10 (b "my_pkg") = false /\
  cyc_data (b "my_pkg") = b "Foo x
================================================================================
MSG: my_pkg/Foo
Foo y
".
Proof. split; vm_compute; reflexivity. Qed.

Theorem C19_cycle_qualified : forall pkg, parse_msgdef pkg cyc_q_data = Err EOther.
Proof. exact cycle_qualified_is_error. Qed.
Print Assumptions C19_cycle_qualified.

Example C19_cycle_qualified_data :
  cyc_q_data = b "a/Foo x
================================================================================
MSG: a/Foo
a/Foo y
".
Proof. vm_compute. reflexivity. Qed.

(* concrete inputs: self reference, mutual reference, reversed brackets *)
Example C19_ex_self : parse_msgdef (b "p") (b "Foo x
===
MSG: p/Foo
Foo y
") = Err EOther.
Proof. vm_compute. reflexivity. Qed.

Example C19_ex_mutual : parse_msgdef (b "p") (b "A x
===
MSG: p/A
B y
===
MSG: p/B
A z
") = Err EOther.
Proof. vm_compute. reflexivity. Qed.

Example C19_ex_mutual_arrays : parse_msgdef (b "p") (b "A[] x
===
MSG: p/A
q/B[3] y
===
MSG: q/B
p/A z
") = Err EOther.
Proof. vm_compute. reflexivity. Qed.

Example C19_ex_brackets : parse_msgdef (b "p") (b "int32]3[ x") = Err EOther.
Proof. vm_compute. reflexivity. Qed.

Example C19_ex_header_self : parse_msgdef (b "p") (b "Header h
===
MSG: std_msgs/Header
Header again
") = Err EOther.
Proof. vm_compute. reflexivity. Qed.

(* ---------------------------------------------------------------------------------------- *)
(* Task 2: the parser returns the tree the graph describes                                   *)

Theorem C19_tree : forall pkg g,
  wf_graph pkg g = true -> parse_msgdef pkg (render_graph g) = Ok (tree_of g).
Proof. exact parse_rendered. Qed.
Print Assumptions C19_tree.

Theorem C19_tree_decorated : forall pkg d,
  wf_dgraph pkg d = true -> parse_msgdef pkg (render_dgraph d) = Ok (tree_of (erase d)).
Proof. exact parse_decorated. Qed.
Print Assumptions C19_tree_decorated.

Theorem C19_tree_lines : forall pkg g tl sl,
  wf_graph pkg g = true -> renders tl (top g) -> Forall2 sec_rel (sections g) sl ->
  parse_msgdef pkg (join_nl (doc_lines tl sl)) = Ok (tree_of g).
Proof. exact parse_doc. Qed.
Print Assumptions C19_tree_lines.

(* real concatenations end with a newline *)
Theorem C19_tree_newline : forall pkg g,
  wf_graph pkg g = true -> parse_msgdef pkg (render_graph g ++ [x0a]) = Ok (tree_of g).
Proof. exact parse_rendered_nl. Qed.
Print Assumptions C19_tree_newline.

(* which lines are ignored *)
Theorem C19_ignored_lines : forall raw,
  (trim_space raw = [] -> classify_line raw = LSkip) /\
  (forall r, trim_space raw = x23 :: r -> classify_line raw = LSkip) /\
  (trim_space raw <> [] -> contains_byte 61 (hd [] (split_byte 35 (trim_space raw))) = true ->
   classify_line raw = LSkip).
Proof. exact (fun raw => conj (skip_blank raw) (conj (skip_comment raw) (skip_constant raw))). Qed.
Print Assumptions C19_ignored_lines.

(* --- a concrete graph: arrays, Header, package-relative and qualified references --- *)
Definition P (ty nm : string) : afield := {| af_ty := APrim (b ty); af_arr := None; af_name := b nm |}.
Definition g1 : agraph := {|
  top := [ {| af_ty := ARef (b "Header") (b "std_msgs/Header"); af_arr := None; af_name := b "header" |};
           {| af_ty := APrim (b "int32"); af_arr := Some (Some (b "3")); af_name := b "a" |};
           {| af_ty := ARef (b "Point") (b "mypkg/Point"); af_arr := Some None; af_name := b "pts" |};
           {| af_ty := ARef (b "geometry_msgs/Quaternion") (b "geometry_msgs/Quaternion");
              af_arr := Some (Some (b "2")); af_name := b "q" |};
           P "float64" "x" ];
  sections :=
    [ (b "std_msgs/Header", [P "uint32" "seq"; P "time" "stamp"; P "string" "frame_id"]);
      (b "mypkg/Point", [P "float64" "x"; P "float64" "y"]);
      (b "geometry_msgs/Quaternion",
       [P "float64" "w";
        {| af_ty := ARef (b "Vec") (b "geometry_msgs/Vec"); af_arr := None; af_name := b "v" |}]);
      (b "geometry_msgs/Vec", [P "uint8" "k"]) ] |}.

Example C19_g1_text : render_graph g1 = b "Header header
int32[3] a
Point[] pts
geometry_msgs/Quaternion[2] q
float64 x
================================================================================
MSG: std_msgs/Header
uint32 seq
time stamp
string frame_id
================================================================================
MSG: mypkg/Point
float64 x
float64 y
================================================================================
MSG: geometry_msgs/Quaternion
float64 w
Vec v
================================================================================
MSG: geometry_msgs/Vec
uint8 k".
Proof. vm_compute. reflexivity. Qed.

Example C19_g1_wf : wf_graph (b "mypkg") g1 = true.
Proof. vm_compute. reflexivity. Qed.

(* the package-relative reference does not resolve under another parent package *)
Example C19_g1_not_wf_other_pkg : wf_graph (b "other") g1 = false.
Proof. vm_compute. reflexivity. Qed.

Definition prim (ty : string) : Ros1Msg.ty := Ty (b ty) false 0%Z false None [].
Example C19_g1_tree : tree_of g1 =
  [ Fld (b "header") (Ty (b "Header") false 0%Z true None
       [Fld (b "seq") (prim "uint32"); Fld (b "stamp") (prim "time"); Fld (b "frame_id") (prim "string")]);
    Fld (b "a") (Ty (b "int32[3]") true 3%Z false (Some (prim "int32")) []);
    Fld (b "pts") (Ty (b "Point[]") true 0%Z false
       (Some (Ty (b "Point") false 0%Z true None
                 [Fld (b "x") (prim "float64"); Fld (b "y") (prim "float64")])) []);
    Fld (b "q") (Ty (b "geometry_msgs/Quaternion[2]") true 2%Z false
       (Some (Ty (b "geometry_msgs/Quaternion") false 0%Z true None
                 [Fld (b "w") (prim "float64");
                  Fld (b "v") (Ty (b "Vec") false 0%Z true None [Fld (b "k") (prim "uint8")])])) []);
    Fld (b "x") (prim "float64") ].
Proof. vm_compute. reflexivity. Qed.

Example C19_g1_parse : parse_msgdef (b "mypkg") (render_graph g1) = Ok (tree_of g1).
Proof. vm_compute. reflexivity. Qed.

(* the same through the theorem *)
Example C19_g1_parse_thm : parse_msgdef (b "mypkg") (render_graph g1) = Ok (tree_of g1).
Proof. exact (C19_tree (b "mypkg") g1 C19_g1_wf). Qed.

(* sharing (two paths to one section) and a chain as deep as the number of sections are accepted *)
Definition R (w t nm : string) : afield := {| af_ty := ARef (b w) (b t); af_arr := None; af_name := b nm |}.
Definition g2 : agraph := {|
  top := [R "A" "p/A" "a"; R "B" "p/B" "bb"];
  sections := [ (b "p/A", [R "B" "p/B" "x"]); (b "p/B", [R "p/C" "p/C" "y"]); (b "p/C", [P "bool" "z"]) ] |}.
Example C19_g2_wf : wf_graph (b "p") g2 = true.
Proof. vm_compute. reflexivity. Qed.
Example C19_g2_parse : parse_msgdef (b "p") (render_graph g2 ++ [x0a]) = Ok (tree_of g2).
Proof. exact (C19_tree_newline (b "p") g2 C19_g2_wf). Qed.
(* a cyclic graph is not well formed *)
Example C19_g_cyclic_not_wf :
  wf_graph (b "p") {| top := [R "A" "p/A" "a"];
                      sections := [ (b "p/A", [R "B" "p/B" "x"]); (b "p/B", [R "A" "p/A" "y"]) ] |} = false.
Proof. vm_compute. reflexivity. Qed.

(* --- a decorated graph: comments, constants, blank lines, trailing newline --- *)
Definition d1 : dgraph := {|
  dtop := [ inr (b "# a comment"); inl (P "int32" "x"); inr (b ""); inr (b "uint8 FOO=1  # constant");
            inl {| af_ty := ARef (b "Header") (b "std_msgs/Header"); af_arr := None; af_name := b "h" |};
            inr (b "   # indented comment") ];
  dsections := [ (b "std_msgs/Header",
                  [ inr (b "string NAME=a=b#c"); inl (P "uint32" "seq"); inr (b "#");
                    inl (P "time" "stamp"); inr (b "") ]) ] |}.

Example C19_d1_text : render_dgraph d1 = b "# a comment
int32 x

uint8 FOO=1  # constant
Header h
   # indented comment
================================================================================
MSG: std_msgs/Header
string NAME=a=b#c
uint32 seq
#
time stamp
".
Proof. vm_compute. reflexivity. Qed.

Example C19_d1_wf : wf_dgraph (b "p") d1 = true.
Proof. vm_compute. reflexivity. Qed.

Example C19_d1_parse : parse_msgdef (b "p") (render_dgraph d1) =
  Ok [ Fld (b "x") (prim "int32");
       Fld (b "h") (Ty (b "Header") false 0%Z true None
                       [Fld (b "seq") (prim "uint32"); Fld (b "stamp") (prim "time")]) ].
Proof. vm_compute. reflexivity. Qed.

Example C19_d1_parse_thm : parse_msgdef (b "p") (render_dgraph d1) = Ok (tree_of (erase d1)).
Proof. exact (C19_tree_decorated (b "p") d1 C19_d1_wf). Qed.

(* C19_tree_lines: the hypotheses are satisfiable (the canonical lines of g1) *)
Example C19_tree_lines_ex :
  renders (map render_line (top g1)) (top g1) /\
  Forall2 sec_rel (sections g1) (map (fun s => (fst s, map render_line (snd s))) (sections g1)).
Proof.
  split; [apply renders_map; vm_compute; reflexivity|].
  repeat constructor; apply renders_map; vm_compute; reflexivity.
Qed.

(* the empty graph *)
Example C19_empty : wf_graph (b "p") {| top := []; sections := [] |} = true /\
                    parse_msgdef (b "p") (render_graph {| top := []; sections := [] |}) = Ok [].
Proof. split; vm_compute; reflexivity. Qed.

(* ---------------------------------------------------------------------------------------- *)
(* observations on the modelled behaviour (none of them is a crash)                          *)

(* a qualified type that has no section is not an error: it becomes a record without fields
   (the `switch` in resolveDependentFields has no case for it); this is why wf_graph demands
   that every reference has a section *)
Example C19_obs_missing_qualified :
  parse_msgdef (b "p") (b "x/Missing m") = Ok [Fld (b "m") (Ty (b "x/Missing") false 0%Z true None [])].
Proof. vm_compute. reflexivity. Qed.

(* the parent package used inside a nested definition is the package written at the reference
   (or inherited from the referrer when the reference is unqualified), not the package of the
   section that was found: inside std_msgs/Header reached through "Header", "Foo" means p/Foo.
   This is why wf_graph checks references along the traversal, relative to the current parent *)
Example C19_obs_parent_package : parse_msgdef (b "p") (b "Header h
===
MSG: std_msgs/Header
Foo f
===
MSG: p/Foo
int8 a
===
MSG: std_msgs/Foo
int16 b
") = Ok [Fld (b "h") (Ty (b "Header") false 0%Z true None
           [Fld (b "f") (Ty (b "Foo") false 0%Z true None [Fld (b "a") (prim "int8")])])].
Proof. vm_compute. reflexivity. Qed.

(* strconv.Atoi accepts a sign: negative fixed sizes are returned as they are; only the first
   bracket pair is looked at; text after the field name is ignored *)
Example C19_obs_negative_size : parse_msgdef (b "p") (b "int32[-3] x") =
  Ok [Fld (b "x") (Ty (b "int32[-3]") true (-3)%Z false (Some (prim "int32")) [])].
Proof. vm_compute. reflexivity. Qed.

Example C19_obs_nested_array : parse_msgdef (b "p") (b "int32[3][4] x") =
  Ok [Fld (b "x") (Ty (b "int32[3][4]") true 3%Z false (Some (prim "int32")) [])].
Proof. vm_compute. reflexivity. Qed.

Example C19_obs_trailing_text : parse_msgdef (b "p") (b "int32 x y z") = Ok [Fld (b "x") (prim "int32")].
Proof. vm_compute. reflexivity. Qed.
