(* C08 (companion of C05_tie) / C08 (source tie) - the bookkeeping decisions of Writer.WriteMessage are the ones written in go/mcap's writer.go
   today: `go_w_*` are regenerated from the Go AST on every run (theories/DecisionsW_gen.v); the model's write_message is
   WriteMessage with these decisions substituted (proofs: theories/DecisionTieW.v).  The four running minimum/maximum
   updates are tied by their effect on the state, the others as booleans. *)
From Mcap Require ConstsTie LayoutTie DecisionTieW. (* regenerated ties to /repo's source that this property's model relies on *)
From Coq Require Import List NArith ZArith Bool.
From RecordUpdate Require Import RecordSet.
From Mcap Require Import Bytes GoSem Records Lexer Writer Reader DecisionsW_gen DecisionTieW.
Import ListNotations RecordSetNotations.
Open Scope N_scope.

Theorem C08_tie_statistics_times : forall s m, stats_time (m_log m) s = upd_st_start_go (upd_st_end_go s m) m.
Proof. exact stats_time_unfold. Qed.
Print Assumptions C08_tie_statistics_times.
