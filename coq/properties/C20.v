(* C20 - "an index-based read keeps decompressed at any moment no more chunks than the largest
   number of chunks whose time ranges overlap one another (one in file order)".

   A slot holds one decompressed chunk; slots are never released, so the number of slots is the
   number of chunk buffers kept.  max_overlap cks is the largest number of chunks of cks whose
   closed ranges [start, end] contain a common point (C20_max_overlap_meaning).
   Hypotheses: chunks_wf (C05), distinct chunk offsets, and ranges_ok (start <= end for every
   chunk index).  ranges_ok is implied by chunks_wf for chunks that hold a message; it is needed
   for message-less chunks, see C20_ex_bad_range. *)
From Mcap Require ConstsTie LayoutTie. (* regenerated ties to /repo's source that this property's model relies on *)
From Coq Require Import List NArith ZArith Bool Permutation Sorted.
From Mcap Require Import Bytes GoSem Records Reader Iter.
Import ListNotations.
Open Scope N_scope.

Theorem C20_slots_logtime : forall (sel : amsg -> bool) cks,
  chunks_wf cks -> ranges_ok cks -> NoDup (map ac_off cks) ->
  (forall out s, arun sel LogTimeOrder (a_init (ac_sort LogTimeOrder cks)) out s ->
     (length (a_slots s) <= Nat.max 1 (max_overlap cks))%nat) /\
  (forall fuel n out st, a_read sel LogTimeOrder fuel n cks = Some (out, st) ->
     (fst st <= Nat.max 1 (max_overlap cks))%nat /\ (snd st <= Nat.max 1 (max_overlap cks))%nat).
Proof. exact C20_slots_logtime_thm. Qed.
Print Assumptions C20_slots_logtime.

Theorem C20_slots_reverse : forall (sel : amsg -> bool) cks,
  chunks_wf cks -> ranges_ok cks -> NoDup (map ac_off cks) ->
  (forall out s, arun sel ReverseLogTimeOrder (a_init (ac_sort ReverseLogTimeOrder cks)) out s ->
     (length (a_slots s) <= Nat.max 1 (max_overlap cks))%nat) /\
  (forall fuel n out st, a_read sel ReverseLogTimeOrder fuel n cks = Some (out, st) ->
     (fst st <= Nat.max 1 (max_overlap cks))%nat /\ (snd st <= Nat.max 1 (max_overlap cks))%nat).
Proof. exact C20_slots_reverse_thm. Qed.
Print Assumptions C20_slots_reverse.

Theorem C20_slots_file : forall (sel : amsg -> bool) cks,
  (forall out s, arun sel FileOrder (a_init (ac_sort FileOrder cks)) out s -> (length (a_slots s) <= 1)%nat) /\
  (forall fuel n out st, a_read sel FileOrder fuel n cks = Some (out, st) -> (fst st <= 1)%nat /\ (snd st <= 1)%nat).
Proof. exact C20_slots_file_thm. Qed.
Print Assumptions C20_slots_file.

(* max_overlap is the maximum, over all points p, of the number of chunks containing p *)
Theorem C20_max_overlap_meaning : forall cks,
  (forall p, (overlap_at cks p <= max_overlap cks)%nat) /\
  (max_overlap cks = O \/ exists p, overlap_at cks p = max_overlap cks).
Proof. exact C20_max_overlap_meaning_thm. Qed.
Print Assumptions C20_max_overlap_meaning.

(* the byte-level read under the loader hypothesis: st = (slots allocated, slots with unread
   messages), maxima over the states between calls, as reported by Reader.indexed_all *)
Theorem C20_indexed_slots : forall dall ro sm f sel pairs d fuel n cis cks ms st,
  loader_ok dall ro sm f sel pairs -> ro_order ro = order_of d ->
  Forall2 (ci_match pairs) cis cks -> chunks_wf cks -> ranges_ok cks -> NoDup (map ac_off cks) ->
  indexed_all dall fuel n ro sm f (i_init ro cis) [] (O, O) = Ok (ms, EEOF, st) ->
  (fst st <= Nat.max 1 (max_overlap cks))%nat /\ (snd st <= Nat.max 1 (max_overlap cks))%nat.
Proof. exact C20_indexed_slots_thm. Qed.
Print Assumptions C20_indexed_slots.

Theorem C20_indexed_slots_file : forall dall ro sm f sel pairs fuel n cis cks ms st,
  loader_ok dall ro sm f sel pairs -> ro_order ro = FileOrder ->
  Forall2 (ci_match pairs) cis cks ->
  indexed_all dall fuel n ro sm f (i_init ro cis) [] (O, O) = Ok (ms, EEOF, st) ->
  (fst st <= 1)%nat /\ (snd st <= 1)%nat.
Proof. exact C20_indexed_slots_file_thm. Qed.
Print Assumptions C20_indexed_slots_file.

(* ----- non-vacuity ----- *)
Example C20_ex_hyps : chunks_wf ex_cks /\ ranges_ok ex_cks /\ NoDup (map ac_off ex_cks).
Proof. exact (conj ex_cks_wf (conj ex_cks_ranges ex_cks_offsets)). Qed.
(* three chunks, at most two overlap: two slots *)
Example C20_ex_two_slots :
  max_overlap ex_cks = 2%nat /\
  uids (a_read sel_all LogTimeOrder 4 12 ex_cks) = Some ([0; 2; 5; 1; 3; 4; 7; 8; 10; 6; 9]%nat, (2, 2)%nat) /\
  uids (a_read sel_all ReverseLogTimeOrder 4 12 ex_cks) = Some ([9; 6; 10; 8; 7; 4; 3; 1; 5; 2; 0]%nat, (2, 2)%nat) /\
  uids (a_read sel_all FileOrder 4 12 ex_cks) = Some ([4; 5; 6; 7; 8; 9; 10; 0; 1; 2; 3]%nat, (1, 1)%nat).
Proof. exact (conj ex_max_overlap (conj ex_logtime (conj ex_reverse ex_file))). Qed.
(* three nested chunks: the bound 3 is reached *)
Example C20_ex_nested :
  uids (a_read sel_all LogTimeOrder 4 10 ex_nest) = Some ([0; 3; 7; 1; 4; 6; 8; 5; 2]%nat, (3, 3)%nat) /\
  uids (a_read sel_all ReverseLogTimeOrder 4 10 ex_nest) = Some ([2; 5; 8; 1; 4; 6; 7; 3; 0]%nat, (3, 3)%nat) /\
  max_overlap ex_nest = 3%nat.
Proof. exact ex_nest_run. Qed.
(* without ranges_ok the bound fails: an empty chunk with index range start 3 > end 1 *)
Example C20_ex_bad_range :
  chunks_wf ex_bad_range /\ NoDup (map ac_off ex_bad_range) /\
  uids (a_read sel_all LogTimeOrder 3 3 ex_bad_range) = Some ([0; 1]%nat, (2, 1)%nat) /\
  Nat.max 1 (max_overlap ex_bad_range) = 1%nat.
Proof. exact ex_bad_range_refutes. Qed.
Example C20_ex_end_to_end_hyps :
  loader_ok x_dall x_ro x_sm x_file x_sel x_pairs /\ ro_order x_ro = order_of true /\
  Forall2 (ci_match x_pairs) [x_ci] [x_ac] /\ chunks_wf [x_ac] /\ ranges_ok [x_ac] /\ NoDup (map ac_off [x_ac]) /\
  exists ms st, indexed_all x_dall 4 4 x_ro x_sm x_file (i_init x_ro [x_ci]) [] (O, O) = Ok (ms, EEOF, st).
Proof. exact x_end_to_end_hyps. Qed.
