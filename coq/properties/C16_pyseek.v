(* C16_pyseek - ordering theory of the Python seeking reader (model: theories/Py.v, sections
   "_message_queue.py" and "SeekingReader"; proofs: theories/PySeekFacts.v).

   A. CPython's heapq as used by LogTimeOrderQueue (siftdown/siftup/heappush/heappop of Py.v, with
      fuel = length of the list) is a priority queue for any comparison `lt` that is a strict weak
      order on the elements involved (in particular for a strict total order).
   B. `q_lt rev` (_Orderable.__lt__) is irreflexive and transitive always, and total exactly on
      lists without ties (q_distinct).  "Not after" is NOT transitive in general: a chunk index ties
      with every message item that has its position and log time (C16_q_lt_not_weak), and then heapq
      can return a non-minimum (C16_heap_needs_order).
   C. SeekingReader.iter_messages: the loop over the queue returns every selected message of every
      chunk exactly once,
        - log_time_order, either direction: sorted by log time under the only assumption that the
          chunk index time bound used is sound (C16_seek_log_sorted) - no distinctness needed;
        - ascending: if moreover chunk offsets are distinct, equal log times come out in
          (chunk offset, index in chunk) order (C16_seek_ascending);
        - descending: the same with two extra conditions (C16_seek_descending), because a chunk index
          is compared by offset + length but a message by its chunk's offset.  Without them the tie
          order fails on a file whose chunks are adjacent (ex_descending_run; the real package gives
          the same sequence);
        - file order: chunks in summary order, messages in chunk order (C16_seek_file_order). *)
From Mcap Require ConstsTie LayoutTie PyDecisionTie. (* regenerated ties to /repo's source that this property's model relies on *)
From Coq Require Import List NArith ZArith Bool Arith Permutation Sorted.
From Coq.Strings Require Import Byte.
From Mcap Require Import Bytes GoSem Crc32 Records Py PySeekFacts.
Import ListNotations.

(* ================= A. heapq ================= *)
(* the invariant in the form of the task statement *)
Theorem C16_heap_invariant_form lt dflt h :
  heap_lt lt dflt h <->
  (forall i, (0 < i)%nat -> (i < length h)%nat -> lt (nth i h dflt) (nth ((i - 1) / 2) h dflt) = false).
Proof. exact (heap_lt_div lt dflt h). Qed.
Print Assumptions C16_heap_invariant_form.

(* A.1 *)
Theorem C16_heappush_heap lt dflt l h x :
  swo_on lt l -> incl (x :: h) l -> heap_lt lt dflt h -> heap_lt lt dflt (heappush lt dflt h x).
Proof. exact (fun H => heappush_heap_lt lt dflt l H h x). Qed.
Print Assumptions C16_heappush_heap.

Theorem C16_heappop_heap lt dflt l h x h' :
  swo_on lt l -> incl h l -> heap_lt lt dflt h -> heappop lt dflt h = Some (x, h') -> heap_lt lt dflt h'.
Proof. exact (fun H => heappop_heap_lt lt dflt l H h x h'). Qed.
Print Assumptions C16_heappop_heap.

(* A.2 *)
Theorem C16_heappush_perm lt dflt h x : Permutation (heappush lt dflt h x) (x :: h).
Proof. exact (heappush_perm lt dflt h x). Qed.
Print Assumptions C16_heappush_perm.

Theorem C16_heappop_perm lt dflt h x h' : heappop lt dflt h = Some (x, h') -> Permutation h (x :: h').
Proof. exact (heappop_perm lt dflt h x h'). Qed.
Print Assumptions C16_heappop_perm.

Theorem C16_heappop_none lt dflt h : heappop lt dflt h = None <-> h = [].
Proof. exact (heappop_none lt dflt h). Qed.
Print Assumptions C16_heappop_none.

(* A.3 *)
Theorem C16_heappop_min lt dflt l h x h' :
  swo_on lt l -> incl h l -> heap_lt lt dflt h -> heappop lt dflt h = Some (x, h') ->
  Forall (fun y => lt y x = false) h'.
Proof. exact (fun H => heappop_min_lt lt dflt l H h x h'). Qed.
Print Assumptions C16_heappop_min.

(* A.4 *)
Theorem C16_heapsort lt dflt xs :
  swo_on lt xs ->
  let out := drain lt dflt (length xs) (push_all lt dflt [] xs) in
  Permutation out xs /\ StronglySorted (fun a b => lt b a = false) out.
Proof. exact (heapsort_lt lt dflt xs). Qed.
Print Assumptions C16_heapsort.

Theorem C16_heapsort_total_order lt dflt xs :
  sto_on lt xs ->
  let out := drain lt dflt (length xs) (push_all lt dflt [] xs) in
  Permutation out xs /\ StronglySorted (fun a b => lt b a = false) out.
Proof. exact (heapsort_sto lt dflt xs). Qed.
Print Assumptions C16_heapsort_total_order.

Theorem C16_total_is_weak lt l : sto_on lt l -> swo_on lt l.
Proof. exact (sto_swo lt l). Qed.
Print Assumptions C16_total_is_weak.

(* non-vacuity: seven items with tying log times *)
Example C16_heap_items_total : sto_on (q_lt false) ex_heap_items.
Proof. exact ex_heap_sto. Qed.
Example C16_heap_items_heap : heap_lt (q_lt false) q_dflt (push_all (q_lt false) q_dflt [] ex_heap_items).
Proof. exact ex_heap_is_heap. Qed.
Example C16_heap_items_incl : incl (push_all (q_lt false) q_dflt [] ex_heap_items) ex_heap_items.
Proof. exact ex_heap_incl. Qed.
Example C16_heap_run :
  drain (q_lt false) q_dflt 7 (push_all (q_lt false) q_dflt [] ex_heap_items) = ex_heap_sorted.
Proof. vm_compute. reflexivity. Qed.
Example C16_heap_pop_some :
  exists x h', heappop (q_lt false) q_dflt (push_all (q_lt false) q_dflt [] ex_heap_items) = Some (x, h').
Proof. vm_compute. eauto. Qed.

(* ================= B. the order ================= *)
Theorem C16_q_lt_irrefl r x : q_lt r x x = false.
Proof. exact (q_lt_irrefl r x). Qed.
Print Assumptions C16_q_lt_irrefl.

Theorem C16_q_lt_trans r x y z : q_lt r x y = true -> q_lt r y z = true -> q_lt r x z = true.
Proof. exact (q_lt_trans r x y z). Qed.
Print Assumptions C16_q_lt_trans.

Theorem C16_q_tie_iff r x y : (q_lt r x y = false /\ q_lt r y x = false) <-> q_tie r x y.
Proof. exact (q_tie_iff r x y). Qed.
Print Assumptions C16_q_tie_iff.

Theorem C16_q_tie_chunks r a b :
  q_tie r (QChunk a) (QChunk b) <->
  (if r then ci_end a = ci_end b /\ ci_offset a + ci_length a = ci_offset b + ci_length b
   else ci_start a = ci_start b /\ ci_offset a = ci_offset b)%N.
Proof. exact (q_tie_chunks r a b). Qed.
Print Assumptions C16_q_tie_chunks.

Theorem C16_q_tie_msgs r t1 o1 i1 t2 o2 i2 :
  q_tie r (QMsg t1 o1 i1) (QMsg t2 o2 i2) <-> (t_log t1 = t_log t2 /\ o1 = o2 /\ i1 = i2).
Proof. exact (q_tie_msgs r t1 o1 i1 t2 o2 i2). Qed.
Print Assumptions C16_q_tie_msgs.

Theorem C16_q_tie_chunk_msg r c t o i :
  q_tie r (QChunk c) (QMsg t o i) <->
  (if r then ci_end c = t_log t /\ ci_offset c + ci_length c = o
   else ci_start c = t_log t /\ ci_offset c = o)%N.
Proof. exact (q_tie_chunk_msg r c t o i). Qed.
Print Assumptions C16_q_tie_chunk_msg.

Theorem C16_q_lt_strict_total r l : q_distinct r l -> sto_on (q_lt r) l.
Proof. exact (q_lt_sto r l). Qed.
Print Assumptions C16_q_lt_strict_total.

Theorem C16_q_lt_msgs r t1 o1 i1 t2 o2 i2 :
  q_lt r (QMsg t1 o1 i1) (QMsg t2 o2 i2) = true <->
  (if r
   then (t_log t2 < t_log t1 \/ (t_log t1 = t_log t2 /\ (o2 < o1 \/ (o1 = o2 /\ i2 < i1))))
   else (t_log t1 < t_log t2 \/ (t_log t1 = t_log t2 /\ (o1 < o2 \/ (o1 = o2 /\ i1 < i2)))))%N.
Proof. exact (q_lt_msgs r t1 o1 i1 t2 o2 i2). Qed.
Print Assumptions C16_q_lt_msgs.

Example C16_q_distinct_instance : q_distinct false ex_heap_items.
Proof. exact ex_heap_distinct. Qed.

(* "not after" is not transitive without distinctness; heapq then may not return a minimum *)
Example C16_q_lt_not_weak :
  let a := QMsg (ex_tr 0 10) 100 3 in
  let b := QChunk (ex_ci 10 20 100 50) in
  let c := QMsg (ex_tr 1 10) 100 1 in
  q_lt false b a = false /\ q_lt false c b = false /\ q_lt false c a = true.
Proof. exact q_lt_not_weak. Qed.

Example C16_heap_needs_order :
  let a := QMsg (ex_tr 0 10) 100 3 in
  let b := QChunk (ex_ci 10 20 100 50) in
  let c := QMsg (ex_tr 1 10) 100 1 in
  let x := QChunk (ex_ci 10 20 900 50) in
  drain (q_lt false) q_dflt 4 (push_all (q_lt false) q_dflt [] [a; b; x; c]) = [a; b; c; x]
  /\ q_lt false c a = true.
Proof. exact heap_needs_order. Qed.

(* ================= C. the seeking read ================= *)
(* what one chunk puts on the queue *)
Theorem C16_push_chunk_msgs su flt off recs i q :
  push_chunk_msgs su flt off recs i q =
  match sel_items su flt off recs i with
  | Some its => POk (fold_left q_push its q)
  | None => PRaise PKey
  end.
Proof. exact (push_chunk_msgs_sel su flt off recs i q). Qed.
Print Assumptions C16_push_chunk_msgs.

Theorem C16_sel_items_total su flt off recs i :
  Forall (rec_resolvable su) recs -> sel_items su flt off recs i = Some (sel_spec su flt off recs i).
Proof. exact (fun H => sel_items_total su flt off recs H i). Qed.
Print Assumptions C16_sel_items_total.

Theorem C16_sel_items_spec su flt off recs i its :
  sel_items su flt off recs i = Some its -> its = sel_spec su flt off recs i.
Proof. exact (sel_items_spec su flt off recs i its). Qed.
Print Assumptions C16_sel_items_spec.

Theorem C16_sel_spec_shape su flt off recs i x :
  In x (sel_spec su flt off recs i) -> exists t j, x = QMsg t off j /\ (i <= j)%N.
Proof. exact (sel_spec_shape su flt off recs i x). Qed.
Print Assumptions C16_sel_spec_shape.

Theorem C16_sel_spec_sorted su flt off recs i :
  StronglySorted (fun a b => (q_idx a < q_idx b)%N) (sel_spec su flt off recs i).
Proof. exact (sel_spec_sorted su flt off recs i). Qed.
Print Assumptions C16_sel_spec_sorted.

(* log time order, both directions, no distinctness *)
Theorem C16_seek_log_sorted file validate su flt rev_ cis fuel :
  (forall c, In c cis -> chunk_sound file validate su flt rev_ c) ->
  (total_turns file validate su flt cis < fuel)%nat ->
  exists res,
    sk_loop fuel file validate su flt (fold_left q_push (map QChunk cis) (QHeap rev_ [])) [] = (res, EStop) /\
    Permutation res (q_triples (all_items file validate su flt cis)) /\
    StronglySorted (t_le rev_) res.
Proof. exact (sk_log_sorted file validate su flt rev_ cis fuel). Qed.
Print Assumptions C16_seek_log_sorted.

Theorem C16_chunk_sound_forward file validate su flt c :
  chunk_sound file validate su flt false c <->
  exists its, chunk_items file validate su flt c = Some its /\
              forall t o i, In (QMsg t o i) its -> (ci_start c <= t_log t)%N.
Proof. exact (chunk_sound_forward file validate su flt c). Qed.
Print Assumptions C16_chunk_sound_forward.

Theorem C16_chunk_sound_reverse file validate su flt c :
  chunk_sound file validate su flt true c <->
  exists its, chunk_items file validate su flt c = Some its /\
              forall t o i, In (QMsg t o i) its -> (t_log t <= ci_end c)%N.
Proof. exact (chunk_sound_reverse file validate su flt c). Qed.
Print Assumptions C16_chunk_sound_reverse.

(* ascending with the tie order *)
Theorem C16_seek_ascending file validate su flt cis fuel :
  NoDup (map ci_offset cis) ->
  (forall c, In c cis -> chunk_sound file validate su flt false c) ->
  (total_turns file validate su flt cis < fuel)%nat ->
  exists out,
    sk_loop fuel file validate su flt (fold_left q_push (map QChunk cis) (QHeap false [])) [] = (q_triples out, EStop) /\
    Permutation out (all_items file validate su flt cis) /\
    StronglySorted (fun a b => q_lt false b a = false) out.
Proof. exact (sk_ascending file validate su flt cis fuel). Qed.
Print Assumptions C16_seek_ascending.

(* descending with the tie order *)
Theorem C16_seek_descending file validate su flt cis fuel :
  NoDup (map ci_offset cis) ->
  (forall c, In c cis -> chunk_sound file validate su flt true c) ->
  rev_chunks_distinct cis ->
  rev_no_adjacent_tie file validate su flt cis ->
  (total_turns file validate su flt cis < fuel)%nat ->
  exists out,
    sk_loop fuel file validate su flt (fold_left q_push (map QChunk cis) (QHeap true [])) [] = (q_triples out, EStop) /\
    Permutation out (all_items file validate su flt cis) /\
    StronglySorted (fun a b => q_lt true b a = false) out.
Proof. exact (sk_descending file validate su flt cis fuel). Qed.
Print Assumptions C16_seek_descending.

Theorem C16_rev_gap_conditions file validate su flt cis :
  (forall c c', In c cis -> In c' cis ->
     (ci_offset c + ci_length c = ci_offset c' + ci_length c')%N -> c = c') ->
  (forall c c', In c cis -> In c' cis -> c <> c' -> (ci_offset c + ci_length c <> ci_offset c')%N) ->
  rev_chunks_distinct cis /\ rev_no_adjacent_tie file validate su flt cis.
Proof. exact (rev_gap_conditions file validate su flt cis). Qed.
Print Assumptions C16_rev_gap_conditions.

(* what the sorted conclusion means for message items and for the triples returned *)
Theorem C16_sorted_meaning r out :
  StronglySorted (fun a b => q_lt r b a = false) out ->
  StronglySorted (msg_key_le r) out /\ StronglySorted (t_le r) (q_triples out).
Proof. exact (full_sorted_consequences r out). Qed.
Print Assumptions C16_sorted_meaning.

Theorem C16_all_items_msgs file validate su flt cis : Forall is_msg (all_items file validate su flt cis).
Proof. exact (all_items_msgs file validate su flt cis). Qed.
Print Assumptions C16_all_items_msgs.

(* file order *)
Theorem C16_seek_file_order file validate su flt cis fuel :
  (forall c, In c cis -> exists its, chunk_items file validate su flt c = Some its) ->
  (total_turns file validate su flt cis < fuel)%nat ->
  sk_loop fuel file validate su flt (fold_left q_push (map QChunk cis) (QFifo [])) []
  = (q_triples (all_items file validate su flt cis), EStop).
Proof. exact (sk_file_order file validate su flt cis fuel). Qed.
Print Assumptions C16_seek_file_order.

(* SeekingReader.iter_messages itself *)
Theorem C16_iter_messages_loop file validate flt log_order reverse su cis :
  sk_get_summary file = POk (Some su) -> su_chunks su <> [] ->
  negb log_order && reverse = false ->
  chunks_matching su flt (su_chunks su) [] = POk cis ->
  sk_iter_messages file validate flt log_order reverse =
  sk_loop (2 * length file + length cis + 8) file validate su flt
          (fold_left q_push (map QChunk cis) (if log_order then QHeap reverse [] else QFifo [])) [].
Proof. exact (sk_iter_messages_loop file validate flt log_order reverse su cis). Qed.
Print Assumptions C16_iter_messages_loop.

Theorem C16_iter_messages_ascending file validate flt su cis :
  sk_get_summary file = POk (Some su) -> su_chunks su <> [] ->
  chunks_matching su flt (su_chunks su) [] = POk cis ->
  NoDup (map ci_offset (su_chunks su)) ->
  (forall c, In c cis -> chunk_sound file validate su flt false c) ->
  (length (all_items file validate su flt cis) < 2 * length file + 8)%nat ->
  exists out,
    sk_iter_messages file validate flt true false = (q_triples out, EStop) /\
    Permutation out (all_items file validate su flt cis) /\
    StronglySorted (fun a b => q_lt false b a = false) out.
Proof. exact (sk_iter_messages_ascending file validate flt su cis). Qed.
Print Assumptions C16_iter_messages_ascending.

(* ---- non-vacuity and concrete runs ---- *)
(* three chunks with overlapping time ranges, adjacent in the file; (log time, sequence) pairs *)
Example C16_ex_nodup : NoDup (map ci_offset ex_cis).
Proof. exact ex_nodup. Qed.
Example C16_ex_sound r : forall c, In c ex_cis -> chunk_sound ex_file true ex_su ex_flt r c.
Proof. exact (ex_sound r). Qed.
Example C16_ex_fuel : (total_turns ex_file true ex_su ex_flt ex_cis < 100)%nat.
Proof. exact ex_fuel. Qed.
Example C16_ex_readable : forall c, In c ex_cis -> exists its, chunk_items ex_file true ex_su ex_flt c = Some its.
Proof. exact ex_readable. Qed.

Example C16_ex_ascending_run :
  ex_seqs (sk_loop 100 ex_file true ex_su ex_flt (ex_queue true false) [])
  = ([(3, 7); (5, 0); (7, 1); (10, 2); (10, 3); (10, 4); (10, 5); (10, 8); (12, 6)]%N, EStop).
Proof. vm_compute. reflexivity. Qed.

Example C16_ex_file_order_run :
  ex_seqs (sk_loop 100 ex_file true ex_su ex_flt (ex_queue false false) [])
  = ([(5, 0); (7, 1); (10, 2); (10, 3); (10, 4); (10, 5); (12, 6); (3, 7); (10, 8)]%N, EStop).
Proof. vm_compute. reflexivity. Qed.

(* FINDING: adjacent chunks read in reverse - message 3 before message 4 of the same chunk although both
   have log time 10 (descending order would be 5, 4, 3).  The hypothesis of C16_seek_descending that
   excludes this fails here (C16_ex_adjacent_tie); log time order still holds (C16_seek_log_sorted). *)
Example C16_ex_descending_run :
  ex_seqs (sk_loop 100 ex_file true ex_su ex_flt (ex_queue true true) [])
  = ([(12, 6); (10, 8); (10, 5); (10, 3); (10, 4); (10, 2); (7, 1); (5, 0); (3, 7)]%N, EStop).
Proof. vm_compute. reflexivity. Qed.
Example C16_ex_adjacent_tie : ~ rev_no_adjacent_tie ex_file true ex_su ex_flt ex_cis.
Proof. exact ex_adjacent_tie. Qed.

(* the same chunks one byte apart: all hypotheses of C16_seek_descending hold, and the order is right *)
Example C16_ex_gap_nodup : NoDup (map ci_offset ex_cis_gap).
Proof. exact ex_gap_nodup. Qed.
Example C16_ex_gap_sound : forall c, In c ex_cis_gap -> chunk_sound ex_file_gap true ex_su ex_flt true c.
Proof. exact ex_gap_sound. Qed.
Example C16_ex_gap_distinct : rev_chunks_distinct ex_cis_gap.
Proof. exact ex_gap_distinct. Qed.
Example C16_ex_gap_no_tie : rev_no_adjacent_tie ex_file_gap true ex_su ex_flt ex_cis_gap.
Proof. exact ex_gap_no_tie. Qed.
Example C16_ex_gap_fuel : (total_turns ex_file_gap true ex_su ex_flt ex_cis_gap < 100)%nat.
Proof. exact ex_gap_fuel. Qed.
Example C16_ex_gap_descending_run :
  ex_seqs (sk_loop 100 ex_file_gap true ex_su ex_flt (fold_left q_push (map QChunk ex_cis_gap) (QHeap true [])) [])
  = ([(12, 6); (10, 8); (10, 5); (10, 4); (10, 3); (10, 2); (7, 1); (5, 0); (3, 7)]%N, EStop).
Proof. vm_compute. reflexivity. Qed.

(* a file written by the Python writer model (three chunks, overlapping times): every hypothesis of
   C16_iter_messages_ascending holds, and the run *)
Example C16_ex_py_summary : sk_get_summary ex_pyfile = POk (Some ex_pysu).
Proof. exact ex_py_summary. Qed.
Example C16_ex_py_chunks : su_chunks ex_pysu <> [].
Proof. exact ex_py_chunks. Qed.
Example C16_ex_py_matching : chunks_matching ex_pysu ex_flt (su_chunks ex_pysu) [] = POk ex_pycis.
Proof. exact ex_py_matching. Qed.
Example C16_ex_py_nodup : NoDup (map ci_offset (su_chunks ex_pysu)).
Proof. exact ex_py_nodup. Qed.
Example C16_ex_py_sound : forall c, In c ex_pycis -> chunk_sound ex_pyfile true ex_pysu ex_flt false c.
Proof. exact ex_py_sound. Qed.
Example C16_ex_py_fuel : (length (all_items ex_pyfile true ex_pysu ex_flt ex_pycis) < 2 * length ex_pyfile + 8)%nat.
Proof. exact ex_py_fuel. Qed.
Example C16_ex_py_run :
  ex_seqs (sk_iter_messages ex_pyfile true ex_flt true false)
  = ([(5, 0); (7, 4); (10, 2); (15, 5); (20, 1); (30, 3)]%N, EStop).
Proof. vm_compute. reflexivity. Qed.
