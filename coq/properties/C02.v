(* C02 - "For any file the Go writer produces with its index enabled, reading messages through the
   index in file order yields the same sequence of (schema, channel, message) triples as a
   sequential scan of the same file; when the file has no index, or its summary lacks what
   index-based reading needs, the read falls back to the scan or fails with an error - it never
   silently returns fewer messages than the scan.  Every attachment and metadata record that has
   an index entry is retrievable, with identical content, from the location the entry gives, and
   a metadata callback receives every metadata record of the file during a sequential read and
   every indexed one during an index-based read."

   What is proved here (all proofs in theories/ReaderFacts.v):
   - C02_dispatch, C02_dispatch_no_index, C02_no_channels_no_index, C02_no_channels_fallback:
     the decision Reader.Messages takes (index-based read / scan / error), completely;
   - C02_random_access: GetAttachmentReader / GetMetadata at the offset of an attachment / metadata
     item of a rendered file return that record (the offsets the writer puts into its indexes are
     such offsets: property C05);
   - C02_token_stream, C02_scan_state, C02_scan, C02_read_scan, C02_scan_metadata: the sequential
     read of a rendered file returns exactly the fold scan_spec over the lexer events of the file,
     ends with io.EOF, and hands the metadata records to the callback in file order;
   - C02_indexed_metadata: the index-based read hands every indexed metadata record to the callback;
   - C02_indexed_eq_scan_abstract, C02_never_fewer_abstract, C02_indexed_file_order_bytes: over
     abstract chunks the file-order indexed read is the scan sequence; in every order it is a
     permutation of it; at byte level (loader hypothesis of Iter.v) the log times agree.
   C02_full_statement below was the first attempt at the end-to-end statement over the writer model W; it is too
   strong (refuted in properties/C02_full.v: C02_full_statement_refuted) and is kept only so that the refutation and the
   corrected, proved statement (C02_full_partial : C02_full_corrected_statement) can refer to it.
   Without the hypothesis ids_consistent even the corrected statement is false (x3_channel_redefinition_refutes). *)
From Mcap Require ConstsTie LayoutTie DecisionTieR. (* regenerated ties to /repo's source that this property's model relies on *)
From Coq Require Import List NArith ZArith Bool Permutation Sorted.
From Coq.Strings Require Import Byte.
From RecordUpdate Require Import RecordSet.
From Mcap Require Import Bytes GoSem Crc32 Records RecordsFacts Writer Lexer LexSpec LexerFactsB Reader Iter ReaderFacts.
Import ListNotations RecordSetNotations.
Open Scope N_scope.

(* ====================================================================== *)
(* first attempt at the end-to-end statement (too strong: see properties/C02_full.v) *)

(* the decompressors of the reader invert the compressor the writer was given *)
Definition codec_ok (ds : doracle) (dall : dalloracle) (comp : bytes) (compress : nat -> bytes -> bytes) : Prop :=
  forall i b, ds comp (compress i b) None = (b, None) /\ dall comp (compress i b) (blen b) = Some b.

(* no schema id or channel id is registered twice with different content *)
Definition ids_consistent (cs : list wcall) : Prop :=
  (forall c c', In (CChannel c) cs -> In (CChannel c') cs -> c_id c = c_id c' -> c = c') /\
  (forall s s', In (CSchema s) cs -> In (CSchema s') cs -> s_id s = s_id s' -> s = s').

(* every field fits its wire format *)
Definition call_wf (c : wcall) : Prop :=
  match c with
  | CHeader h => wf_header h
  | CSchema s => wf_schema s
  | CChannel c => wf_channel c
  | CMessage m => wf_message m
  | CAttachment a src => wf_attach_ra a (concat (as_frags src)) (crc32 (enc_attachment_fields a ++ concat (as_frags src)))
  | CMetadata m => wf_metadata m /\ blen (enc_metadata m) < max_int32
  | CClose => False
  end.

Definition all_ok (r : wresult) : Prop := r_new r = None /\ Forall (fun x => fst x = None) (r_calls r).

Definition index_enabled (o : wopts) : Prop :=
  o_chunked o = true /\ o_skip_ci o = false /\ o_skip_rch o = false /\ o_skip_rsh o = false.

Definition attachments_of (cs : list wcall) : list (attachment * bytes) :=
  flat_map (fun c => match c with CAttachment a src => [(a, concat (as_frags src))] | _ => [] end) cs.
Definition metadata_of (cs : list wcall) : list metadata :=
  flat_map (fun c => match c with CMetadata m => [m] | _ => [] end) cs.

Definition C02_full_statement : Prop :=
  forall (ds : doracle) (dall : dalloracle) (o : wopts) (lib : bytes) (compress : nat -> bytes -> bytes)
         (hd : header) (cs : list wcall),
  codec_ok ds dall (o_comp o) compress -> Forall call_wf cs -> ids_consistent cs ->
  let w := W o lib compress None (CHeader hd :: cs ++ [CClose]) in
  all_ok w -> blen (file_of w) < two63 ->
  let f := mem_file (file_of w) in
  (* (a) file order: the default read (index if usable, else scan) against the forced scan *)
  (forall pre ri rs, pre = [] \/ pre = [OMetadataCb] ->
     read_messages ds dall f pre = Ok ri -> read_messages ds dall f (pre ++ [OUsingIndex false]) = Ok rs ->
     rr_end rs = EEOF /\
     (rr_end ri = EEOF -> rr_msgs ri = rr_msgs rs) /\
     (index_enabled (effective_opts o) -> rr_mode ri = Some MIndexed /\ rr_end ri = EEOF)) /\
  (* (b) time orders: an error, or the same messages *)
  (forall ord ri rs,
     read_messages ds dall f [OInOrder ord] = Ok ri -> read_messages ds dall f [OUsingIndex false] = Ok rs ->
     rr_end ri = EEOF -> Permutation (rr_msgs ri) (rr_msgs rs)) /\
  (* (c) random access through the attachment and metadata indexes of Info *)
  (forall sm, info ds f = Ok sm ->
     (o_skip_ai o = false ->
        map (fun ai => get_attachment f (ai_offset ai)) (sm_ais sm)
        = map (fun ad => Ok (attach_obs_ra (fst ad) (snd ad) (crc32 (enc_attachment_fields (fst ad) ++ snd ad))))
              (attachments_of cs)) /\
     (o_skip_mdi o = false ->
        map (fun mx => get_metadata ds f (mx_offset mx)) (sm_mxs sm)
        = map (fun m => Ok (metadata_norm m)) (metadata_of cs))) /\
  (* (d) metadata callbacks *)
  (forall ri rs,
     read_messages ds dall f [OMetadataCb] = Ok ri -> read_messages ds dall f [OMetadataCb; OUsingIndex false] = Ok rs ->
     rr_mds rs = map metadata_norm (metadata_of cs) /\
     (rr_mode ri = Some MIndexed -> rr_end ri = EEOF ->
        rr_mds ri = if o_skip_mdi o then [] else map metadata_norm (metadata_of cs))).

(* ====================================================================== *)
(* 1. which iterator Reader.Messages uses *)

Theorem C02_dispatch : forall (ds : doracle) f os,
  (forall r, messages_dispatch ds f os = Ok (MIndexed, r) ->
     exists r0 sm, apply_opts os default_ropts = Ok r0 /\ r = finalize r0 /\ ro_use_index r = true /\
                   info ds f = Ok sm /\ index_usable sm) /\
  (forall r0 sm, apply_opts os default_ropts = Ok r0 -> ro_use_index r0 = true ->
     info ds f = Ok sm -> index_usable sm ->
     messages_dispatch ds f os = Ok (MIndexed, finalize r0)) /\
  (forall r0 sm, apply_opts os default_ropts = Ok r0 -> ro_use_index r0 = true ->
     info ds f = Ok sm -> ~ index_usable sm ->
     messages_dispatch ds f os =
       match ro_order r0 with FileOrder => Ok (MScan, finalize r0) | _ => Err EOther end) /\
  (forall r0 e, apply_opts os default_ropts = Ok r0 -> ro_use_index r0 = true ->
     info ds f = Err e -> messages_dispatch ds f os = Err e) /\
  (forall r0, apply_opts os default_ropts = Ok r0 -> ro_use_index r0 = false ->
     messages_dispatch ds f os = Ok (MScan, finalize r0) /\ ro_order (finalize r0) = FileOrder) /\
  (forall e, apply_opts os default_ropts = Err e -> messages_dispatch ds f os = Err e) /\
  (forall r, messages_dispatch ds f os = Ok (MScan, r) -> ro_order r = FileOrder).
Proof. exact C02_dispatch_thm. Qed.
Print Assumptions C02_dispatch.

(* index_usable is the decision CanReadMessagesUsingIndex takes *)
Theorem C02_index_usable_meaning : forall sm,
  can_use_index sm = true <->
  ((sm_cis sm <> [] /\ sm_channels sm <> []) \/ (exists st, sm_stats sm = Some st /\ st_messages st = 0)).
Proof. exact can_use_index_iff. Qed.
Print Assumptions C02_index_usable_meaning.

Theorem C02_dispatch_no_index : forall (ds : doracle) f os r1,
  apply_opts os default_ropts = Ok r1 -> ro_order r1 = FileOrder ->
  messages_dispatch ds f (os ++ [OUsingIndex false]) = Ok (MScan, finalize (r1 <| ro_use_index := false |>)).
Proof. exact C02_dispatch_no_index_thm. Qed.
Print Assumptions C02_dispatch_no_index.

Theorem C02_no_channels_no_index : forall (ds : doracle) f os r sm,
  info ds f = Ok sm -> sm_channels sm = [] ->
  messages_dispatch ds f os = Ok (MIndexed, r) ->
  exists st, sm_stats sm = Some st /\ st_messages st = 0.
Proof. exact C02_no_channels_no_index_thm. Qed.
Print Assumptions C02_no_channels_no_index.

Theorem C02_no_channels_fallback : forall (ds : doracle) f os sm,
  info ds f = Ok sm -> sm_channels sm = [] ->
  (forall st, sm_stats sm = Some st -> st_messages st <> 0) ->
  match messages_dispatch ds f os with
  | Ok (MScan, r) => ro_order r = FileOrder
  | Ok (MIndexed, _) => False
  | Err _ => True
  | _ => False
  end.
Proof. exact C02_no_channels_fallback_thm. Qed.
Print Assumptions C02_no_channels_fallback.

Example C02_dispatch_ex_indexed :
  info ds_id x2_file = Ok x2_sm /\ index_usable x2_sm /\
  apply_opts [] default_ropts = Ok default_ropts /\ ro_use_index default_ropts = true /\
  messages_dispatch ds_id x2_file [] = Ok (MIndexed, x2_ro).
Proof. exact x2_dispatch_indexed. Qed.
Example C02_dispatch_ex_fallback :
  info ds_id x2_file_norch = Ok x2_sm_norch /\ ~ index_usable x2_sm_norch /\
  sm_channels x2_sm_norch = [] /\ sm_cis x2_sm_norch <> [] /\
  (forall st, sm_stats x2_sm_norch = Some st -> st_messages st <> 0) /\
  messages_dispatch ds_id x2_file_norch [] = Ok (MScan, x2_ro) /\
  messages_dispatch ds_id x2_file_norch [OInOrder LogTimeOrder] = Err EOther /\
  (exists r0, apply_opts [OInOrder LogTimeOrder] default_ropts = Ok r0 /\ ro_use_index r0 = true).
Proof. exact x2_dispatch_fallback. Qed.
Example C02_dispatch_ex_info_fails :
  info ds_id x2_file_cut = Err EBadMagic /\ messages_dispatch ds_id x2_file_cut [] = Err EBadMagic.
Proof. exact x2_dispatch_info_fails. Qed.
Example C02_dispatch_ex_no_index :
  (exists r0, apply_opts [OUsingIndex false] default_ropts = Ok r0 /\ ro_use_index r0 = false) /\
  apply_opts [OMetadataCb] default_ropts = Ok (default_ropts <| ro_md_cb := true |>) /\
  ro_order (default_ropts <| ro_md_cb := true |>) = FileOrder /\
  messages_dispatch ds_id x2_file [OMetadataCb; OUsingIndex false]
    = Ok (MScan, finalize (default_ropts <| ro_md_cb := true |> <| ro_use_index := false |>)).
Proof. exact x2_dispatch_no_index. Qed.
Example C02_dispatch_ex_empty_file :
  info ds_id x4_file = Ok x4_sm /\ sm_channels x4_sm = [] /\
  messages_dispatch ds_id x4_file [] = Ok (MIndexed, x2_ro) /\
  (exists st, sm_stats x4_sm = Some st /\ st_messages st = 0).
Proof. exact x4_dispatch_empty. Qed.
Example C02_dispatch_ex_bad_options :
  apply_opts [OUsingIndex false; OInOrder LogTimeOrder] default_ropts = Err EOther /\
  messages_dispatch ds_id x2_file [OUsingIndex false; OInOrder LogTimeOrder] = Err EOther.
Proof. exact x2_dispatch_bad_options. Qed.

(* ====================================================================== *)
(* 2. random access *)

Theorem C02_random_access : forall ds : doracle,
  (forall lo pre a data crc post,
     wf_attach_item lo a data crc ->
     blen (render (pre ++ IAttach a data crc :: post)) < two63 ->
     exists ob,
       get_attachment (mem_file (render (pre ++ IAttach a data crc :: post))) (blen (render pre)) = Ok ob /\
       ao_log ob = a_log a /\ ao_create ob = a_create a /\ ao_name ob = a_name a /\ ao_media ob = a_media a /\
       ao_size ob = a_size a /\ ao_data ob = data /\ ao_data_end ob = None /\
       ao_computed ob = Ok (crc32 (enc_attachment_fields a ++ data)) /\ ao_parsed ob = Ok crc) /\
  (forall pre m post,
     wf_metadata m -> wf_item reader_lopts ds (IRec OpMetadata (enc_metadata m)) ->
     blen (render (pre ++ IRec OpMetadata (enc_metadata m) :: post)) < two63 ->
     get_metadata ds (mem_file (render (pre ++ IRec OpMetadata (enc_metadata m) :: post))) (blen (render pre))
     = Ok (metadata_norm m)).
Proof. exact C02_random_access_thm. Qed.
Print Assumptions C02_random_access.

(* the index entries Info reports for the example file are exactly such offsets *)
Example C02_random_access_ex_attachment :
  x2_items = x2_pre_att ++ IAttach x2_att x2_adata x2_acrc :: x2_post_att /\
  wf_attach_ra x2_att x2_adata x2_acrc /\
  blen (render (x2_pre_att ++ IAttach x2_att x2_adata x2_acrc :: x2_post_att)) < two63 /\
  map ai_offset (sm_ais x2_sm) = [blen (render x2_pre_att)] /\
  get_attachment x2_file 26 = Ok (attach_obs_ra x2_att x2_adata x2_acrc).
Proof. exact x2_get_attachment_hyps. Qed.
Example C02_random_access_ex_metadata :
  x2_items = x2_pre_md ++ IRec OpMetadata (enc_metadata x2_md) :: x2_post_md /\
  wf_metadata x2_md /\ blen (enc_metadata x2_md) < max_int32 /\
  blen (render (x2_pre_md ++ IRec OpMetadata (enc_metadata x2_md) :: x2_post_md)) < two63 /\
  map mx_offset (sm_mxs x2_sm) = [blen (render x2_pre_md)] /\
  get_metadata ds_id x2_file 77 = Ok (metadata_norm x2_md).
Proof. exact x2_get_metadata_hyps. Qed.
Example C02_random_access_ex_wf :
  wf_attach_item reader_lopts x2_att x2_adata x2_acrc /\
  wf_item reader_lopts ds_id (IRec OpMetadata (enc_metadata x2_md)).
Proof. exact x2_random_access_hyps. Qed.

(* ====================================================================== *)
(* 3. the sequential scan *)

(* the token stream of a rendered sequence of records followed by the closing magic *)
Theorem C02_token_stream : forall (lo : lopts) (ds : doracle) recs s sk,
  lo_cb lo = CbNone -> Forall (wf_item lo ds) recs ->
  at_top s (rd (render (recs ++ [IMagic])) None sk) ->
  delivers lo ds (file_steps lo ds recs + 1) s (file_events lo ds recs) EEOF.
Proof. exact delivers_file. Qed.
Print Assumptions C02_token_stream.

(* from any iterator state whose lexer delivers evs and then the error fin *)
Theorem C02_scan_state : forall (ds : doracle) ro R s evs fin fuel n acc mds,
  delivers scan_lopts ds R (u_lex s) evs fin -> (R < fuel)%nat -> (R <= n)%nat ->
  scan_all ds fuel (S n) ro s acc mds = lift acc mds (scan_spec ro (u_schemas s) (u_channels s) evs fin).
Proof. exact scan_all_delivers. Qed.
Print Assumptions C02_scan_state.

Theorem C02_scan : forall (ds : doracle) hb recs sk ro h l fuel n,
  blen hb < max_int32 ->
  Forall (wf_item scan_lopts ds) recs ->
  new_reader ds (mem_file (render (data_file hb recs))) sk = Ok (h, l) ->
  (file_steps scan_lopts ds recs + 1 < fuel)%nat -> (file_steps scan_lopts ds recs + 1 <= n)%nat ->
  scan_all ds fuel (S n) ro {| u_lex := l; u_schemas := []; u_channels := []; u_reccap := 0 |} [] []
  = scan_spec ro [] [] (file_events scan_lopts ds recs) EEOF.
Proof. exact C02_scan_thm. Qed.
Print Assumptions C02_scan.

Theorem C02_read_scan : forall (ds : doracle) dall hb recs os r,
  blen hb < max_int32 ->
  Forall (wf_item scan_lopts ds) recs ->
  let f := mem_file (render (data_file hb recs)) in
  messages_dispatch ds f os = Ok (MScan, r) ->
  (file_steps scan_lopts ds recs + 1 <= N.to_nat (fs_size f))%nat ->
  read_messages ds dall f os =
    bind (parse_header hb) (fun _ =>
    bind (scan_spec r [] [] (file_events scan_lopts ds recs) EEOF) (fun '(ms, mds, e) =>
      Ok {| rr_mode := Some MScan; rr_msgs := ms; rr_mds := mds; rr_end := e; rr_slots := (O, O) |})).
Proof. exact C02_read_scan_thm. Qed.
Print Assumptions C02_read_scan.

Theorem C02_scan_metadata : forall ro, ro_md_cb ro = true ->
  forall evs sch chs fin ms cbs e,
  scan_spec ro sch chs evs fin = Ok (ms, cbs, e) ->
  is_prefix cbs (md_list evs) /\
  (scan_complete ro sch chs evs = true -> cbs = md_list evs /\ e = fin).
Proof. exact C02_scan_metadata_thm. Qed.
Print Assumptions C02_scan_metadata.

Example C02_token_stream_ex :
  lo_cb scan_lopts = CbNone /\ Forall (wf_item scan_lopts ds_id) x2_recs /\
  at_top x2_s0 (rd (render (x2_recs ++ [IMagic])) None true) /\
  delivers scan_lopts ds_id (file_steps scan_lopts ds_id x2_recs + 1)
    (u_lex {| u_lex := x2_s0; u_schemas := []; u_channels := []; u_reccap := 0 |})
    (file_events scan_lopts ds_id x2_recs) EEOF.
Proof. exact x2_token_stream_hyps. Qed.
Example C02_scan_ex :
  blen x2_hb < max_int32 /\ Forall (wf_item scan_lopts ds_id) x2_recs /\
  (exists h l, new_reader ds_id (mem_file (render (data_file x2_hb x2_recs))) true = Ok (h, l)) /\
  (file_steps scan_lopts ds_id x2_recs + 1 < 40)%nat /\ (file_steps scan_lopts ds_id x2_recs + 1 <= 39)%nat /\
  scan_spec x2_ro_cb [] [] (file_events scan_lopts ds_id x2_recs) EEOF
  = Ok ([(Some x2_schema, x2_chan, x2_m1); (Some x2_schema, x2_chan, x2_m2)], [metadata_norm x2_md], EEOF).
Proof. exact x2_scan_hyps. Qed.
Example C02_read_scan_ex :
  messages_dispatch ds_id (mem_file (render (data_file x2_hb x2_recs))) [OMetadataCb; OUsingIndex false]
    = Ok (MScan, finalize (default_ropts <| ro_md_cb := true |> <| ro_use_index := false |>)) /\
  (file_steps scan_lopts ds_id x2_recs + 1 <= N.to_nat (fs_size (mem_file (render (data_file x2_hb x2_recs)))))%nat.
Proof. exact x2_read_scan_hyps. Qed.
Example C02_scan_metadata_ex :
  ro_md_cb x2_ro_cb = true /\
  scan_complete x2_ro_cb [] [] (file_events scan_lopts ds_id x2_recs) = true /\
  md_list (file_events scan_lopts ds_id x2_recs) = [metadata_norm x2_md].
Proof. exact x2_scan_metadata_hyps. Qed.
Example C02_written_ex :
  r_new (x2_res x2_opts) = None /\ forallb (fun x => match fst x with None => true | _ => false end) (r_calls (x2_res x2_opts)) = true
  /\ x2_bytes = render x2_items /\ x2_items = data_file x2_hb x2_recs.
Proof. exact x2_written. Qed.

(* the metadata callback of the index-based read *)
Theorem C02_indexed_metadata : forall b, blen b < two63 ->
  forall mxs ms acc,
  Forall2 (fun x m => md_at b (mx_offset x) m /\ wf_metadata m /\ blen (enc_metadata m) < max_int32) mxs ms ->
  md_callbacks (mem_file b) mxs acc = (acc ++ map metadata_norm ms, None).
Proof. exact C02_indexed_metadata_thm. Qed.
Print Assumptions C02_indexed_metadata.

Example C02_indexed_metadata_ex :
  blen x2_bytes < two63 /\
  Forall2 (fun x m => md_at x2_bytes (mx_offset x) m /\ wf_metadata m /\ blen (enc_metadata m) < max_int32)
          (sm_mxs x2_sm) [x2_md] /\
  md_callbacks x2_file (sm_mxs x2_sm) [] = ([metadata_norm x2_md], None).
Proof. exact x2_indexed_metadata_hyps. Qed.

(* ====================================================================== *)
(* 4. indexed read = scan over abstract chunks *)

Theorem C02_indexed_eq_scan_abstract : forall channels ro cks summary fuel n,
  let sel := tw_sel channels ro in
  file_ordered cks -> Permutation summary cks ->
  (length cks + 1 <= fuel)%nat -> (length (scan_msgs sel cks) + 1 <= n)%nat ->
  exists st, a_read sel FileOrder fuel n summary = Some (scan_msgs sel cks, st).
Proof. exact C02_indexed_eq_scan_abstract_thm. Qed.
Print Assumptions C02_indexed_eq_scan_abstract.

Theorem C02_never_fewer_abstract : forall (sel : amsg -> bool) o fuel n cks out st,
  a_read sel o fuel n cks = Some (out, st) ->
  Permutation out (scan_msgs sel cks) /\ length out = length (scan_msgs sel cks).
Proof. exact C02_never_fewer_abstract_thm. Qed.
Print Assumptions C02_never_fewer_abstract.

Theorem C02_indexed_file_order_bytes : forall dall ro sm f sel pairs fuel n cis summary cks ms st,
  loader_ok dall ro sm f sel pairs -> ro_order ro = FileOrder ->
  Forall2 (ci_match pairs) cis summary -> file_ordered cks -> Permutation summary cks ->
  indexed_all dall fuel n ro sm f (i_init ro cis) [] (O, O) = Ok (ms, EEOF, st) ->
  map log_of ms = map am_ts (scan_msgs sel cks).
Proof. exact C02_indexed_file_order_bytes_thm. Qed.
Print Assumptions C02_indexed_file_order_bytes.

Example C02_abstract_ex :
  file_ordered ex_cks /\ Permutation [exA; exB; exC] ex_cks /\
  (length ex_cks + 1 <= 4)%nat /\ (length (scan_msgs (tw_sel ex_channels x2_ro) ex_cks) + 1 <= 12)%nat /\
  uids (a_read sel_all FileOrder 4 12 [exA; exB; exC]) = Some (map am_uid (all_msgs ex_cks), (1, 1)%nat).
Proof. exact x2_abstract_hyps. Qed.
Example C02_indexed_bytes_ex :
  loader_ok x2_dall x2_ro x2_sm x2_file x2_sel x2_pairs /\ ro_order x2_ro = FileOrder /\
  Forall2 (ci_match x2_pairs) (sm_cis x2_sm) [x2_ac] /\ file_ordered [x2_ac] /\ Permutation [x2_ac] [x2_ac] /\
  (exists ms st, indexed_all x2_dall 10 10 x2_ro x2_sm x2_file (i_init x2_ro (sm_cis x2_sm)) [] (O, O) = Ok (ms, EEOF, st)) /\
  map am_ts (scan_msgs x2_sel [x2_ac]) = [10; 5].
Proof. exact x2_indexed_bytes_hyps. Qed.

(* the two reads of the example file agree end to end *)
Example C02_indexed_eq_scan_ex :
  match read_messages ds_id x2_dall x2_file [OMetadataCb], read_messages ds_id x2_dall x2_file [OMetadataCb; OUsingIndex false] with
  | Ok ri, Ok rs =>
    rr_mode ri = Some MIndexed /\ rr_mode rs = Some MScan /\ rr_msgs ri = rr_msgs rs /\ rr_mds ri = rr_mds rs /\
    rr_end ri = EEOF /\ rr_end rs = EEOF /\ length (rr_msgs rs) = 2%nat
  | _, _ => False
  end.
Proof. exact x2_indexed_eq_scan. Qed.

(* known finding: a channel id registered twice with different content *)
Example C02_channel_redefinition_refutes :
  r_new x3_res = None /\ forallb (fun x => match fst x with None => true | _ => false end) (r_calls x3_res) = true /\
  topics_of (read_messages ds_id x2_dall x3_file []) = Some (Some MIndexed, [([x74], 10); ([x74], 15)], EEOF) /\
  topics_of (read_messages ds_id x2_dall x3_file [OUsingIndex false]) = Some (Some MScan, [([x74], 10); ([x75], 15)], EEOF).
Proof. exact x3_channel_redefinition_refutes. Qed.
