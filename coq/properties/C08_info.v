(* C08 (reader half) - Info lists every channel, schema, chunk index, attachment index and metadata
   index record that the summary section of the file holds, and the statistics it reports are the
   statistics record of the file.  Proofs: theories/ReaderFacts2.v.

   Setting: the file is  render (pre ++ summary ++ offs ++ [IFooter ss sos crc; IMagic])  with
     pre       any items (magic, header, data section), rendered length ss, 0 < ss < 2^63;
     summary   records `sum_item (r, pad)` = IRec (srec_op r) (srec_body r ++ pad): the encoding of a
               well-formed schema / channel / statistics / chunk index / attachment index / metadata
               index record followed by arbitrary padding, or a record the summary reader ignores
               (SOther op body: any opcode except 0, Chunk, Attachment, Footer and the six above);
               record length < MaxInt32;
     offs      summary offset records.
   Vocabulary (Mcap.ReaderFacts2):
     schemas_of rs ...          the schema (channel, ...) records among rs, in file order, as parsed:
                                channel_norm / statistics_norm / chunkindex_norm sort the map fields
     tab_of key l []            the table obtained by inserting l in order with tab_set
     last_or l None             the last element of l, None when l is empty
   In Info mode nothing is pruned: every chunk index of the summary is returned, sorted by offset. *)
From Mcap Require ConstsTie LayoutTie DecisionTieW. (* regenerated ties to /repo's source that this property's model relies on *)
From Coq Require Import List NArith ZArith Bool.
From Coq.Strings Require Import Byte.
From RecordUpdate Require Import RecordSet.
From Mcap Require Import Bytes GoSem Records RecordsFacts Writer Lexer LexSpec Reader ReaderFacts2.
Import ListNotations RecordSetNotations.
Open Scope N_scope.

Theorem C08_info :
  forall (ds : doracle) (pre : list item) (summary : list (srec * bytes)) (offs : list sumoffset) (ss sos crc : N),
  let ft := {| f_summary_start := ss; f_summary_offset_start := sos; f_crc := crc |} in
  let F := render (pre ++ map sum_item summary ++ map so_item offs ++ [IFooter ss sos crc; IMagic]) in
  Forall wf_sitem summary -> wf_footer ft ->
  ss = blen (render pre) -> 0 < ss -> ss < two63 ->
  let rs := map fst summary in
  exists sm, info ds {| fs_data := F; fs_fail := None |} = Ok sm /\
    sm_footer sm = Some ft /\
    sm_schemas sm = tab_of s_id (schemas_of rs) [] /\
    sm_channels sm = tab_of c_id (channels_of rs) [] /\
    (forall id, tab_get id (sm_schemas sm) = find (fun s => s_id s =? id) (rev (schemas_of rs))) /\
    (forall id, tab_get id (sm_channels sm) = find (fun c => c_id c =? id) (rev (channels_of rs))) /\
    sm_ais sm = ais_of rs /\
    sm_mxs sm = mxs_of rs /\
    sm_cis sm = ci_sort FileOrder (cis_of rs) /\
    sm_stats sm = last_or (stats_of rs) None.
Proof. exact C08_info_offs_thm. Qed.
Print Assumptions C08_info.

(* the same with the summary offsets counted among the ignored records of the summary *)
Theorem C08_info_general :
  forall (ds : doracle) (pre : list item) (S : list (srec * bytes)) (ft : footer),
  Forall wf_sitem S -> wf_footer ft ->
  f_summary_start ft = blen (render pre) -> 0 < f_summary_start ft -> f_summary_start ft < two63 ->
  let rs := map fst S in
  exists sm, info ds {| fs_data := summ_file pre S ft; fs_fail := None |} = Ok sm /\
    sm_footer sm = Some ft /\
    sm_schemas sm = tab_of s_id (schemas_of rs) [] /\
    sm_channels sm = tab_of c_id (channels_of rs) [] /\
    (forall id, tab_get id (sm_schemas sm) = find (fun s => s_id s =? id) (rev (schemas_of rs))) /\
    (forall id, tab_get id (sm_channels sm) = find (fun c => c_id c =? id) (rev (channels_of rs))) /\
    sm_ais sm = ais_of rs /\
    sm_mxs sm = mxs_of rs /\
    sm_cis sm = ci_sort FileOrder (cis_of rs) /\
    sm_stats sm = last_or (stats_of rs) None.
Proof. exact C08_info_thm. Qed.
Print Assumptions C08_info_general.

(* summary_start = 0 (the writer's value when there is no summary record): footer, empty summary *)
Theorem C08_info_no_summary :
  forall (ds : doracle) (B : bytes) (ft : footer),
  wf_footer ft -> f_summary_start ft = 0 ->
  info ds {| fs_data := B ++ frame OpFooter (enc_footer ft) ++ magic; fs_fail := None |} =
    Ok (empty_summ <| sm_footer := Some ft |>).
Proof. exact C08_info_no_summary_thm. Qed.
Print Assumptions C08_info_no_summary.

(* the meaning of the vocabulary *)
Theorem C08_last_or_meaning : forall (A : Type) (l : list A) (x : A) (d : option A),
  last_or [] d = d /\ last_or (l ++ [x]) d = Some x.
Proof. exact (fun A l x d => conj (last_or_nil d) (last_or_snoc l x d)). Qed.
Print Assumptions C08_last_or_meaning.

Theorem C08_tab_of_meaning : forall (A : Type) (key : A -> N) (id : N) (l : list A) (t0 : list (N * A)),
  tab_get id (tab_of key l t0) =
  match find (fun x => key x =? id) (rev l) with Some x => Some x | None => tab_get id t0 end.
Proof. exact (@tab_get_tab_of). Qed.
Print Assumptions C08_tab_of_meaning.

(* ---------- non-vacuity: a file written by the writer model (4 chunks, attachment, metadata,
   statistics, summary offsets); see ReaderFacts2 section 6 ---------- *)
Example ex_file_is_written : r_new y_R = None /\ map fst (r_calls y_R) = repeat None 11.
Proof. exact y_writer_ok. Qed.
Example ex_file_shape :
  y_F = summ_file y_pre y_S y_ft /\ length y_S = 16%nat /\
  map (fun x => srec_op (fst x)) y_S =
    [OpSchema; OpChannel; OpChannel; OpStatistics; OpChunkIndex; OpChunkIndex; OpChunkIndex; OpChunkIndex;
     OpAttachmentIndex; OpMetadataIndex; OpSummaryOffset; OpSummaryOffset; OpSummaryOffset; OpSummaryOffset;
     OpSummaryOffset; OpSummaryOffset].
Proof. exact y_file_shape. Qed.
Example ex_hyps :
  Forall wf_sitem y_S /\ wf_footer y_ft /\ f_summary_start y_ft = blen (render y_pre)
  /\ 0 < f_summary_start y_ft /\ f_summary_start y_ft < two63.
Proof. exact y_info_hyps. Qed.
Example ex_hyps_offs :
  let summary := firstn 10 y_S in
  let offs := [ {| so_op := OpSchema; so_start := 1; so_length := 2 |} ] in
  let ft := {| f_summary_start := 652; f_summary_offset_start := 0; f_crc := 0 |} in
  Forall wf_sitem summary /\ wf_footer ft /\ 652 = blen (render y_pre) /\ 0 < 652 /\ 652 < two63 /\ length offs = 1%nat.
Proof. exact y_info_offs_hyps. Qed.
Example ex_info_value :
  match info ds_none {| fs_data := y_F; fs_fail := None |} with
  | Ok sm => Some (map fst (sm_schemas sm), map fst (sm_channels sm), map ci_offset (sm_cis sm),
                   map ai_offset (sm_ais sm), map mx_offset (sm_mxs sm),
                   option_map st_messages (sm_stats sm), option_map f_summary_start (sm_footer sm))
  | _ => None
  end = Some ([1], [1; 2], [26; 226; 388; 527], [338], [499], Some 4, Some 652).
Proof. exact y_info_value. Qed.
Example ex_info_stats_are_the_writers :
  match info ds_none {| fs_data := y_F; fs_fail := None |} with
  | Ok sm => sm_stats sm | _ => None end = Some (stats_record (r_final y_R)).
Proof. exact y_info_stats. Qed.
Example ex_no_summary :
  wf_footer y_ft0 /\ f_summary_start y_ft0 = 0 /\ f_crc y_ft0 <> 0 /\
  file_of y_R0 = firstn (length (file_of y_R0) - 37) (file_of y_R0) ++ frame OpFooter (enc_footer y_ft0) ++ magic /\
  info ds_none {| fs_data := file_of y_R0; fs_fail := None |} = Ok (empty_summ <| sm_footer := Some y_ft0 |>).
Proof. exact y_no_summary_hyps. Qed.
