(* Extraction of the executable model.  ExtrOcamlBasic only: N, Z, positive, nat and
   Byte.byte stay the extracted inductives. *)
Require Extraction.
Require Import ExtrOcamlBasic.
From Coq Require Import List NArith ZArith.
From Coq.Strings Require Import Byte.
From Mcap Require Import Bytes GoSem Crc32 Records Writer Lexer Reader Ros1Msg Bag Db3 Py Ros2Schema.
Extraction Language OCaml.
Extraction "model.ml" Bytes.byte_of_N Byte.to_N Crc32.crc32 Writer.W Writer.file_of
  Records.parse_header Lexer.lex_all Lexer.lex_next Lexer.new_lexer
  Reader.read_messages Reader.info Reader.new_reader Reader.get_metadata Reader.get_attachment Reader.messages_dispatch Reader.tab_get
  Records.parse_footer Records.parse_schema Records.parse_channel Records.parse_message Records.parse_chunk Records.parse_msgindex
  Records.parse_chunkindex Records.parse_attindex Records.parse_statistics Records.parse_metadata Records.parse_mdindex
  Records.parse_sumoffset Records.parse_dataend
  Ros1Msg.parse_msgdef Bag.bag2mcap Db3.db3_to_mcap
  Py.stream_records Py.ns_iter_messages Py.ns_get_header Py.ns_get_summary Py.ns_iter Py.is_att Py.is_md Py.sk_init
  Py.sk_get_summary Py.sk_get_header Py.sk_iter_messages Py.sk_iter_attachments Py.sk_iter_metadata Py.py_write Py.limit_4g Ros2Schema.get_schemas.
