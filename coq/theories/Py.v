(* Py.v - executable model of the repository's Python package python/mcap/mcap:
     data_stream.py  (ReadDataStream over an in-memory stream, RecordBuilder)
     records.py      (read/write of every record type)
     stream_reader.py(StreamReader.records, breakup_chunk, get_chunk_data_stream, read_magic)
     reader.py       (NonSeekingReader, SeekingReader, _read_summary_from_stream_reader,
                      _chunks_matching_topics)
     _message_queue.py (heapq based LogTimeOrderQueue, InsertOrderQueue)
     writer.py + _chunk_builder.py (Writer)
   Python semantics that matter are kept: IO.read(n) returns fewer bytes at the end of the stream
   (only an empty result is EndOfFile), struct.unpack fails on short data, str(b, "utf-8") is strict,
   a negative read length reads everything, dicts keep insertion order, generators deliver the items
   produced before an exception.  Exceptions are classes (pyerr).
   The zstandard and lz4 modules are not installed in this environment: a chunk whose compression is
   "zstd" or "lz4" raises UnsupportedCompressionError, any other name is taken as stored (as the code does).
   Definitions only; proofs are in PyFacts*.v. *)
From Coq Require Import List NArith ZArith Bool.
From Coq.Strings Require Import Byte.
From Mcap Require Import Bytes GoSem Crc32 Records.
Import ListNotations.
Open Scope N_scope.

Inductive pyerr :=
| PEndOfFile | PStruct | PUnicode | PInvalidMagic | PRecordLimit | PCrc | PUnsupported
| PMcap | PKey | PValue | POverflow | PStopIter | PSpent.

Inductive pres (A : Type) :=
| POk (a : A)
| PRaise (e : pyerr)
| PFuel.
Arguments POk {A} a.
Arguments PRaise {A} e.
Arguments PFuel {A}.

Definition pbind {A B} (x : pres A) (f : A -> pres B) : pres B :=
  match x with POk a => f a | PRaise e => PRaise e | PFuel => PFuel end.
Declare Scope py_scope.
Notation "'let+' x ':=' c 'in' k" := (pbind c (fun x => k))
  (at level 200, x pattern, c at level 100, k at level 200, right associativity) : py_scope.
Open Scope py_scope.

Definition ptake (n : N) (b : bytes) : bytes := firstn (N.to_nat (N.min n (blen b))) b.
Definition pdrop (n : N) (b : bytes) : bytes := skipn (N.to_nat (N.min n (blen b))) b.

(* ---------- strict UTF-8 (what str(b, "utf-8") accepts) ---------- *)
Definition bn (b : byte) : N := Byte.to_N b.
Definition in_rng (b : byte) (lo hi : N) : bool := (lo <=? bn b) && (bn b <=? hi).
Definition is_cont (b : byte) : bool := in_rng b 128 191.

Fixpoint utf8_valid_f (fuel : nat) (s : bytes) : bool :=
  match fuel with
  | O => false
  | S f =>
    match s with
    | [] => true
    | a :: r =>
      if bn a <? 128 then utf8_valid_f f r
      else if in_rng a 194 223 then
        match r with b :: r' => is_cont b && utf8_valid_f f r' | _ => false end
      else if bn a =? 224 then
        match r with b :: c :: r' => in_rng b 160 191 && is_cont c && utf8_valid_f f r' | _ => false end
      else if in_rng a 225 236 || in_rng a 238 239 then
        match r with b :: c :: r' => is_cont b && is_cont c && utf8_valid_f f r' | _ => false end
      else if bn a =? 237 then
        match r with b :: c :: r' => in_rng b 128 159 && is_cont c && utf8_valid_f f r' | _ => false end
      else if bn a =? 240 then
        match r with b :: c :: d :: r' => in_rng b 144 191 && is_cont c && is_cont d && utf8_valid_f f r' | _ => false end
      else if in_rng a 241 243 then
        match r with b :: c :: d :: r' => is_cont b && is_cont c && is_cont d && utf8_valid_f f r' | _ => false end
      else if bn a =? 244 then
        match r with b :: c :: d :: r' => in_rng b 128 143 && is_cont c && is_cont d && utf8_valid_f f r' | _ => false end
      else false
    end
  end.
Definition utf8_valid (s : bytes) : bool := utf8_valid_f (S (length s)) s.

(* ---------- ReadDataStream over BytesIO ---------- *)
Record ps := { ps_buf : bytes;            (* bytes still to come *)
               ps_count : N;              (* _count *)
               ps_crc : option N }.       (* running zlib.crc32 when calculate_crc *)

(* zlib.crc32(data, value) *)
Definition py_crc (c : N) (d : bytes) : N := crc_final (crc_update (crc_final c) d).

Definition max_ssize : Z := 9223372036854775807.

(* ReadDataStream.read(length) *)
Definition ps_read (n : Z) (s : ps) : pres (bytes * ps) :=
  if (n =? 0)%Z then POk ([], s)
  else if (max_ssize <? n)%Z then PRaise POverflow
  else
    let data := if (n <? 0)%Z then ps_buf s else ptake (Z.to_N n) (ps_buf s) in
    let rest := if (n <? 0)%Z then [] else pdrop (Z.to_N n) (ps_buf s) in
    match data with
    | [] => PRaise PEndOfFile
    | _ => POk (data, {| ps_buf := rest; ps_count := ps_count s + blen data;
                         ps_crc := option_map (fun c => py_crc c data) (ps_crc s) |})
    end.

(* read1/2/4/8: struct.unpack needs exactly k bytes *)
Definition ps_uint (k : nat) (s : ps) : pres (N * ps) :=
  let+ (d, s') := ps_read (Z.of_nat k) s in
  if Nat.eqb (length d) k then POk (unle d, s') else PRaise PStruct.

(* str(stream.read(n), "utf-8") *)
Definition ps_str (n : N) (s : ps) : pres (bytes * ps) :=
  let+ (d, s') := ps_read (Z.of_N n) s in
  if utf8_valid d then POk (d, s') else PRaise PUnicode.

Definition ps_pstr (s : ps) : pres (bytes * ps) :=
  let+ (n, s1) := ps_uint 4 s in ps_str n s1.

(* dict assignment d[k] = v: a new key goes to the end, an existing key keeps its place *)
Fixpoint pd_set (k v : bytes) (l : kvs) : kvs :=
  match l with
  | [] => [(k, v)]
  | x :: r => if bytes_eqb (fst x) k then (k, v) :: r else x :: pd_set k v r
  end.
Fixpoint pn_set {A} (k : N) (v : A) (l : list (N * A)) : list (N * A) :=
  match l with
  | [] => [(k, v)]
  | x :: r => if fst x =? k then (k, v) :: r else x :: pn_set k v r
  end.
Fixpoint pn_get {A} (k : N) (l : list (N * A)) : option A :=
  match l with
  | [] => None
  | x :: r => if fst x =? k then Some (snd x) else pn_get k r
  end.

(* while stream.count < end: key = read_prefixed_string(); value = read_prefixed_string() *)
Fixpoint ps_strmap (fuel : nat) (stop : N) (s : ps) (acc : kvs) : pres (kvs * ps) :=
  match fuel with
  | O => PFuel
  | S f =>
    if ps_count s <? stop then
      let+ (k, s1) := ps_pstr s in
      let+ (v, s2) := ps_pstr s1 in
      ps_strmap f stop s2 (pd_set k v acc)
    else POk (acc, s)
  end.

(* while stream.count < end: id = read2(); value = read8() *)
Fixpoint ps_nnmap (fuel : nat) (stop : N) (s : ps) (acc : list (N * N)) : pres (list (N * N) * ps) :=
  match fuel with
  | O => PFuel
  | S f =>
    if ps_count s <? stop then
      let+ (k, s1) := ps_uint 2 s in
      let+ (v, s2) := ps_uint 8 s1 in
      ps_nnmap f stop s2 (pn_set k v acc)
    else POk (acc, s)
  end.

(* MessageIndex entries: a list, appended *)
Fixpoint ps_entries (fuel : nat) (stop : N) (s : ps) (acc : list (N * N)) : pres (list (N * N) * ps) :=
  match fuel with
  | O => PFuel
  | S f =>
    if ps_count s <? stop then
      let+ (t, s1) := ps_uint 8 s in
      let+ (o, s2) := ps_uint 8 s1 in
      ps_entries f stop s2 (acc ++ [(t, o)])
    else POk (acc, s)
  end.

Definition lfuel (s : ps) : nat := S (length (ps_buf s)).

(* ---------- records.py: read ---------- *)
Inductive prec :=
| PHeader (h : header) | PFooter (f : footer) | PSchema (s : schema) | PChannel (c : channel)
| PMessage (m : message) | PChunk (k : chunk) | PMsgIndex (mi : msgindex) | PChunkIndex (ci : chunkindex)
| PAttachment (a : attachment) | PAttIndex (ai : attindex) | PStatistics (st : statistics)
| PMetadata (m : metadata) | PMdIndex (x : mdindex) | PSumOffset (so : sumoffset) | PDataEnd (d : dataend).

Definition rd_header (s : ps) : pres (prec * ps) :=
  let+ (p, s1) := ps_pstr s in
  let+ (l, s2) := ps_pstr s1 in
  POk (PHeader {| h_profile := p; h_library := l |}, s2).

Definition rd_footer (s : ps) : pres (prec * ps) :=
  let+ (a, s1) := ps_uint 8 s in
  let+ (b, s2) := ps_uint 8 s1 in
  let+ (c, s3) := ps_uint 4 s2 in
  POk (PFooter {| f_summary_start := a; f_summary_offset_start := b; f_crc := c |}, s3).

Definition rd_schema (s : ps) : pres (prec * ps) :=
  let+ (id, s1) := ps_uint 2 s in
  let+ (name, s2) := ps_pstr s1 in
  let+ (enc, s3) := ps_pstr s2 in
  let+ (n, s4) := ps_uint 4 s3 in
  let+ (d, s5) := ps_read (Z.of_N n) s4 in
  POk (PSchema {| s_id := id; s_name := name; s_encoding := enc; s_data := d |}, s5).

Definition rd_channel (s : ps) : pres (prec * ps) :=
  let+ (id, s1) := ps_uint 2 s in
  let+ (sid, s2) := ps_uint 2 s1 in
  let+ (topic, s3) := ps_pstr s2 in
  let+ (menc, s4) := ps_pstr s3 in
  let+ (n, s5) := ps_uint 4 s4 in
  let+ (m, s6) := ps_strmap (lfuel s5) (ps_count s5 + n) s5 [] in
  POk (PChannel {| c_id := id; c_schema := sid; c_topic := topic; c_menc := menc; c_meta := m |}, s6).

Definition rd_message (len : N) (s : ps) : pres (prec * ps) :=
  let+ (ch, s1) := ps_uint 2 s in
  let+ (sq, s2) := ps_uint 4 s1 in
  let+ (lg, s3) := ps_uint 8 s2 in
  let+ (pb, s4) := ps_uint 8 s3 in
  let+ (d, s5) := ps_read (Z.of_N len - 22)%Z s4 in
  POk (PMessage {| m_chan := ch; m_seq := sq; m_log := lg; m_pub := pb; m_data := d |}, s5).

Definition rd_chunk (s : ps) : pres (prec * ps) :=
  let+ (st, s1) := ps_uint 8 s in
  let+ (en, s2) := ps_uint 8 s1 in
  let+ (us, s3) := ps_uint 8 s2 in
  let+ (crc, s4) := ps_uint 4 s3 in
  let+ (cl, s5) := ps_uint 4 s4 in
  let+ (comp, s6) := ps_str cl s5 in
  let+ (dl, s7) := ps_uint 8 s6 in
  let+ (d, s8) := ps_read (Z.of_N dl) s7 in
  POk (PChunk {| k_start := st; k_end := en; k_usize := us; k_crc := crc; k_comp := comp; k_records := d |}, s8).

Definition rd_msgindex (s : ps) : pres (prec * ps) :=
  let+ (ch, s1) := ps_uint 2 s in
  let+ (n, s2) := ps_uint 4 s1 in
  let+ (es, s3) := ps_entries (lfuel s2) (ps_count s2 + n) s2 [] in
  POk (PMsgIndex {| mi_chan := ch; mi_entries := es |}, s3).

Definition rd_chunkindex (s : ps) : pres (prec * ps) :=
  let+ (st, s1) := ps_uint 8 s in
  let+ (en, s2) := ps_uint 8 s1 in
  let+ (off, s3) := ps_uint 8 s2 in
  let+ (len, s4) := ps_uint 8 s3 in
  let+ (n, s5) := ps_uint 4 s4 in
  let+ (mio, s6) := ps_nnmap (lfuel s5) (ps_count s5 + n) s5 [] in
  let+ (mil, s7) := ps_uint 8 s6 in
  let+ (comp, s8) := ps_pstr s7 in
  let+ (cs, s9) := ps_uint 8 s8 in
  let+ (us, s10) := ps_uint 8 s9 in
  POk (PChunkIndex {| ci_start := st; ci_end := en; ci_offset := off; ci_length := len; ci_mioffsets := mio;
                      ci_milength := mil; ci_comp := comp; ci_csize := cs; ci_usize := us |}, s10).

(* Attachment.read: the crc is skipped, never checked *)
Definition rd_attachment (s : ps) : pres (prec * ps) :=
  let+ (lg, s1) := ps_uint 8 s in
  let+ (cr, s2) := ps_uint 8 s1 in
  let+ (name, s3) := ps_pstr s2 in
  let+ (media, s4) := ps_pstr s3 in
  let+ (dl, s5) := ps_uint 8 s4 in
  let+ (d, s6) := ps_read (Z.of_N dl) s5 in
  let+ (_, s7) := ps_uint 4 s6 in
  POk (PAttachment {| a_log := lg; a_create := cr; a_name := name; a_media := media; a_size := blen d; a_data := d |}, s7).

Definition rd_attindex (s : ps) : pres (prec * ps) :=
  let+ (off, s1) := ps_uint 8 s in
  let+ (len, s2) := ps_uint 8 s1 in
  let+ (lg, s3) := ps_uint 8 s2 in
  let+ (cr, s4) := ps_uint 8 s3 in
  let+ (sz, s5) := ps_uint 8 s4 in
  let+ (name, s6) := ps_pstr s5 in
  let+ (media, s7) := ps_pstr s6 in
  POk (PAttIndex {| ai_offset := off; ai_length := len; ai_log := lg; ai_create := cr; ai_size := sz;
                    ai_name := name; ai_media := media |}, s7).

Definition rd_statistics (s : ps) : pres (prec * ps) :=
  let+ (mc, s1) := ps_uint 8 s in
  let+ (sc, s2) := ps_uint 2 s1 in
  let+ (cc, s3) := ps_uint 4 s2 in
  let+ (ac, s4) := ps_uint 4 s3 in
  let+ (mdc, s5) := ps_uint 4 s4 in
  let+ (kc, s6) := ps_uint 4 s5 in
  let+ (st, s7) := ps_uint 8 s6 in
  let+ (en, s8) := ps_uint 8 s7 in
  let+ (n, s9) := ps_uint 4 s8 in
  let+ (cnt, s10) := ps_nnmap (lfuel s9) (ps_count s9 + n) s9 [] in
  POk (PStatistics {| st_messages := mc; st_schemas := sc; st_channels := cc; st_attachments := ac;
                      st_metadata := mdc; st_chunks := kc; st_start := st; st_end := en; st_counts := cnt |}, s10).

Definition rd_metadata (s : ps) : pres (prec * ps) :=
  let+ (name, s1) := ps_pstr s in
  let+ (n, s2) := ps_uint 4 s1 in
  let+ (m, s3) := ps_strmap (lfuel s2) (ps_count s2 + n) s2 [] in
  POk (PMetadata {| md_name := name; md_meta := m |}, s3).

Definition rd_mdindex (s : ps) : pres (prec * ps) :=
  let+ (off, s1) := ps_uint 8 s in
  let+ (len, s2) := ps_uint 8 s1 in
  let+ (name, s3) := ps_pstr s2 in
  POk (PMdIndex {| mx_offset := off; mx_length := len; mx_name := name |}, s3).

Definition rd_sumoffset (s : ps) : pres (prec * ps) :=
  let+ (op, s1) := ps_uint 1 s in
  let+ (st, s2) := ps_uint 8 s1 in
  let+ (len, s3) := ps_uint 8 s2 in
  POk (PSumOffset {| so_op := byte_of_N op; so_start := st; so_length := len |}, s3).

Definition rd_dataend (s : ps) : pres (prec * ps) :=
  let+ (c, s1) := ps_uint 4 s in POk (PDataEnd {| de_crc := c |}, s1).

Definition some_rec (x : pres (prec * ps)) : pres (option prec * ps) :=
  let+ (r, s) := x in POk (Some r, s).

(* StreamReader._read_record *)
Definition read_record (op len : N) (s : ps) : pres (option prec * ps) :=
  if op =? 9 then some_rec (rd_attachment s)
  else if op =? 10 then some_rec (rd_attindex s)
  else if op =? 4 then some_rec (rd_channel s)
  else if op =? 6 then some_rec (rd_chunk s)
  else if op =? 8 then some_rec (rd_chunkindex s)
  else if op =? 15 then some_rec (rd_dataend s)
  else if op =? 2 then some_rec (rd_footer s)
  else if op =? 1 then some_rec (rd_header s)
  else if op =? 5 then some_rec (rd_message len s)
  else if op =? 7 then some_rec (rd_msgindex s)
  else if op =? 12 then some_rec (rd_metadata s)
  else if op =? 13 then some_rec (rd_mdindex s)
  else if op =? 3 then some_rec (rd_schema s)
  else if op =? 11 then some_rec (rd_statistics s)
  else if op =? 14 then some_rec (rd_sumoffset s)
  else let+ (_, s') := ps_read (Z.of_N len) s in POk (None, s').

(* ---------- stream_reader.py ---------- *)
Definition s_zstd : bytes := [x7a; x73; x74; x64].
Definition s_lz4 : bytes := [x6c; x7a; x34].

Definition mem_stream (b : bytes) (crc : bool) : ps :=
  {| ps_buf := b; ps_count := 0; ps_crc := if crc then Some 0 else None |}.

(* breakup_chunk: the whole chunk is parsed before anything is returned *)
Fixpoint breakup_loop (fuel : nat) (total : N) (s : ps) (acc : list prec) : pres (list prec) :=
  match fuel with
  | O => PFuel
  | S f =>
    if ps_count s <? total then
      let+ (op, s1) := ps_uint 1 s in
      let+ (len, s2) := ps_uint 8 s1 in
      if op =? 4 then let+ (r, s3) := rd_channel s2 in breakup_loop f total s3 (acc ++ [r])
      else if op =? 5 then let+ (r, s3) := rd_message len s2 in breakup_loop f total s3 (acc ++ [r])
      else if op =? 3 then let+ (r, s3) := rd_schema s2 in breakup_loop f total s3 (acc ++ [r])
      else let+ (_, s3) := ps_read (Z.of_N len) s2 in breakup_loop f total s3 acc
    else POk acc
  end.

Definition breakup_chunk (k : chunk) (validate : bool) : pres (list prec) :=
  if bytes_eqb (k_comp k) s_zstd || bytes_eqb (k_comp k) s_lz4 then PRaise PUnsupported
  else
    let data := k_records k in
    if validate && negb (k_crc k =? 0) && negb (crc32 data =? k_crc k) then PRaise PCrc
    else breakup_loop (S (length data)) (blen data) (mem_stream data false) [].

Definition read_magic (s : ps) : pres ps :=
  let+ (d, s') := ps_read 8 s in
  if Nat.eqb (length d) 8 then
    if bytes_eqb d magic then POk s' else PRaise PInvalidMagic
  else PRaise PStruct.

Inductive phase := PhStart | PhLoop | PhFooter | PhDone.

Record sr := { sr_s : ps; sr_skip : bool; sr_emit : bool; sr_validate : bool; sr_limit : option N;
               sr_phase : phase; sr_pending : list prec }.

Definition sr_with (r : sr) (s : ps) (ph : phase) (pend : list prec) : sr :=
  {| sr_s := s; sr_skip := sr_skip r; sr_emit := sr_emit r; sr_validate := sr_validate r;
     sr_limit := sr_limit r; sr_phase := ph; sr_pending := pend |}.

(* StreamReader(input, skip_magic, emit_chunks, validate_crcs, record_size_limit) *)
Definition limit_4g : option N := Some 4294967296.
Definition new_sr (b : bytes) (skip emit validate : bool) (limit : option N) : sr :=
  {| sr_s := mem_stream b validate; sr_skip := skip; sr_emit := emit; sr_validate := validate;
     sr_limit := limit; sr_phase := PhStart; sr_pending := [] |}.

(* one turn of the `while self._footer is None` loop: the records it yields, whether the record was
   a Footer, the stream afterwards *)
Definition is_footer (r : option prec) : bool := match r with Some (PFooter _) => true | _ => false end.

Definition sr_iter (r : sr) : pres (list prec * bool * ps) :=
  let s := sr_s r in
  let check := sr_validate r && negb (sr_skip r) in
  let before := if check then match ps_crc s with Some c => c | None => 0 end else 0 in
  let+ (op, s1) := ps_uint 1 s in
  let+ (len, s2) := ps_uint 8 s1 in
  if match sr_limit r with Some lim => lim <? len | None => false end then PRaise PRecordLimit else
  let+ (rec, s3) := read_record op len s2 in
  if check && match rec with
              | Some (PDataEnd d) => negb (de_crc d =? 0) && negb (de_crc d =? before)
              | _ => false
              end then PRaise PCrc else
  let padding := (Z.of_N len - (Z.of_N (ps_count s3) - Z.of_N (ps_count s2)))%Z in
  let+ (_, s4) := (if (0 <? padding)%Z then ps_read padding s3 else POk ([], s3)) in
  match rec with
  | Some (PChunk k) =>
    if sr_emit r then POk ([PChunk k], false, s4)
    else let+ inner := breakup_chunk k (sr_validate r) in POk (inner, false, s4)
  | Some x => POk ([x], is_footer rec, s4)
  | None => POk ([], false, s4)
  end.

(* next(generator): Some record, or None for StopIteration *)
Fixpoint sr_next (fuel : nat) (r : sr) : pres (option prec * sr) :=
  match fuel with
  | O => PFuel
  | S f =>
    match sr_pending r with
    | x :: rest => POk (Some x, sr_with r (sr_s r) (sr_phase r) rest)
    | [] =>
      match sr_phase r with
      | PhStart =>
        if sr_skip r then sr_next f (sr_with r (sr_s r) PhLoop [])
        else let+ s' := read_magic (sr_s r) in sr_next f (sr_with r s' PhLoop [])
      | PhLoop =>
        let+ (ys, isf, s') := sr_iter r in
        sr_next f (sr_with r s' (if isf then PhFooter else PhLoop) ys)
      | PhFooter =>
        let+ s' := read_magic (sr_s r) in POk (None, sr_with r s' PhDone [])
      | PhDone => POk (None, r)
      end
    end
  end.

Definition sr_fuel (r : sr) : nat := (length (ps_buf (sr_s r)) + 4)%nat.
Definition sr_pull (r : sr) : pres (option prec * sr) := sr_next (sr_fuel r) r.

(* how an iteration ended *)
Inductive ending := EStop | ERaise (e : pyerr) | EFuel.

(* `for record in reader.records`: everything delivered before the generator stops or raises *)
Fixpoint sr_all (fuel : nat) (r : sr) (acc : list prec) : list prec * ending :=
  match fuel with
  | O => (rev acc, EFuel)
  | S f =>
    match sr_pull r with
    | POk (Some x, r') => sr_all f r' (x :: acc)
    | POk (None, _) => (rev acc, EStop)
    | PRaise e => (rev acc, ERaise e)
    | PFuel => (rev acc, EFuel)
    end
  end.
Definition all_fuel (b : bytes) : nat := (2 * length b + 8)%nat.

Definition stream_records (b : bytes) (skip emit validate : bool) (limit : option N) : list prec * ending :=
  sr_all (all_fuel b) (new_sr b skip emit validate limit) [].

(* ---------- reader.py: Summary ---------- *)
Record summary := { su_stats : option statistics; su_schemas : list (N * schema); su_channels : list (N * channel);
                    su_chunks : list chunkindex; su_atts : list attindex; su_mds : list mdindex }.
Definition empty_summary : summary :=
  {| su_stats := None; su_schemas := []; su_channels := []; su_chunks := []; su_atts := []; su_mds := [] |}.

Definition summary_add (su : summary) (r : prec) : summary :=
  match r with
  | PStatistics st => {| su_stats := Some st; su_schemas := su_schemas su; su_channels := su_channels su;
                         su_chunks := su_chunks su; su_atts := su_atts su; su_mds := su_mds su |}
  | PSchema x => {| su_stats := su_stats su; su_schemas := pn_set (s_id x) x (su_schemas su); su_channels := su_channels su;
                    su_chunks := su_chunks su; su_atts := su_atts su; su_mds := su_mds su |}
  | PChannel x => {| su_stats := su_stats su; su_schemas := su_schemas su; su_channels := pn_set (c_id x) x (su_channels su);
                     su_chunks := su_chunks su; su_atts := su_atts su; su_mds := su_mds su |}
  | PAttIndex x => {| su_stats := su_stats su; su_schemas := su_schemas su; su_channels := su_channels su;
                      su_chunks := su_chunks su; su_atts := su_atts su ++ [x]; su_mds := su_mds su |}
  | PChunkIndex x => {| su_stats := su_stats su; su_schemas := su_schemas su; su_channels := su_channels su;
                        su_chunks := su_chunks su ++ [x]; su_atts := su_atts su; su_mds := su_mds su |}
  | PMdIndex x => {| su_stats := su_stats su; su_schemas := su_schemas su; su_channels := su_channels su;
                     su_chunks := su_chunks su; su_atts := su_atts su; su_mds := su_mds su ++ [x] |}
  | _ => su
  end.

(* _read_summary_from_stream_reader: returns at the Footer without resuming the generator *)
Fixpoint read_summary (fuel : nat) (r : sr) (su : summary) : pres (option summary) :=
  match fuel with
  | O => PFuel
  | S f =>
    let+ (x, r') := sr_pull r in
    match x with
    | None => POk (Some su)
    | Some (PFooter ft) => if f_summary_start ft =? 0 then POk None else POk (Some su)
    | Some y => read_summary f r' (summary_add su y)
    end
  end.

(* ---------- NonSeekingReader ---------- *)
Definition triple := (option schema * channel * message)%type.

Record mfilter := { mf_topics : option (list bytes); mf_start : option N; mf_end : option N }.

Fixpoint mem_topic (t : bytes) (l : list bytes) : bool :=
  match l with [] => false | x :: r => bytes_eqb x t || mem_topic t r end.

Definition msg_selected (flt : mfilter) (c : channel) (m : message) : bool :=
  match mf_topics flt with Some ts => mem_topic (c_topic c) ts | None => true end
  && match mf_start flt with Some t => negb (m_log m <? t) | None => true end
  && match mf_end flt with Some t => m_log m <? t | None => true end.

(* _iter_messages_internal: the triples yielded, then how the iteration ended *)
Fixpoint ns_messages (fuel : nat) (flt : mfilter) (r : sr) (schemas : list (N * schema)) (channels : list (N * channel))
         (acc : list triple) : list triple * ending :=
  match fuel with
  | O => (rev acc, EFuel)
  | S f =>
    match sr_pull r with
    | PRaise e => (rev acc, ERaise e)
    | PFuel => (rev acc, EFuel)
    | POk (None, _) => (rev acc, EStop)
    | POk (Some (PSchema x), r') => ns_messages f flt r' (pn_set (s_id x) x schemas) channels acc
    | POk (Some (PChannel c), r') =>
      if negb (c_schema c =? 0) && match pn_get (c_schema c) schemas with Some _ => false | None => true end
      then (rev acc, ERaise PMcap)
      else ns_messages f flt r' schemas (pn_set (c_id c) c channels) acc
    | POk (Some (PMessage m), r') =>
      match pn_get (m_chan m) channels with
      | None => (rev acc, ERaise PMcap)
      | Some c =>
        if msg_selected flt c m then
          if c_schema c =? 0 then ns_messages f flt r' schemas channels ((None, c, m) :: acc)
          else match pn_get (c_schema c) schemas with
               | Some sc => ns_messages f flt r' schemas channels ((Some sc, c, m) :: acc)
               | None => (rev acc, ERaise PKey)
               end
        else ns_messages f flt r' schemas channels acc
      end
    | POk (Some _, r') => ns_messages f flt r' schemas channels acc
    end
  end.

(* sorted(..., key=log_time, reverse=reverse): stable in both directions *)
Definition t_log (t : triple) : N := m_log (snd t).
Fixpoint ins_sorted (rev_ : bool) (x : triple) (l : list triple) : list triple :=
  match l with
  | [] => [x]
  | y :: r =>
    (* x arrived after y: it goes behind every element that is not strictly after it *)
    if (if rev_ then t_log y <? t_log x else t_log x <? t_log y) then x :: l else y :: ins_sorted rev_ x r
  end.
Definition py_sorted (rev_ : bool) (l : list triple) : list triple :=
  fold_left (fun acc x => ins_sorted rev_ x acc) l [].

(* NonSeekingReader(stream, validate_crcs).iter_messages(topics, start, end, log_time_order, reverse):
   with log_time_order the whole stream is consumed before anything is yielded *)
Definition ns_iter_messages (b : bytes) (validate : bool) (flt : mfilter) (log_order reverse : bool)
  : list triple * ending :=
  let '(ts, e) := ns_messages (all_fuel b) flt (new_sr b false false validate limit_4g) [] [] [] in
  if log_order then
    match e with
    | EStop => (py_sorted reverse ts, EStop)
    | _ => ([], e)
    end
  else (ts, e).

Definition ns_get_header (b : bytes) (validate : bool) : pres header :=
  let+ (x, _) := sr_pull (new_sr b false false validate limit_4g) in
  match x with
  | Some (PHeader h) => POk h
  | Some _ => PRaise PMcap
  | None => PRaise PStopIter
  end.

Definition ns_get_summary (b : bytes) (validate : bool) : pres (option summary) :=
  read_summary (all_fuel b) (new_sr b false false validate limit_4g) empty_summary.

Definition is_att (r : prec) : bool := match r with PAttachment _ => true | _ => false end.
Definition is_md (r : prec) : bool := match r with PMetadata _ => true | _ => false end.

Definition ns_iter (keep : prec -> bool) (b : bytes) (validate : bool) : list prec * ending :=
  let '(rs, e) := stream_records b false false validate limit_4g in (filter keep rs, e).

(* ---------- _message_queue.py ---------- *)
Inductive qitem :=
| QChunk (ci : chunkindex)
| QMsg (t : triple) (chunk_off idx : N).

Definition q_log (rev_ : bool) (x : qitem) : N :=
  match x with
  | QChunk ci => if rev_ then ci_end ci else ci_start ci
  | QMsg t _ _ => t_log t
  end.
Definition q_pos (rev_ : bool) (x : qitem) : N * option N :=
  match x with
  | QChunk ci => (if rev_ then ci_offset ci + ci_length ci else ci_offset ci, None)
  | QMsg _ off i => (off, Some i)
  end.
Definition q_cmp (rev_ : bool) (a b : N) : bool := if rev_ then b <? a else a <? b.

(* _Orderable.__lt__ *)
Definition q_lt (rev_ : bool) (x y : qitem) : bool :=
  if q_log rev_ x =? q_log rev_ y then
    let '(xc, xm) := q_pos rev_ x in
    let '(yc, ym) := q_pos rev_ y in
    match xm, ym with
    | Some a, Some b => if xc =? yc then q_cmp rev_ a b else q_cmp rev_ xc yc
    | _, _ => q_cmp rev_ xc yc
    end
  else q_cmp rev_ (q_log rev_ x) (q_log rev_ y).

(* heapq on a Python list *)
Fixpoint lset {A} (l : list A) (i : nat) (x : A) : list A :=
  match l, i with
  | [], _ => []
  | _ :: r, O => x :: r
  | y :: r, S j => y :: lset r j x
  end.

Section Heap.
Variable lt : qitem -> qitem -> bool.
Variable dflt : qitem.
Definition hget (h : list qitem) (i : nat) : qitem := nth i h dflt.

(* _siftdown(heap, startpos, pos) with newitem carried *)
Fixpoint siftdown (fuel : nat) (h : list qitem) (startpos pos : nat) (newitem : qitem) : list qitem :=
  match fuel with
  | O => lset h pos newitem
  | S f =>
    if Nat.ltb startpos pos then
      let parentpos := Nat.div2 (pos - 1)%nat in
      let parent := hget h parentpos in
      if lt newitem parent then siftdown f (lset h pos parent) startpos parentpos newitem
      else lset h pos newitem
    else lset h pos newitem
  end.

Definition heappush (h : list qitem) (x : qitem) : list qitem :=
  let h' := h ++ [x] in
  siftdown (length h') h' 0 (length h) x.

(* _siftup(heap, pos): move the smaller child up until a leaf, then sift newitem down *)
Fixpoint siftup_loop (fuel : nat) (h : list qitem) (endpos pos : nat) : list qitem * nat :=
  match fuel with
  | O => (h, pos)
  | S f =>
    let childpos := (2 * pos + 1)%nat in
    if Nat.ltb childpos endpos then
      let rightpos := (childpos + 1)%nat in
      let c := if Nat.ltb rightpos endpos && negb (lt (hget h childpos) (hget h rightpos)) then rightpos else childpos in
      siftup_loop f (lset h pos (hget h c)) endpos c
    else (h, pos)
  end.

Definition siftup (h : list qitem) (pos : nat) : list qitem :=
  let newitem := hget h pos in
  let '(h', p) := siftup_loop (length h) h (length h) pos in
  siftdown (length h) (lset h' p newitem) pos p newitem.

Definition heappop (h : list qitem) : option (qitem * list qitem) :=
  match rev h with
  | [] => None
  | lastelt :: rest_rev =>
    let h' := rev rest_rev in
    match h' with
    | [] => Some (lastelt, [])
    | top :: _ => Some (top, siftup (lset h' 0 lastelt) 0)
    end
  end.
End Heap.

(* the two queues behind make_message_queue *)
Inductive queue := QHeap (rev_ : bool) (h : list qitem) | QFifo (l : list qitem).
Definition q_dflt : qitem := QMsg (None, {| c_id := 0; c_schema := 0; c_topic := []; c_menc := []; c_meta := [] |},
                                   {| m_chan := 0; m_seq := 0; m_log := 0; m_pub := 0; m_data := [] |}) 0 0.
Definition q_push (q : queue) (x : qitem) : queue :=
  match q with
  | QHeap r h => QHeap r (heappush (q_lt r) q_dflt h x)
  | QFifo l => QFifo (l ++ [x])
  end.
Definition q_pop (q : queue) : option (qitem * queue) :=
  match q with
  | QHeap r h => match heappop (q_lt r) q_dflt h with Some (x, h') => Some (x, QHeap r h') | None => None end
  | QFifo [] => None
  | QFifo (x :: l) => Some (x, QFifo l)
  end.
Definition q_len (q : queue) : nat := match q with QHeap _ h => length h | QFifo l => length l end.

(* ---------- SeekingReader ---------- *)
Definition footer_size : N := 29.

(* stream.seek(off) then a fresh StreamReader(skip_magic=True) on the same stream *)
Definition sr_at (file : bytes) (off : N) : sr := new_sr (pdrop off file) true false false limit_4g.

(* get_summary *)
Definition sk_get_summary (file : bytes) : pres (option summary) :=
  (* seek(-(FOOTER_SIZE + MAGIC_SIZE), SEEK_END): BytesIO clamps a negative position to 0 (N subtraction) *)
  let+ (x, _) := sr_pull (sr_at file (blen file - (footer_size + 8))) in
  match x with
  | Some (PFooter ft) =>
    if f_summary_start ft =? 0 then POk None
    else if (max_ssize <? Z.of_N (f_summary_start ft))%Z then PRaise POverflow
    else read_summary (all_fuel file) (sr_at file (f_summary_start ft)) empty_summary
  | Some _ => PRaise PMcap
  | None => PRaise PStopIter
  end.

Definition sk_init (file : bytes) : pres unit :=
  let+ _ := read_magic (mem_stream file false) in POk tt.

Definition sk_get_header (file : bytes) : pres header :=
  let+ (x, _) := sr_pull (new_sr file false false false limit_4g) in
  match x with
  | Some (PHeader h) => POk h
  | Some _ => PRaise PMcap
  | None => PRaise PStopIter
  end.

(* _chunks_matching_topics *)
Fixpoint any_topic (fuel : nat) (su : summary) (topics : list bytes) (ids : list (N * N)) : pres bool :=
  match ids with
  | [] => POk false
  | (id, _) :: r =>
    match pn_get id (su_channels su) with
    | None => PRaise PKey
    | Some c => if mem_topic (c_topic c) topics then POk true else any_topic fuel su topics r
    end
  end.

Fixpoint chunks_matching (su : summary) (flt : mfilter) (cis : list chunkindex) (acc : list chunkindex)
  : pres (list chunkindex) :=
  match cis with
  | [] => POk acc
  | ci :: r =>
    if match mf_start flt with Some t => ci_end ci <? t | None => false end then chunks_matching su flt r acc
    else if match mf_end flt with Some t => negb (ci_start ci <? t) | None => false end then chunks_matching su flt r acc
    else match mf_topics flt with
         | None => chunks_matching su flt r (acc ++ [ci])
         | Some ts =>
           match ci_mioffsets ci with
           | [] => chunks_matching su flt r (acc ++ [ci])
           | ids => let+ hit := any_topic 0 su ts ids in
                    chunks_matching su flt r (if hit then acc ++ [ci] else acc)
           end
         end
  end.

(* the messages of one chunk pushed on the queue *)
Fixpoint push_chunk_msgs (su : summary) (flt : mfilter) (off : N) (recs : list prec) (i : N) (q : queue) : pres queue :=
  match recs with
  | [] => POk q
  | PMessage m :: r =>
    match pn_get (m_chan m) (su_channels su) with
    | None => PRaise PKey
    | Some c =>
      if msg_selected flt c m then
        if c_schema c =? 0 then push_chunk_msgs su flt off r (i + 1) (q_push q (QMsg (None, c, m) off i))
        else match pn_get (c_schema c) (su_schemas su) with
             | None => PRaise PKey
             | Some sc => push_chunk_msgs su flt off r (i + 1) (q_push q (QMsg (Some sc, c, m) off i))
             end
      else push_chunk_msgs su flt off r (i + 1) q
    end
  | _ :: r => push_chunk_msgs su flt off r (i + 1) q
  end.

(* Chunk.read(ReadDataStream(stream)) after stream.seek(chunk_start_offset + 9) *)
Definition chunk_at (file : bytes) (off : N) : pres chunk :=
  if (max_ssize <? Z.of_N (off + 9))%Z then PRaise POverflow else
  let+ (r, _) := rd_chunk (mem_stream (pdrop (off + 9) file) false) in
  match r with PChunk k => POk k | _ => PRaise PMcap end.

Fixpoint sk_loop (fuel : nat) (file : bytes) (validate : bool) (su : summary) (flt : mfilter) (q : queue)
         (acc : list triple) : list triple * ending :=
  match fuel with
  | O => (rev acc, EFuel)
  | S f =>
    match q_pop q with
    | None => (rev acc, EStop)
    | Some (QMsg t _ _, q') => sk_loop f file validate su flt q' (t :: acc)
    | Some (QChunk ci, q') =>
      match (let+ k := chunk_at file (ci_offset ci) in
             let+ recs := breakup_chunk k validate in
             push_chunk_msgs su flt (ci_offset ci) recs 0 q') with
      | POk q'' => sk_loop f file validate su flt q'' acc
      | PRaise e => (rev acc, ERaise e)
      | PFuel => (rev acc, EFuel)
      end
    end
  end.

(* SeekingReader.iter_messages *)
Definition sk_iter_messages (file : bytes) (validate : bool) (flt : mfilter) (log_order reverse : bool)
  : list triple * ending :=
  match sk_get_summary file with
  | PRaise e => ([], ERaise e)
  | PFuel => ([], EFuel)
  | POk osu =>
    let fallback := ns_iter_messages file false flt log_order false in
    match osu with
    | None => fallback
    | Some su =>
      match su_chunks su with
      | [] => fallback
      | _ =>
        if negb log_order && reverse then ([], ERaise PValue) else
        match chunks_matching su flt (su_chunks su) [] with
        | PRaise e => ([], ERaise e)
        | PFuel => ([], EFuel)
        | POk cis =>
          let q0 := if log_order then QHeap reverse [] else QFifo [] in
          let q := fold_left q_push (map QChunk cis) q0 in
          sk_loop (2 * length file + length cis + 8)%nat file validate su flt q []
        end
      end
    end
  end.

(* iter_attachments / iter_metadata through the summary indexes *)
Fixpoint sk_fetch (file : bytes) (want_att : bool) (offs : list N) (acc : list prec) : list prec * ending :=
  match offs with
  | [] => (rev acc, EStop)
  | off :: r =>
    if (max_ssize <? Z.of_N off)%Z then (rev acc, ERaise POverflow) else
    match sr_pull (sr_at file off) with
    | PRaise e => (rev acc, ERaise e)
    | PFuel => (rev acc, EFuel)
    | POk (None, _) => (rev acc, ERaise PStopIter)
    | POk (Some x, _) =>
      if (if want_att then is_att x else is_md x) then sk_fetch file want_att r (x :: acc)
      else (rev acc, ERaise PMcap)
    end
  end.

Definition sk_iter_attachments (file : bytes) : list prec * ending :=
  match sk_get_summary file with
  | PRaise e => ([], ERaise e)
  | PFuel => ([], EFuel)
  | POk None => ns_iter is_att file false
  | POk (Some su) => sk_fetch file true (map ai_offset (su_atts su)) []
  end.

Definition sk_iter_metadata (file : bytes) : list prec * ending :=
  match sk_get_summary file with
  | PRaise e => ([], ERaise e)
  | PFuel => ([], EFuel)
  | POk None => ns_iter is_md file false
  | POk (Some su) => sk_fetch file false (map mx_offset (su_mds su)) []
  end.

(* ---------- writer.py ---------- *)
Record pwopts := {
  po_chunk_size : N;
  po_idx_att : bool; po_idx_chunk : bool; po_idx_msg : bool; po_idx_md : bool;
  po_repeat_channels : bool; po_repeat_schemas : bool;
  po_chunking : bool; po_statistics : bool; po_summary_offsets : bool;
  po_crcs : bool; po_data_crcs : bool }.

Inductive pcall :=
| PcStart (profile library : bytes)
| PcSchema (name enc data : bytes)
| PcChannel (topic menc : bytes) (schema_id : N) (meta : kvs)
| PcMessage (chan log : N) (data : bytes) (pub seq : N)
| PcAttachment (create log : N) (name media data : bytes)
| PcMetadata (name : bytes) (meta : kvs)
| PcFinish.

(* records.py write: Python maps are written in dict order, not sorted *)
Definition py_enc_map (m : kvs) : bytes :=
  let body := enc_kvs_body m in u32 (blen body) ++ body.
Definition py_enc_channel (c : channel) : bytes :=
  u16 (c_id c) ++ u16 (c_schema c) ++ pstr (c_topic c) ++ pstr (c_menc c) ++ py_enc_map (c_meta c).
Definition py_enc_metadata (m : metadata) : bytes := pstr (md_name m) ++ py_enc_map (md_meta m).
Definition py_enc_attachment (a : attachment) : bytes :=
  let fields := enc_attachment_fields a ++ a_data a in
  fields ++ u32 (crc32 fields).

(* ChunkBuilder *)
Record pcb := { cb_buf : bytes; cb_start : N; cb_end : N; cb_indices : list (N * list (N * N)); cb_num : N }.
Definition cb_empty : pcb := {| cb_buf := []; cb_start := 0; cb_end := 0; cb_indices := []; cb_num := 0 |}.

Definition cb_add_record (cb : pcb) (op : byte) (body : bytes) : pcb :=
  {| cb_buf := cb_buf cb ++ frame op body; cb_start := cb_start cb; cb_end := cb_end cb;
     cb_indices := cb_indices cb; cb_num := cb_num cb |}.

Definition cb_add_message (cb : pcb) (m : message) : pcb :=
  let st := if cb_num cb =? 0 then m_log m else N.min (cb_start cb) (m_log m) in
  let en := N.max (cb_end cb) (m_log m) in
  let old := match pn_get (m_chan m) (cb_indices cb) with Some l => l | None => [] end in
  {| cb_buf := cb_buf cb ++ frame OpMessage (enc_message m); cb_start := st; cb_end := en;
     cb_indices := pn_set (m_chan m) (old ++ [(m_log m, blen (cb_buf cb))]) (cb_indices cb);
     cb_num := cb_num cb + 1 |}.

Record pw := {
  pw_out : bytes;                       (* what the output stream holds *)
  pw_rb : bytes;                        (* __record_builder *)
  pw_atts : list attindex; pw_mds : list mdindex;
  pw_channels : list channel; pw_schemas : list schema;
  pw_cb : option pcb;
  pw_chunks : list chunkindex;
  pw_stats : statistics;
  pw_crc : N }.

Definition pw_init (o : pwopts) : pw :=
  {| pw_out := []; pw_rb := []; pw_atts := []; pw_mds := []; pw_channels := []; pw_schemas := [];
     pw_cb := if po_chunking o then Some cb_empty else None; pw_chunks := [];
     pw_stats := {| st_messages := 0; st_schemas := 0; st_channels := 0; st_attachments := 0; st_metadata := 0;
                    st_chunks := 0; st_start := 0; st_end := 0; st_counts := [] |};
     pw_crc := 0 |}.

Section PyWriter.
Variable o : pwopts.

Definition pw_set_rb (w : pw) (rb : bytes) : pw :=
  {| pw_out := pw_out w; pw_rb := rb; pw_atts := pw_atts w; pw_mds := pw_mds w; pw_channels := pw_channels w;
     pw_schemas := pw_schemas w; pw_cb := pw_cb w; pw_chunks := pw_chunks w; pw_stats := pw_stats w; pw_crc := pw_crc w |}.
Definition pw_set_cb (w : pw) (cb : option pcb) : pw :=
  {| pw_out := pw_out w; pw_rb := pw_rb w; pw_atts := pw_atts w; pw_mds := pw_mds w; pw_channels := pw_channels w;
     pw_schemas := pw_schemas w; pw_cb := cb; pw_chunks := pw_chunks w; pw_stats := pw_stats w; pw_crc := pw_crc w |}.
Definition pw_set_stats (w : pw) (st : statistics) : pw :=
  {| pw_out := pw_out w; pw_rb := pw_rb w; pw_atts := pw_atts w; pw_mds := pw_mds w; pw_channels := pw_channels w;
     pw_schemas := pw_schemas w; pw_cb := pw_cb w; pw_chunks := pw_chunks w; pw_stats := st; pw_crc := pw_crc w |}.

(* __flush *)
Definition pw_flush (w : pw) : pw :=
  {| pw_out := pw_out w ++ pw_rb w; pw_rb := []; pw_atts := pw_atts w; pw_mds := pw_mds w; pw_channels := pw_channels w;
     pw_schemas := pw_schemas w; pw_cb := pw_cb w; pw_chunks := pw_chunks w; pw_stats := pw_stats w;
     pw_crc := if po_data_crcs o then py_crc (pw_crc w) (pw_rb w) else pw_crc w |}.

(* stream.write(data) that bypasses the record builder *)
Definition pw_raw (w : pw) (d : bytes) : pw :=
  {| pw_out := pw_out w ++ d; pw_rb := pw_rb w; pw_atts := pw_atts w; pw_mds := pw_mds w; pw_channels := pw_channels w;
     pw_schemas := pw_schemas w; pw_cb := pw_cb w; pw_chunks := pw_chunks w; pw_stats := pw_stats w; pw_crc := pw_crc w |}.

Definition st_upd (st : statistics) (f : statistics -> statistics) := f st.

(* __finalize_chunk *)
Definition pw_finalize_chunk (w : pw) : pw :=
  match pw_cb w with
  | None => w
  | Some cb =>
    if cb_num cb =? 0 then w else
    let st := pw_stats w in
    let st' := {| st_messages := st_messages st; st_schemas := st_schemas st; st_channels := st_channels st;
                  st_attachments := st_attachments st; st_metadata := st_metadata st; st_chunks := st_chunks st + 1;
                  st_start := st_start st; st_end := st_end st; st_counts := st_counts st |} in
    let data := cb_buf cb in
    let k := {| k_start := cb_start cb; k_end := cb_end cb; k_usize := blen data;
                k_crc := if po_crcs o then crc32 data else 0; k_comp := []; k_records := data |} in
    let w1 := pw_flush (pw_set_stats w st') in
    let chunk_start := blen (pw_out w1) in
    let w2 := pw_set_rb w1 (pw_rb w1 ++ frame OpChunk (enc_chunk k)) in
    let chunk_size := blen (pw_rb w2) in
    let w3 := pw_flush w2 in
    let mi_start := blen (pw_out w3) in
    (* message index records, in the dict order of the chunk builder *)
    let '(rb, offs) :=
      if po_idx_msg o then
        fold_left (fun '(rb, offs) '(ch, es) =>
                     (rb ++ frame OpMessageIndex (enc_msgindex {| mi_chan := ch; mi_entries := es |}),
                      pn_set ch (mi_start + blen rb) offs))
                  (cb_indices cb) (pw_rb w3, [])
      else (pw_rb w3, []) in
    let ci := {| ci_start := k_start k; ci_end := k_end k; ci_offset := chunk_start; ci_length := chunk_size;
                 ci_mioffsets := offs; ci_milength := blen rb; ci_comp := []; ci_csize := blen data; ci_usize := blen data |} in
    let w4 := pw_flush (pw_set_rb w3 rb) in
    {| pw_out := pw_out w4; pw_rb := pw_rb w4; pw_atts := pw_atts w4; pw_mds := pw_mds w4; pw_channels := pw_channels w4;
       pw_schemas := pw_schemas w4; pw_cb := Some cb_empty; pw_chunks := pw_chunks w4 ++ [ci]; pw_stats := pw_stats w4;
       pw_crc := pw_crc w4 |}
  end.

Definition pw_maybe_finalize (w : pw) : pw :=
  match pw_cb w with
  | Some cb => if po_chunk_size o <? blen (cb_buf cb) then pw_finalize_chunk w else w
  | None => w
  end.

(* a record that goes to the chunk builder when chunking, else to the record builder (not flushed) *)
Definition pw_data_record (w : pw) (op : byte) (body : bytes) : pw :=
  match pw_cb w with
  | Some cb => pw_maybe_finalize (pw_set_cb w (Some (cb_add_record cb op body)))
  | None => pw_set_rb w (pw_rb w ++ frame op body)
  end.

Definition summary_group (op : byte) (bodies : list bytes) : bytes := concat (map (frame op) bodies).

(* finish() *)
Definition pw_finish (w : pw) : pw :=
  let w1 := pw_finalize_chunk w in
  let w2 := pw_flush (pw_set_rb w1 (pw_rb w1 ++ frame OpDataEnd (enc_dataend {| de_crc := pw_crc w1 |}))) in
  let summary_start := blen (pw_out w2) in
  let groups : list (bool * byte * bytes) :=
    [ (po_repeat_schemas o, OpSchema, summary_group OpSchema (map enc_schema (pw_schemas w2)));
      (po_repeat_channels o, OpChannel, summary_group OpChannel (map py_enc_channel (pw_channels w2)));
      (po_statistics o, OpStatistics, frame OpStatistics (enc_statistics (pw_stats w2)));
      (po_idx_chunk o, OpChunkIndex, summary_group OpChunkIndex (map enc_chunkindex (pw_chunks w2)));
      (po_idx_att o, OpAttachmentIndex, summary_group OpAttachmentIndex (map enc_attindex (pw_atts w2)));
      (po_idx_md o, OpMetadataIndex, summary_group OpMetadataIndex (map enc_mdindex (pw_mds w2))) ] in
  let '(sb, sos) :=
    fold_left (fun '(sb, sos) '(on, op, g) =>
                 if on : bool then (sb ++ g, sos ++ [{| so_op := op; so_start := summary_start + blen sb; so_length := blen g |}])
                 else (sb, sos)) groups ([], []) in
  let so_start_ := if po_summary_offsets o then summary_start + blen sb else 0 in
  let sdata := if po_summary_offsets o then sb ++ summary_group OpSummaryOffset (map enc_sumoffset sos) else sb in
  let sstart := if blen sdata =? 0 then 0 else summary_start in
  let crc := if po_crcs o
             then py_crc (crc32 sdata) (OpFooter :: u64 20 ++ u64 sstart ++ u64 so_start_)
             else 0 in
  let w3 := pw_raw w2 sdata in
  let w4 := pw_flush (pw_set_rb w3 (pw_rb w3 ++ frame OpFooter (enc_footer {| f_summary_start := sstart;
                                                                                 f_summary_offset_start := so_start_; f_crc := crc |}))) in
  pw_raw w4 magic.

Definition kvs_in_range (m : kvs) : bool :=
  forallb (fun kv => (blen (fst kv) <? two32) && (blen (snd kv) <? two32)) m && (blen (enc_kvs_body m) <? two32).

(* struct.pack accepts the values of this call *)
Definition pcall_ok (w : pw) (c : pcall) : bool :=
  match c with
  | PcStart p l => (blen p <? two32) && (blen l <? two32)
  | PcSchema n e d => (N.of_nat (length (pw_schemas w)) + 1 <? two16) && (blen n <? two32) && (blen e <? two32) && (blen d <? two32)
  | PcChannel t me sid m => (N.of_nat (length (pw_channels w)) + 1 <? two16) && (sid <? two16) && (blen t <? two32)
                            && (blen me <? two32) && kvs_in_range m
  | PcMessage ch lg d pb sq => (ch <? two16) && (lg <? two64) && (pb <? two64) && (sq <? two32)
  | PcAttachment cr lg n me d => (cr <? two64) && (lg <? two64) && (blen n <? two32) && (blen me <? two32)
  | PcMetadata n m => (blen n <? two32) && kvs_in_range m
  | PcFinish => true
  end.

Definition pw_step (w : pw) (c : pcall) : pw :=
  match c with
  | PcStart p l =>
    let w1 := pw_raw w magic in
    let w2 := {| pw_out := pw_out w1; pw_rb := pw_rb w1; pw_atts := pw_atts w1; pw_mds := pw_mds w1;
                 pw_channels := pw_channels w1; pw_schemas := pw_schemas w1; pw_cb := pw_cb w1; pw_chunks := pw_chunks w1;
                 pw_stats := pw_stats w1;
                 pw_crc := if po_data_crcs o then py_crc (pw_crc w1) magic else pw_crc w1 |} in
    pw_flush (pw_set_rb w2 (pw_rb w2 ++ frame OpHeader (enc_header {| h_profile := p; h_library := l |})))
  | PcSchema n e d =>
    let id := N.of_nat (length (pw_schemas w)) + 1 in
    let sc := {| s_id := id; s_name := n; s_encoding := e; s_data := d |} in
    let st := pw_stats w in
    let w1 := {| pw_out := pw_out w; pw_rb := pw_rb w; pw_atts := pw_atts w; pw_mds := pw_mds w; pw_channels := pw_channels w;
                 pw_schemas := pw_schemas w ++ [sc]; pw_cb := pw_cb w; pw_chunks := pw_chunks w;
                 pw_stats := {| st_messages := st_messages st; st_schemas := st_schemas st + 1; st_channels := st_channels st;
                                st_attachments := st_attachments st; st_metadata := st_metadata st; st_chunks := st_chunks st;
                                st_start := st_start st; st_end := st_end st; st_counts := st_counts st |};
                 pw_crc := pw_crc w |} in
    pw_data_record w1 OpSchema (enc_schema sc)
  | PcChannel t me sid m =>
    let id := N.of_nat (length (pw_channels w)) + 1 in
    let ch := {| c_id := id; c_schema := sid; c_topic := t; c_menc := me; c_meta := m |} in
    let st := pw_stats w in
    let w1 := {| pw_out := pw_out w; pw_rb := pw_rb w; pw_atts := pw_atts w; pw_mds := pw_mds w; pw_channels := pw_channels w ++ [ch];
                 pw_schemas := pw_schemas w; pw_cb := pw_cb w; pw_chunks := pw_chunks w;
                 pw_stats := {| st_messages := st_messages st; st_schemas := st_schemas st; st_channels := st_channels st + 1;
                                st_attachments := st_attachments st; st_metadata := st_metadata st; st_chunks := st_chunks st;
                                st_start := st_start st; st_end := st_end st; st_counts := st_counts st |};
                 pw_crc := pw_crc w |} in
    pw_data_record w1 OpChannel (py_enc_channel ch)
  | PcMessage ch lg d pb sq =>
    let m := {| m_chan := ch; m_seq := sq; m_log := lg; m_pub := pb; m_data := d |} in
    let st := pw_stats w in
    let cnt := match pn_get ch (st_counts st) with Some n => n | None => 0 end in
    let st' := {| st_messages := st_messages st + 1; st_schemas := st_schemas st; st_channels := st_channels st;
                  st_attachments := st_attachments st; st_metadata := st_metadata st; st_chunks := st_chunks st;
                  st_start := if st_messages st =? 0 then lg else N.min lg (st_start st);
                  st_end := N.max lg (st_end st); st_counts := pn_set ch (cnt + 1) (st_counts st) |} in
    let w1 := pw_set_stats w st' in
    match pw_cb w1 with
    | Some cb => pw_maybe_finalize (pw_set_cb w1 (Some (cb_add_message cb m)))
    | None => pw_flush (pw_set_rb w1 (pw_rb w1 ++ frame OpMessage (enc_message m)))
    end
  | PcAttachment cr lg n me d =>
    let w1 := pw_flush w in
    let off := blen (pw_out w1) in
    let a := {| a_log := lg; a_create := cr; a_name := n; a_media := me; a_size := blen d; a_data := d |} in
    let st := pw_stats w1 in
    let st' := {| st_messages := st_messages st; st_schemas := st_schemas st; st_channels := st_channels st;
                  st_attachments := st_attachments st + 1; st_metadata := st_metadata st; st_chunks := st_chunks st;
                  st_start := st_start st; st_end := st_end st; st_counts := st_counts st |} in
    let rb := pw_rb w1 ++ frame OpAttachment (py_enc_attachment a) in
    let ai := {| ai_offset := off; ai_length := blen rb; ai_log := lg; ai_create := cr; ai_size := blen d;
                 ai_name := n; ai_media := me |} in
    pw_flush {| pw_out := pw_out w1; pw_rb := rb; pw_atts := if po_idx_att o then pw_atts w1 ++ [ai] else pw_atts w1;
                pw_mds := pw_mds w1; pw_channels := pw_channels w1; pw_schemas := pw_schemas w1; pw_cb := pw_cb w1;
                pw_chunks := pw_chunks w1; pw_stats := st'; pw_crc := pw_crc w1 |}
  | PcMetadata n m =>
    let w1 := pw_flush w in
    let off := blen (pw_out w1) in
    let st := pw_stats w1 in
    let st' := {| st_messages := st_messages st; st_schemas := st_schemas st; st_channels := st_channels st;
                  st_attachments := st_attachments st; st_metadata := st_metadata st + 1; st_chunks := st_chunks st;
                  st_start := st_start st; st_end := st_end st; st_counts := st_counts st |} in
    let rb := pw_rb w1 ++ frame OpMetadata (py_enc_metadata {| md_name := n; md_meta := m |}) in
    let mx := {| mx_offset := off; mx_length := blen rb; mx_name := n |} in
    pw_flush {| pw_out := pw_out w1; pw_rb := rb; pw_atts := pw_atts w1;
                pw_mds := if po_idx_md o then pw_mds w1 ++ [mx] else pw_mds w1; pw_channels := pw_channels w1;
                pw_schemas := pw_schemas w1; pw_cb := pw_cb w1; pw_chunks := pw_chunks w1; pw_stats := st'; pw_crc := pw_crc w1 |}
  | PcFinish => pw_finish w
  end.

(* run a call list; a value struct.pack rejects ends the run with struct.error *)
Fixpoint pw_run (w : pw) (cs : list pcall) : pres pw :=
  match cs with
  | [] => POk w
  | c :: r => if pcall_ok w c then pw_run (pw_step w c) r else PRaise PStruct
  end.
End PyWriter.

Definition py_write (o : pwopts) (cs : list pcall) : pres bytes :=
  let+ w := pw_run o (pw_init o) cs in POk (pw_out w).
