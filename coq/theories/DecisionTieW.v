(* DecisionTieW.v - the boolean decisions of go/mcap's readers, read options and writer bookkeeping, as regenerated
   on every run from the Go AST (DecisionsW_gen.v), are the decisions the model takes.

   Decisions that select between different continuations (unknown channel, in-chunk, flush) are tied as booleans
   (`tie_*`); the four running minimum/maximum updates are tied by their *effect* on the state (`eff_*`), so that
   `>=` for `>` in `if t > end { end = t }` (the same state transformer) still checks while `<` for `>` does not.
   `write_message_unfold` shows that the model's write_message is WriteMessage with these decisions substituted. *)
From Coq Require Import List NArith ZArith Bool Lia ZifyBool ZifyN.
From RecordUpdate Require Import RecordSet.
From Mcap Require Import Bytes GoSem Records Lexer Writer Reader DecisionsW_gen.
Import ListNotations RecordSetNotations.
Open Scope N_scope.

(* case analysis on every comparison in the goal, then arithmetic *)
Ltac cmp_cases :=
  repeat match goal with
  | |- context [N.ltb ?x ?y] => destruct (N.ltb_spec x y)
  | |- context [N.leb ?x ?y] => destruct (N.leb_spec x y)
  | |- context [N.eqb ?x ?y] => destruct (N.eqb_spec x y)
  | |- context [Z.ltb ?x ?y] => destruct (Z.ltb_spec x y)
  | |- context [Z.leb ?x ?y] => destruct (Z.leb_spec x y)
  | |- context [Z.eqb ?x ?y] => destruct (Z.eqb_spec x y)
  end.
Ltac bool_cases :=
  repeat match goal with
  | |- context [negb ?b] => is_var b; destruct b
  | |- context [andb ?b _] => is_var b; destruct b
  | |- context [orb ?b _] => is_var b; destruct b
  | |- context [andb _ ?b] => is_var b; destruct b
  | |- context [orb _ ?b] => is_var b; destruct b
  end.
Ltac decide_tie := cmp_cases; bool_cases; cbn; try reflexivity; try (exfalso; lia); try lia.

(* ------------------------------------------------------------------ writer bookkeeping *)
Lemma tie_w_in_chunk o s : in_chunk o s = go_w_in_chunk o s.
Proof. unfold in_chunk, go_w_in_chunk. generalize (o_chunked o) (w_closed s). intros [] []; reflexivity. Qed.
Lemma tie_w_flush o s : (o_chunksize o <? Z.of_N (blen (w_cbuf s)))%Z = go_w_flush o s.
Proof. unfold go_w_flush. decide_tie. Qed.
Lemma tie_w_unknown_channel s m :
  go_w_unknown_channel s m = match assoc_get (m_chan m) (w_channels s) with None => true | Some _ => false end.
Proof. unfold go_w_unknown_channel, go_isnil. destruct (assoc_get _ _); reflexivity. Qed.

(* the running min/max updates, as state transformers *)
Definition upd_cur_end_go (s : wstate) (m : message) := if go_w_cur_end_upd s m then s <| w_cur_end := m_log m |> else s.
Definition upd_cur_start_go (s : wstate) (m : message) := if go_w_cur_start_upd s m then s <| w_cur_start := m_log m |> else s.
Definition upd_st_end_go (s : wstate) (m : message) := if go_w_st_end_upd s m then s <| w_st_end := m_log m |> else s.
Definition upd_st_start_go (s : wstate) (m : message) := if go_w_st_start_upd s m then s <| w_st_start := m_log m |> else s.

Ltac effect_tie s :=
  destruct s; cbn; cmp_cases; bool_cases; cbn; try reflexivity; try (exfalso; lia); try (unfold set; cbn; f_equal; lia).

Lemma eff_cur_end s m : upd_cur_end_go s m = if w_cur_end s <? m_log m then s <| w_cur_end := m_log m |> else s.
Proof. unfold upd_cur_end_go, go_w_cur_end_upd. effect_tie s. Qed.
Lemma eff_cur_start s m : upd_cur_start_go s m = if m_log m <? w_cur_start s then s <| w_cur_start := m_log m |> else s.
Proof. unfold upd_cur_start_go, go_w_cur_start_upd. effect_tie s. Qed.
Lemma eff_st_end s m : upd_st_end_go s m = if w_st_end s <? m_log m then s <| w_st_end := m_log m |> else s.
Proof. unfold upd_st_end_go, go_w_st_end_upd. effect_tie s. Qed.
Lemma eff_st_start s m :
  upd_st_start_go s m = if (m_log m <? w_st_start s) || (w_st_messages s <=? 1) then s <| w_st_start := m_log m |> else s.
Proof. unfold upd_st_start_go, go_w_st_start_upd. effect_tie s. Qed.

Lemma stats_time_unfold s m : stats_time (m_log m) s = upd_st_start_go (upd_st_end_go s m) m.
Proof. rewrite eff_st_start, eff_st_end. reflexivity. Qed.

(* WriteMessage with the decisions of the Go source substituted: the model's write_message is this function *)
Definition write_message_go (o : wopts) (comp : nat -> bytes -> bytes) (flt : option fault) (m : message) (s : wstate) : wres :=
  if go_w_unknown_channel s m then (s, Some EOther) else
  let body := enc_message m in
  let s := s <| w_st_counts := bump_count (m_chan m) (w_st_counts s) |>
             <| w_st_messages := w_st_messages s + 1 |> in
  if go_w_in_chunk o s then
    let s := s <| w_msgidx := mi_add (m_chan m) (m_log m, blen (w_cbuf s)) (w_msgidx s) |> in
    match write_record_chunk OpMessage body s with
    | (s, Some e) => (s, Some e)
    | (s, None) =>
      let s := s <| w_cur_count := w_cur_count s + 1 |> in
      let s := upd_cur_start_go (upd_cur_end_go s m) m in
      match (if go_w_flush o s then flush_active_chunk o comp flt s else (s, None)) with
      | (s, Some e) => (s, Some e)
      | (s, None) => (upd_st_start_go (upd_st_end_go s m) m, None)
      end
    end
  else
    match write_record_dst o flt OpMessage body s with
    | (s, Some e) => (s, Some e)
    | (s, None) => (upd_st_start_go (upd_st_end_go s m) m, None)
    end.

Lemma write_message_unfold o comp flt m s : write_message o comp flt m s = write_message_go o comp flt m s.
Proof.
  unfold write_message, write_message_go. rewrite tie_w_unknown_channel.
  destruct (assoc_get (m_chan m) (w_channels s)); [|reflexivity].
  cbv zeta.
  match goal with |- context [go_w_in_chunk o ?x] => rewrite <- (tie_w_in_chunk o x) end.
  destruct (in_chunk o _).
  - unfold bindw at 1.
    destruct (write_record_chunk OpMessage (enc_message m) _) as [s1 [e|]]; [reflexivity|].
    rewrite eff_cur_start, eff_cur_end.
    match goal with |- context [go_w_flush o ?x] => rewrite <- (tie_w_flush o x) end.
    unfold bindw.
    match goal with |- context [if ?c then flush_active_chunk _ _ _ ?x else _] =>
      destruct (if c then flush_active_chunk o comp flt x else (x, None)) as [s2 [e|]] end; [reflexivity|].
    rewrite <- stats_time_unfold. reflexivity.
  - unfold bindw.
    destruct (write_record_dst o flt OpMessage (enc_message m) _) as [s1 [e|]]; [reflexivity|].
    rewrite <- stats_time_unfold. reflexivity.
Qed.
