(* LayoutTie.v - the hand-written record parsers and encoders of Records.v are the interpretation of the
   layouts that tools/gotrans extracts from go/mcap/parse.go and writer.go on every run (Layout_gen.v).
   If a field is read or written in a different order, with a different primitive, or bound to a different
   struct field in the Go source, Layout_gen.v changes and the corresponding theorem below stops compiling. *)
From Coq Require Import List String NArith Bool.
From Coq.Strings Require Import Byte.
From Mcap Require Import Bytes BytesFacts GoSem Records Layout_gen.
Import ListNotations.
Open Scope string_scope.
Open Scope list_scope.
Open Scope go_scope.

Inductive val := VN (n : N) | VB (b : bytes) | VM (m : kvs) | VNone.
Definition vN (v : val) : N := match v with VN n => n | _ => 0%N end.
Definition vB (v : val) : bytes := match v with VB b => b | _ => [] end.
Definition vM (v : val) : kvs := match v with VM m => m | _ => [] end.

Fixpoint assoc {A} (k : string) (l : list (string * A)) : option A :=
  match l with [] => None | (k', v) :: r => if String.eqb k k' then Some v else assoc k r end.
Definition assoc_l {A} (k : string) (l : list (string * list A)) : list A :=
  match assoc k l with Some x => x | None => [] end.
Fixpoint index_of (k : string) (l : list string) : nat :=
  match l with [] => O | x :: r => if String.eqb k x then O else S (index_of k r) end.

(* ---------- parse side ---------- *)
Definition rd_var (x : string * prim * string * bool) : string := fst (fst (fst x)).
Definition rd_prim (x : string * prim * string * bool) : prim := snd (fst (fst x)).
Definition rd_off (x : string * prim * string * bool) : string := snd (fst x).
Definition rd_loop (x : string * prim * string * bool) : bool := snd x.

Fixpoint take_top {A} (lp : A -> bool) (l : list A) : list A :=
  match l with [] => [] | x :: r => if lp x then [] else x :: take_top lp r end.
Fixpoint drop_top {A} (lp : A -> bool) (l : list A) : list A :=
  match l with [] => [] | x :: r => if lp x then l else drop_top lp r end.
(* the reads before the loop, inside it, and after it *)
Definition before (fn : string) := take_top rd_loop (assoc_l fn parse_reads).
Definition inloop (fn : string) := take_top (fun x => negb (rd_loop x)) (drop_top rd_loop (assoc_l fn parse_reads)).
Definition after (fn : string) := drop_top (fun x => negb (rd_loop x)) (drop_top rd_loop (assoc_l fn parse_reads)).

Definition read1 (p : prim) (buf : bytes) (off : nat) : outcome (val * nat) :=
  match p with
  | U16 => let* (x, o) := get_u16 buf off in Ok (VN x, o)
  | U32 => let* (x, o) := get_u32 buf off in Ok (VN x, o)
  | U64 => let* (x, o) := get_u64 buf off in Ok (VN x, o)
  | PStr | PBytes => let* (x, o) := get_pstr buf off in Ok (VB x, o)
  | PMap => let* (m, o) := get_map buf off in Ok (VM m, o)
  | _ => Err EOther
  end.

Fixpoint run_reads (ps : list prim) (buf : bytes) (off : nat) : outcome (list val * nat) :=
  match ps with
  | [] => Ok ([], off)
  | p :: r => let* (v, o) := read1 p buf off in
              let* (vs, o') := run_reads r buf o in Ok (v :: vs, o')
  end.

(* the value a struct field is built from: the variable bound to it, looked up among the reads *)
Definition fv (fn fld : string) (vars : list string) (vs : list val) : val :=
  match assoc fld (assoc_l fn parse_fields) with
  | Some v => nth (index_of v vars) vs VNone
  | None => VNone
  end.

(* each read starts where the previous one ended: first offset argument "0", then the running offset *)
Definition offsets_chain (first : string) (l : list (string * prim * string * bool)) : bool :=
  match l with
  | [] => true
  | x :: r => String.eqb (rd_off x) first && forallb (fun y => String.eqb (rd_off y) "offset") r
  end.

Ltac step_reads :=
  repeat match goal with
         | |- context [bind (get_u16 ?b ?o) _] => destruct (get_u16 b o) as [[? ?]|?|?|?|]; cbn [bind]; try reflexivity
         | |- context [bind (get_u32 ?b ?o) _] => destruct (get_u32 b o) as [[? ?]|?|?|?|]; cbn [bind]; try reflexivity
         | |- context [bind (get_u64 ?b ?o) _] => destruct (get_u64 b o) as [[? ?]|?|?|?|]; cbn [bind]; try reflexivity
         | |- context [bind (get_pstr ?b ?o) _] => destruct (get_pstr b o) as [[? ?]|?|?|?|]; cbn [bind]; try reflexivity
         | |- context [bind (get_map ?b ?o) _] => destruct (get_map b o) as [[? ?]|?|?|?|]; cbn [bind]; try reflexivity
         end.
Ltac tie fn :=
  intro buf;
  let ps := eval vm_compute in (map rd_prim (before fn)) in
  change (map rd_prim (before fn)) with ps;
  let vs := eval vm_compute in (map rd_var (before fn)) in
  change (map rd_var (before fn)) with vs;
  cbn [run_reads read1 bind]; step_reads.

Theorem parse_header_tie : forall buf,
  parse_header buf =
  let* (vs, _) := run_reads (map rd_prim (before "ParseHeader")) buf 0 in
  let f x := fv "ParseHeader" x (map rd_var (before "ParseHeader")) vs in
  Ok {| h_profile := vB (f "Profile"); h_library := vB (f "Library") |}.
Proof. unfold parse_header. tie "ParseHeader". Qed.

Theorem parse_footer_tie : forall buf,
  parse_footer buf =
  let* (vs, _) := run_reads (map rd_prim (before "ParseFooter")) buf 0 in
  let f x := fv "ParseFooter" x (map rd_var (before "ParseFooter")) vs in
  Ok {| f_summary_start := vN (f "SummaryStart"); f_summary_offset_start := vN (f "SummaryOffsetStart"); f_crc := vN (f "SummaryCRC") |}.
Proof. unfold parse_footer. tie "ParseFooter". Qed.

Theorem parse_schema_tie : forall buf,
  parse_schema buf =
  let* (vs, _) := run_reads (map rd_prim (before "ParseSchema")) buf 0 in
  let f x := fv "ParseSchema" x (map rd_var (before "ParseSchema")) vs in
  Ok {| s_id := vN (f "ID"); s_name := vB (f "Name"); s_encoding := vB (f "Encoding"); s_data := vB (f "Data") |}.
Proof. unfold parse_schema. tie "ParseSchema". Qed.

Theorem parse_channel_tie : forall buf,
  parse_channel buf =
  let* (vs, _) := run_reads (map rd_prim (before "ParseChannel")) buf 0 in
  let f x := fv "ParseChannel" x (map rd_var (before "ParseChannel")) vs in
  Ok {| c_id := vN (f "ID"); c_schema := vN (f "SchemaID"); c_topic := vB (f "Topic"); c_menc := vB (f "MessageEncoding");
        c_meta := vM (f "Metadata") |}.
Proof. unfold parse_channel. tie "ParseChannel". Qed.

(* Message.PopulateFrom: the data is the rest of the buffer after the four fixed fields *)
Theorem parse_message_tie : forall buf,
  parse_message buf =
  let* (vs, o) := run_reads (map rd_prim (before "PopulateFrom")) buf 0 in
  let f x := fv "PopulateFrom" x (map rd_var (before "PopulateFrom")) vs in
  Ok {| m_chan := vN (f "ChannelID"); m_seq := vN (f "Sequence"); m_log := vN (f "LogTime"); m_pub := vN (f "PublishTime");
        m_data := skipn o buf |}.
Proof. unfold parse_message. tie "PopulateFrom". Qed.

Theorem parse_attindex_tie : forall buf,
  parse_attindex buf =
  let* (vs, _) := run_reads (map rd_prim (before "ParseAttachmentIndex")) buf 0 in
  let f x := fv "ParseAttachmentIndex" x (map rd_var (before "ParseAttachmentIndex")) vs in
  Ok {| ai_offset := vN (f "Offset"); ai_length := vN (f "Length"); ai_log := vN (f "LogTime"); ai_create := vN (f "CreateTime");
        ai_size := vN (f "DataSize"); ai_name := vB (f "Name"); ai_media := vB (f "MediaType") |}.
Proof. unfold parse_attindex. tie "ParseAttachmentIndex". Qed.

Theorem parse_metadata_tie : forall buf,
  parse_metadata buf =
  let* (vs, _) := run_reads (map rd_prim (before "ParseMetadata")) buf 0 in
  let f x := fv "ParseMetadata" x (map rd_var (before "ParseMetadata")) vs in
  Ok {| md_name := vB (f "Name"); md_meta := vM (f "Metadata") |}.
Proof. unfold parse_metadata. tie "ParseMetadata". Qed.

Theorem parse_mdindex_tie : forall buf,
  parse_mdindex buf =
  let* (vs, _) := run_reads (map rd_prim (before "ParseMetadataIndex")) buf 0 in
  let f x := fv "ParseMetadataIndex" x (map rd_var (before "ParseMetadataIndex")) vs in
  Ok {| mx_offset := vN (f "Offset"); mx_length := vN (f "Length"); mx_name := vB (f "Name") |}.
Proof. unfold parse_mdindex. tie "ParseMetadataIndex". Qed.

Theorem parse_dataend_tie : forall buf,
  parse_dataend buf =
  let* (vs, _) := run_reads (map rd_prim (before "ParseDataEnd")) buf 0 in
  let f x := fv "ParseDataEnd" x (map rd_var (before "ParseDataEnd")) vs in
  Ok {| de_crc := vN (f "DataSectionCRC") |}.
Proof. unfold parse_dataend. tie "ParseDataEnd". Qed.

(* ParseSummaryOffset: a length guard and the opcode byte, then two reads starting at offset 1 *)
Theorem parse_sumoffset_tie : forall buf,
  parse_sumoffset buf =
  if Nat.ltb (List.length buf) 17 then Err EShortBuffer else
  let* (vs, _) := run_reads (map rd_prim (before "ParseSummaryOffset")) buf 1 in
  let f x := fv "ParseSummaryOffset" x (map rd_var (before "ParseSummaryOffset")) vs in
  Ok {| so_op := match buf with b :: _ => b | [] => x00 end; so_start := vN (f "GroupStart"); so_length := vN (f "GroupLength") |}.
Proof. unfold parse_sumoffset. intro buf. destruct (Nat.ltb (List.length buf) 17); [reflexivity|]. revert buf. tie "ParseSummaryOffset". Qed.

(* ParseChunk: six reads, then the bounds-checked records slice *)
Theorem parse_chunk_tie : forall buf,
  parse_chunk buf =
  let* (vs, o) := run_reads (map rd_prim (before "ParseChunk")) buf 0 in
  let f x := fv "ParseChunk" x (map rd_var (before "ParseChunk")) vs in
  let rl := vN (nth (index_of "recordsLength" (map rd_var (before "ParseChunk"))) vs VNone) in
  if (N.of_nat (List.length buf - o) <? rl)%N then Err EShortBuffer
  else Ok {| k_start := vN (f "MessageStartTime"); k_end := vN (f "MessageEndTime"); k_usize := vN (f "UncompressedSize");
             k_crc := vN (f "UncompressedCRC"); k_comp := vB (f "Compression"); k_records := sub buf o (N.to_nat rl) |}.
Proof. unfold parse_chunk. tie "ParseChunk". Qed.

(* records with a loop: the reads before the loop, the loop of the model (its body's primitives are pinned below),
   the reads after it *)
Theorem parse_msgindex_tie : forall buf,
  parse_msgindex buf =
  let* (vs, o) := run_reads (map rd_prim (before "ParseMessageIndex")) buf 0 in
  let vars := map rd_var (before "ParseMessageIndex") in
  let* es := parse_mi_loop (S (List.length buf)) buf o o (vN (nth (index_of "entriesByteLength" vars) vs VNone)) [] in
  Ok {| mi_chan := vN (fv "ParseMessageIndex" "ChannelID" vars vs); mi_entries := es |}.
Proof. unfold parse_msgindex. tie "ParseMessageIndex". Qed.


Theorem parse_statistics_tie : forall buf,
  parse_statistics buf =
  if Nat.ltb (List.length buf) 46 then Err EShortBuffer else
  let* (vs, o) := run_reads (map rd_prim (before "ParseStatistics")) buf 0 in
  let vars := map rd_var (before "ParseStatistics") in
  let f x := fv "ParseStatistics" x vars vs in
  let cl := vN (nth (index_of "channelMessageCountLength" vars) vs VNone) in
  if (N.of_nat (List.length buf) <? N.of_nat o + cl)%N then Err EShortBuffer else
  let* cnt := parse_counts_loop (S (List.length buf)) buf o (o + N.to_nat cl) [] in
  Ok {| st_messages := vN (f "MessageCount"); st_schemas := vN (f "SchemaCount"); st_channels := vN (f "ChannelCount");
        st_attachments := vN (f "AttachmentCount"); st_metadata := vN (f "MetadataCount"); st_chunks := vN (f "ChunkCount");
        st_start := vN (f "MessageStartTime"); st_end := vN (f "MessageEndTime"); st_counts := cnt |}.
Proof. unfold parse_statistics. intro buf. destruct (Nat.ltb (List.length buf) 46); [reflexivity|]. revert buf. tie "ParseStatistics". Qed.

(* what the loops read per iteration, and how the offsets are threaded *)
Theorem parse_loops_tie :
  map rd_prim (inloop "ParseMessageIndex") = [U64; U64] /\
  map rd_prim (inloop "ParseChunkIndex") = [U16; U64] /\
  map rd_prim (inloop "ParseStatistics") = [U16; U64] /\
  forallb (fun fn => offsets_chain "0" (before fn))
          ["ParseHeader"; "ParseFooter"; "ParseSchema"; "ParseChannel"; "PopulateFrom"; "ParseChunk"; "ParseMessageIndex";
           "ParseChunkIndex"; "ParseAttachmentIndex"; "ParseStatistics"; "ParseMetadata"; "ParseMetadataIndex"; "ParseDataEnd"] = true /\
  forallb (fun fn => forallb (fun y => String.eqb (rd_off y) "offset") (after fn)) ["ParseChunkIndex"] = true /\
  map snd (filter (fun x => Nat.ltb 0 (snd x)) fn_loops)
  = [1; 1; 1; 1; 2; 1; 1]%nat.
Proof. vm_compute. repeat split. Qed.

(* ---------- write side ---------- *)
Definition pt_prim (x : prim * string * bool) : prim := fst (fst x).
Definition pt_expr (x : prim * string * bool) : string := snd (fst x).
Definition pt_loop (x : prim * string * bool) : bool := snd x.
Definition wbefore (fn : string) := take_top pt_loop (assoc_l fn write_puts).
Definition winloop (fn : string) := take_top (fun x => negb (pt_loop x)) (drop_top pt_loop (assoc_l fn write_puts)).
Definition wafter (fn : string) := drop_top (fun x => negb (pt_loop x)) (drop_top pt_loop (assoc_l fn write_puts)).

Definition enc1 (p : prim) (v : val) : bytes :=
  match p, v with
  | U8, VN n => le 1 n
  | U16, VN n => u16 n
  | U32, VN n => u32 n
  | U64, VN n => u64 n
  | PStr, VB b | PBytes, VB b => pstr b
  | PCopy, VB b => b
  | _, _ => []
  end.
Fixpoint enc_puts (l : list (prim * string * bool)) (env : string -> val) : bytes :=
  match l with
  | [] => []
  | x :: r => enc1 (pt_prim x) (env (pt_expr x)) ++ enc_puts r env
  end.

Fixpoint env_of (l : list (string * val)) (e : string) : val :=
  match l with [] => VNone | (k, v) :: r => if String.eqb e k then v else env_of r e end.

Ltac wtie fn :=
  intros;
  let ps := eval vm_compute in (wbefore fn) in change (wbefore fn) with ps;
  cbn [enc_puts enc1 pt_prim pt_expr env_of String.eqb Ascii.eqb Bool.eqb fst snd];
  rewrite ?app_nil_r, <- ?app_assoc; reflexivity.

Theorem enc_header_tie : forall h,
  enc_header h = enc_puts (wbefore "WriteHeader") (env_of [(".Profile", VB (h_profile h)); ("library", VB (h_library h))]).
Proof. unfold enc_header. wtie "WriteHeader". Qed.

(* WriteFooter frames the record by hand: opcode byte, length 20, the two offsets, the running CRC *)
Theorem enc_footer_tie : forall f,
  frame OpFooter (enc_footer f) =
  OpFooter :: enc_puts (wbefore "WriteFooter")
                (env_of [("uint64(msglen)", VN 20); (".SummaryStart", VN (f_summary_start f));
                         (".SummaryOffsetStart", VN (f_summary_offset_start f)); ("w.w.Checksum()", VN (f_crc f))]).
Proof.
  intros. unfold frame, frame_head, enc_footer.
  let ps := eval vm_compute in (wbefore "WriteFooter") in change (wbefore "WriteFooter") with ps.
  cbn [enc_puts enc1 pt_prim pt_expr env_of String.eqb Ascii.eqb Bool.eqb fst snd].
  rewrite ?app_nil_r. unfold blen, u64, u32. rewrite !app_length, !le_length.
  change (N.of_nat (8 + (8 + 4))) with 20%N. cbn [app]. rewrite <- ?app_assoc. reflexivity.
Qed.

Theorem enc_schema_tie : forall s,
  enc_schema s = enc_puts (wbefore "WriteSchema")
                   (env_of [(".ID", VN (s_id s)); (".Name", VB (s_name s)); (".Encoding", VB (s_encoding s)); (".Data", VB (s_data s))]).
Proof. unfold enc_schema. wtie "WriteSchema". Qed.

(* `userdata` is makePrefixedMap(c.Metadata) *)
Theorem enc_channel_tie : forall c,
  enc_channel c = enc_puts (wbefore "WriteChannel")
                    (env_of [(".ID", VN (c_id c)); (".SchemaID", VN (c_schema c)); (".Topic", VB (c_topic c));
                             (".MessageEncoding", VB (c_menc c)); ("userdata", VB (enc_map (c_meta c)))]).
Proof. unfold enc_channel. wtie "WriteChannel". Qed.

Theorem enc_message_tie : forall m,
  enc_message m = enc_puts (wbefore "WriteMessage")
                    (env_of [(".ChannelID", VN (m_chan m)); (".Sequence", VN (m_seq m)); (".LogTime", VN (m_log m));
                             (".PublishTime", VN (m_pub m)); (".Data", VB (m_data m))]).
Proof. unfold enc_message. wtie "WriteMessage". Qed.

Theorem enc_attindex_tie : forall ai,
  enc_attindex ai = enc_puts (wbefore "WriteAttachmentIndex")
                      (env_of [(".Offset", VN (ai_offset ai)); (".Length", VN (ai_length ai)); (".LogTime", VN (ai_log ai));
                               (".CreateTime", VN (ai_create ai)); (".DataSize", VN (ai_size ai)); (".Name", VB (ai_name ai));
                               (".MediaType", VB (ai_media ai))]).
Proof. unfold enc_attindex. wtie "WriteAttachmentIndex". Qed.

(* `data` is makePrefixedMap(m.Metadata) *)
Theorem enc_metadata_tie : forall m,
  enc_metadata m = enc_puts (wbefore "WriteMetadata") (env_of [(".Name", VB (md_name m)); ("data", VB (enc_map (md_meta m)))]).
Proof. unfold enc_metadata. wtie "WriteMetadata". Qed.

Theorem enc_mdindex_tie : forall x,
  enc_mdindex x = enc_puts (wbefore "WriteMetadataIndex")
                    (env_of [(".Offset", VN (mx_offset x)); (".Length", VN (mx_length x)); (".Name", VB (mx_name x))]).
Proof. unfold enc_mdindex. wtie "WriteMetadataIndex". Qed.

(* the opcode byte is stored with `w.msg[0] = byte(s.GroupOpcode)` before the two puts *)
Theorem enc_sumoffset_tie : forall s,
  enc_sumoffset s = so_op s :: enc_puts (wbefore "WriteSummaryOffset")
                                (env_of [(".GroupStart", VN (so_start s)); (".GroupLength", VN (so_length s))]).
Proof. intros. unfold enc_sumoffset. f_equal. Qed.

Theorem enc_dataend_tie : forall d,
  enc_dataend d = enc_puts (wbefore "WriteDataEnd") (env_of [(".DataSectionCRC", VN (de_crc d))]).
Proof. unfold enc_dataend. wtie "WriteDataEnd". Qed.

(* WriteAttachment frames by hand: opcode, record length, the fields; the data is streamed and the CRC follows it *)
Theorem enc_attachment_tie : forall a reclen crc,
  OpAttachment :: u64 reclen ++ enc_attachment_fields a ++ u32 crc =
  enc_puts (wbefore "WriteAttachment")
    (env_of [("byte(OpAttachment)", VN 9); ("uint64(bufferLen) + .DataSize + 4 - 9", VN reclen); (".LogTime", VN (a_log a));
             (".CreateTime", VN (a_create a)); (".Name", VB (a_name a)); (".MediaType", VB (a_media a)); (".DataSize", VN (a_size a));
             ("crcWriter.Checksum()", VN crc)]).
Proof. unfold enc_attachment_fields. wtie "WriteAttachment". Qed.

(* the chunk header written by writeChunkWithIndexes: opcode, record length, enc_chunk_top *)
Theorem enc_chunk_top_tie : forall k reclen,
  OpChunk :: u64 reclen ++ enc_chunk_top k =
  enc_puts (wbefore "writeChunkWithIndexes")
    (env_of [("byte(OpChunk)", VN 6); ("uint64(msglen)", VN reclen); (".MessageStartTime", VN (k_start k)); (".MessageEndTime", VN (k_end k));
             ("uncompressedlen", VN (k_usize k)); (".UncompressedCRC", VN (k_crc k)); (".Compression", VB (k_comp k));
             ("uint64(compressedlen)", VN (blen (k_records k)))]).
Proof. unfold enc_chunk_top. wtie "writeChunkWithIndexes". Qed.

(* records written with a loop: before, once per element, after *)
Fixpoint enc_loop {A} (l : list (prim * string * bool)) (env : A -> string -> val) (xs : list A) : bytes :=
  match xs with [] => [] | x :: r => enc_puts l (env x) ++ enc_loop l env r end.

Lemma enc_loop_concat {A} l (env : A -> string -> val) xs : enc_loop l env xs = List.concat (map (fun x => enc_puts l (env x)) xs).
Proof. induction xs as [|x xs IH]; cbn [enc_loop map concat]; [reflexivity | now rewrite IH]. Qed.

Theorem enc_msgindex_tie : forall mi,
  enc_msgindex mi =
  enc_puts (wbefore "WriteMessageIndex")
    (env_of [(".ChannelID", VN (mi_chan mi)); ("uint32(datalen)", VN (blen (List.concat (map enc_mi_entry (mi_entries mi)))))])
  ++ enc_loop (winloop "WriteMessageIndex") (fun e => env_of [(".Timestamp", VN (fst e)); (".Offset", VN (snd e))]) (mi_entries mi).
Proof.
  intros. unfold enc_msgindex. rewrite enc_loop_concat.
  let ps := eval vm_compute in (wbefore "WriteMessageIndex") in change (wbefore "WriteMessageIndex") with ps.
  let ps := eval vm_compute in (winloop "WriteMessageIndex") in change (winloop "WriteMessageIndex") with ps.
  cbn [enc_puts enc1 pt_prim pt_expr env_of String.eqb Ascii.eqb Bool.eqb fst snd].
  rewrite ?app_nil_r, <- ?app_assoc. repeat (f_equal; try reflexivity).
  all: try (apply map_ext; intro e; unfold enc_mi_entry; now rewrite app_nil_r).
Qed.

Theorem enc_statistics_tie : forall s,
  enc_statistics s =
  enc_puts (wbefore "WriteStatistics")
    (env_of [(".MessageCount", VN (st_messages s)); (".SchemaCount", VN (st_schemas s)); (".ChannelCount", VN (st_channels s));
             (".AttachmentCount", VN (st_attachments s)); (".MetadataCount", VN (st_metadata s)); (".ChunkCount", VN (st_chunks s));
             (".MessageStartTime", VN (st_start s)); (".MessageEndTime", VN (st_end s));
             ("uint32(lenMessageCounts * (2 + 8))", VN (blen (List.concat (map enc_nn (st_counts s)))))])
  ++ enc_loop (winloop "WriteStatistics") (fun e => env_of [("chanID", VN (fst e)); ("messageCount", VN (snd e))]) (st_counts s).
Proof.
  intros. unfold enc_statistics. rewrite enc_loop_concat.
  let ps := eval vm_compute in (wbefore "WriteStatistics") in change (wbefore "WriteStatistics") with ps.
  let ps := eval vm_compute in (winloop "WriteStatistics") in change (winloop "WriteStatistics") with ps.
  cbn [enc_puts enc1 pt_prim pt_expr env_of String.eqb Ascii.eqb Bool.eqb fst snd].
  rewrite ?app_nil_r, <- ?app_assoc. repeat (f_equal; try reflexivity).
  all: try (apply map_ext; intro e; unfold enc_nn; now rewrite app_nil_r).
Qed.

Theorem enc_chunkindex_tie : forall ci,
  enc_chunkindex ci =
  enc_puts (wbefore "WriteChunkIndex")
    (env_of [(".MessageStartTime", VN (ci_start ci)); (".MessageEndTime", VN (ci_end ci)); (".ChunkStartOffset", VN (ci_offset ci));
             (".ChunkLength", VN (ci_length ci)); ("uint32(messageIndexLength)", VN (blen (List.concat (map enc_nn (ci_mioffsets ci)))))])
  ++ enc_loop (winloop "WriteChunkIndex") (fun e => env_of [("chanID", VN (fst e)); ("v", VN (snd e))]) (ci_mioffsets ci)
  ++ enc_puts (wafter "WriteChunkIndex")
       (env_of [(".MessageIndexLength", VN (ci_milength ci)); ("string(.Compression)", VB (ci_comp ci));
                (".CompressedSize", VN (ci_csize ci)); (".UncompressedSize", VN (ci_usize ci))]).
Proof.
  intros. unfold enc_chunkindex. rewrite enc_loop_concat.
  let ps := eval vm_compute in (wbefore "WriteChunkIndex") in change (wbefore "WriteChunkIndex") with ps.
  let ps := eval vm_compute in (winloop "WriteChunkIndex") in change (winloop "WriteChunkIndex") with ps.
  let ps := eval vm_compute in (wafter "WriteChunkIndex") in change (wafter "WriteChunkIndex") with ps.
  cbn [enc_puts enc1 pt_prim pt_expr env_of String.eqb Ascii.eqb Bool.eqb fst snd].
  rewrite ?app_nil_r, <- ?app_assoc. repeat (f_equal; try reflexivity).
  all: try (apply map_ext; intro e; unfold enc_nn; now rewrite app_nil_r).
Qed.

(* every Write function passes its own opcode constant to writeRecord *)
Theorem write_opcodes_tie :
  map (fun fn => assoc_l fn write_opcodes)
      ["WriteHeader"; "WriteSchema"; "WriteChannel"; "WriteMessage"; "WriteMessageIndex"; "WriteAttachmentIndex"; "WriteStatistics";
       "WriteMetadata"; "WriteMetadataIndex"; "WriteSummaryOffset"; "WriteDataEnd"; "WriteChunkIndex"]
  = [["OpHeader"]; ["OpSchema"; "OpSchema"]; ["OpChannel"; "OpChannel"]; ["OpMessage"; "OpMessage"]; ["OpMessageIndex"];
     ["OpAttachmentIndex"]; ["OpStatistics"]; ["OpMetadata"]; ["OpMetadataIndex"]; ["OpSummaryOffset"]; ["OpDataEnd"]; ["OpChunkIndex"]].
Proof. vm_compute. reflexivity. Qed.
