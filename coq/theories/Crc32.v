(* Crc32.v — CRC-32/IEEE as used by hash/crc32 (polynomial 0xEDB88320, reflected).
   crc_bit is the bit-by-bit specification; tab/upd is the table implementation
   that the executable model uses.  Facts in Crc32Facts.v. *)
From Coq Require Import List NArith Bool.
From Coq.Strings Require Import Byte.
From Mcap Require Import Bytes.
Import ListNotations.
Open Scope N_scope.

Definition poly : N := 0xEDB88320.
Definition step1 (c : N) : N :=
  if N.testbit c 0 then N.lxor (N.shiftr c 1) poly else N.shiftr c 1.
Fixpoint iter {A} (n : nat) (f : A -> A) (x : A) : A :=
  match n with O => x | S n => iter n f (f x) end.
Definition idx : list N := map N.of_nat (seq 0 256).
Definition table : list N := Eval vm_compute in map (iter 8 step1) idx.
Definition tab (i : N) : N := nth (N.to_nat i) table 0.

(* table-driven update with one byte value b < 256 *)
Definition upd (c b : N) : N := N.lxor (tab (N.land (N.lxor c b) 255)) (N.shiftr c 8).
(* bitwise update: xor the byte in, then 8 shift/xor steps *)
Definition upd_bit (c b : N) : N := iter 8 step1 (N.lxor c b).

Definition crc_init : N := 0xFFFFFFFF.
Definition crc_update (st : N) (bs : bytes) : N := fold_left (fun s b => upd s (Byte.to_N b)) bs st.
Definition crc_final (st : N) : N := N.lxor st 0xFFFFFFFF.
Definition crc32 (bs : bytes) : N := crc_final (crc_update crc_init bs).

Definition crc_bit_update (st : N) (bs : bytes) : N := fold_left (fun s b => upd_bit s (Byte.to_N b)) bs st.
Definition crc32_bit (bs : bytes) : N := crc_final (crc_bit_update crc_init bs).
