(* Lexer.v - executable model of go/mcap/lexer.go (Lexer.Next, loadChunk, attachment
   handling with parseAttachmentReader / AttachmentReader / skipReader).

   Readers are modelled as in-memory streams: the bytes still to be delivered and how the
   stream ends once they run out (EOF or a sticky error).  io.ReadFull is the only way the
   lexer reads, so how the bytes are fragmented by the source is irrelevant here; Source.v
   proves that ReadFull over an arbitrary fragment stream behaves as rd_full does.

   Decompression is an oracle: given the compression name and what the underlying limited
   reader can deliver (the available payload bytes and how that stream ends) it returns the
   decompressed bytes the decoder delivers and how its stream ends. *)
From Coq Require Import List NArith ZArith Bool.
From Coq.Strings Require Import Byte.
From RecordUpdate Require Import RecordSet.
From Mcap Require Import Bytes GoSem Crc32 Records.
Import ListNotations RecordSetNotations.
Open Scope N_scope.

(* ---------- readers ---------- *)
Record rdr := {
  r_buf : bytes;            (* bytes still to come *)
  r_end : option err;       (* None: io.EOF after the bytes; Some e: sticky error e *)
  r_seek : bool             (* the Go value implements io.ReadSeeker *)
}.

(* firstn/skipn with an N count; the count is clamped to the list length BEFORE it is converted to
   nat, so hostile 64-bit lengths never become unary numbers *)
Definition take (n : N) (b : bytes) : bytes := firstn (N.to_nat (N.min n (blen b))) b.
Definition drop (n : N) (b : bytes) : bytes := skipn (N.to_nat (N.min n (blen b))) b.

Definition end_err (r : rdr) : err := match r_end r with None => EEOF | Some e => e end.

(* io.ReadFull(r, buf[:n]).  Returns bytes read, error (None = nil), reader afterwards.
   n = 0 returns (0, nil) without touching the reader. *)
Definition rd_full (n : N) (r : rdr) : bytes * option err * rdr :=
  if n =? 0 then ([], None, r)
  else if n <=? blen (r_buf r) then
    (take n (r_buf r), None, {| r_buf := drop n (r_buf r); r_end := r_end r; r_seek := r_seek r |})
  else
    let got := r_buf r in
    let e := match r_end r with
             | None => match got with [] => EEOF | _ => EUnexpectedEOF end
             | Some e => e
             end in
    (got, Some e, {| r_buf := []; r_end := r_end r; r_seek := r_seek r |}).

(* skipReader(r, n) for n >= 0: Seek(n, SeekCurrent) on seekers (never fails, may move past the
   end), io.CopyN(io.Discard, r, n) otherwise (error when the reader ends early). *)
Definition rd_skip (n : N) (r : rdr) : option err * rdr :=
  if r_seek r then (None, {| r_buf := drop n (r_buf r); r_end := r_end r; r_seek := true |})
  else if blen (r_buf r) <? n
       then (Some (end_err r), {| r_buf := []; r_end := r_end r; r_seek := false |})
       else (None, {| r_buf := drop n (r_buf r); r_end := r_end r; r_seek := false |}).

(* ---------- options ---------- *)
(* what the attachment callback installed by the harness does *)
Inductive cbmode :=
| CbNone                 (* no callback *)
| CbFull                 (* read all data, then ComputedCRC and ParsedCRC *)
| CbPartial (k : nat)    (* read k data bytes, then ComputedCRC/ParsedCRC (which report unhandled data), return nil *)
| CbFail.                (* return an error without reading *)

Record lopts := {
  lo_skip_magic : bool;
  lo_validate : bool;            (* ValidateChunkCRCs *)
  lo_compute_acrc : bool;        (* ComputeAttachmentCRCs *)
  lo_emit_chunks : bool;
  lo_emit_invalid : bool;
  lo_max_record : N;             (* MaxRecordSize, 0 = unlimited *)
  lo_max_chunk : N;              (* MaxDecompressedChunkSize, 0 = unlimited *)
  lo_cb : cbmode;
  lo_custom : list bytes         (* compression names handled by caller-supplied decompressors *)
}.

(* ---------- decompression oracle ---------- *)
(* dstream comp avail avail_end = (delivered, end): what the streaming decoder for `comp` delivers
   when its input delivers `avail` and then ends as `avail_end` (None = EOF). *)
Definition doracle := bytes -> bytes -> option err -> bytes * option err.

(* ---------- attachment callback observations ---------- *)
Record attobs := {
  ao_log : N; ao_create : N; ao_name : bytes; ao_media : bytes; ao_size : N;
  ao_data : bytes;                 (* data bytes the callback read *)
  ao_data_end : option err;        (* how reading the data ended (None = EOF / all read) *)
  ao_computed : outcome N;         (* ComputedCRC() *)
  ao_parsed : outcome N            (* ParsedCRC() *)
}.

Inductive event :=
| EvToken (op : byte) (body : bytes)      (* a token of the type that corresponds to op *)
| EvInvalidChunk                          (* TokenInvalidChunk *)
| EvAttachment (a : attobs).              (* the attachment callback ran *)

(* ---------- lexer state ---------- *)
Record lstate := {
  lx_base : rdr;
  lx_chunk : option rdr;         (* Some r: inChunk, reader = r *)
  lx_ubuf : N;                   (* len(l.uncompressedChunk) *)
  lx_bufcap : N;                 (* len(l.buf): 32, grows for long compression names *)
  lx_allocs : list N             (* sizes requested from make/makeSafe, newest first *)
}.
#[export] Instance eta_lstate : Settable _ := settable! Build_lstate
  < lx_base; lx_chunk; lx_ubuf; lx_bufcap; lx_allocs >.

Definition cur (s : lstate) : rdr := match lx_chunk s with Some r => r | None => lx_base s end.
Definition set_cur (r : rdr) (s : lstate) : lstate :=
  match lx_chunk s with Some _ => s <| lx_chunk := Some r |> | None => s <| lx_base := r |> end.

Definition known_op (op : byte) : bool :=
  let n := Byte.to_N op in (1 <=? n) && (n <=? 15).

Section WithOracle.
Variable lo : lopts.
Variable dstream : doracle.

Fixpoint mem_bytes (x : bytes) (l : list bytes) : bool :=
  match l with [] => false | y :: r => bytes_eqb x y || mem_bytes x r end.

(* makeSafe *)
Definition make_safe (n : N) (s : lstate) : outcome lstate :=
  if n <? max_int32 then Ok (s <| lx_allocs := n :: lx_allocs s |>) else Err ELengthOutOfRange.

(* compressions whose decoder is drained (read to its end, which must yield nothing more) once the declared number of
   bytes has been read for validation: lz4 and - since the fix for empty zstd chunks - zstd *)
Definition drains_chunk (comp : bytes) : bool :=
  bytes_eqb comp [x6c; x7a; x34] || bytes_eqb comp [x7a; x73; x74; x64].

(* ----- loadChunk ----- *)
(* result: None = nil (chunk reader installed), Some e = error *)
Definition load_chunk (record_len : N) (s : lstate) : option err * lstate :=
  match lx_chunk s with
  | Some _ => (Some ENestedChunk, s)
  | None =>
    let '(hd, e, b1) := rd_full 32 (lx_base s) in
    let s := s <| lx_base := b1 |> in
    match e with
    | Some EUnexpectedEOF => (Some ETruncated, s)
    | Some e => (Some e, s)
    | None =>
      let usize := unle (sub hd 16 8) in
      let ucrc := unle (sub hd 24 4) in
      let clen := unle (sub hd 28 4) in
      let need := clen + 8 in
      if record_len <? 32 + need then (Some EOther, s) else
      (* grow the scratch buffer when the compression name does not fit *)
      let grow := lx_bufcap s <? need in
      match (if grow then make_safe need s else Ok s) with
      | Err e => (Some e, s)
      | Panic _ | Exit _ | OutOfFuel => (Some EOther, s)
      | Ok s =>
        let s := if grow then s <| lx_bufcap := need |> else s in
        let '(cb, e, b2) := rd_full need (lx_base s) in
        let s := s <| lx_base := b2 |> in
        match e with
        | Some EUnexpectedEOF | Some EEOF => (Some ETruncated, s)
        | Some e => (Some e, s)
        | None =>
          let comp := take clen cb in
          let rlen := unle (drop clen cb) in
          (* io.LimitReader(l.reader, int64(recordsLength)): a negative limit delivers nothing *)
          let rlen := if 9223372036854775807 <? rlen then 0 else rlen in
          let supported := mem_bytes comp (lo_custom lo) || bytes_eqb comp [] || bytes_eqb comp [x7a; x73; x74; x64]
                           || bytes_eqb comp [x6c; x7a; x34] in
          if negb supported then (Some EOther, s) else
          (* the LimitedReader over the current (base) reader: take what the base can deliver *)
          let b := lx_base s in
          let complete := rlen <=? blen (r_buf b) in
          let avail := take rlen (r_buf b) in
          let avail_end := if complete then None else r_end b in
          let b' := {| r_buf := drop rlen (r_buf b); r_end := r_end b; r_seek := r_seek b |} in
          let '(plain, pend) := if bytes_eqb comp [] && negb (mem_bytes comp (lo_custom lo))
                                then (avail, avail_end) else dstream comp avail avail_end in
          let chunk_rdr := {| r_buf := plain; r_end := pend; r_seek := false |} in
          let s := s <| lx_base := b' |> <| lx_chunk := Some chunk_rdr |> in
          if negb (lo_validate lo) then (None, s) else
          if (0 <? lo_max_chunk lo) && (lo_max_chunk lo <? usize) then (Some EChunkTooLarge, s) else
          match (if lx_ubuf s <? usize
                 then (if max_int32 <? usize then Err ELengthOutOfRange
                       else match make_safe (usize * 2) s with
                            | Ok s' => Ok (s' <| lx_ubuf := usize * 2 |>)
                            | Err e => Err e | Panic p => Panic p | Exit p => Exit p | OutOfFuel => OutOfFuel end)
                 else Ok s) with
          | Err e => (Some e, s)
          | Panic _ | Exit _ | OutOfFuel => (Some EOther, s)
          | Ok s =>
            let '(data, e, r1) := rd_full usize chunk_rdr in
            (* uncompressed and caller-supplied (pass-through) readers pull lazily from the limited
               reader: validation consumes only the bytes it read, not the whole records region *)
            let lazy := bytes_eqb comp [] || mem_bytes comp (lo_custom lo) in
            let s := s <| lx_chunk := Some r1 |> in
            match e with
            | Some e => (Some e, s)
            | None =>
              let is_lz4 := drains_chunk comp in
              (* lz4, zstd: io.ReadAll of the remainder must succeed and be empty *)
              let extra_bad := if is_lz4 then
                                 match r_buf r1, r_end r1 with
                                 | [], None => None
                                 | _, Some e => Some e
                                 | _ :: _, None => Some EOther
                                 end
                               else None in
              let s := if is_lz4 then s <| lx_chunk := Some {| r_buf := []; r_end := r_end r1; r_seek := false |} |> else s in
              match extra_bad with
              | Some e => (Some e, s)
              | None =>
                if (0 <? ucrc) && negb (crc32 data =? ucrc) then (Some EInvalidChunkCrc, s)
                else
                  (* success: the reader becomes the in-memory buffer and what is left of the limited
                     reader is abandoned.  Uncompressed and pass-through (caller-supplied) readers pull
                     lazily, so the base reader has only advanced by the bytes validation read. *)
                  let s := if lazy then s <| lx_base := {| r_buf := drop (blen data) (r_buf b); r_end := r_end b; r_seek := r_seek b |} |>
                           else s in
                  (None, s <| lx_chunk := Some {| r_buf := data; r_end := None; r_seek := true |} |>)
              end
            end
          end
        end
      end
    end
  end.

(* ----- attachments ----- *)
(* LimitedReader(n) over r: the bytes it can deliver and how it ends *)
Definition limited (n : N) (r : rdr) : bytes * option err :=
  if n <=? blen (r_buf r) then (take n (r_buf r), None) else (r_buf r, r_end r).

(* readUint64 through ReadFull on an in-memory limited stream (buf, end) at offset off *)
Definition lim_read (n : nat) (st : bytes * option err) (off : nat) : outcome (bytes * nat) :=
  let '(buf, en) := st in
  if Nat.leb (off + n) (length buf) then Ok (sub buf off n, (off + n)%nat)
  else Err (match en with
            | None => if Nat.leb (length buf) off then EEOF else EUnexpectedEOF
            | Some e => e end).

(* readPrefixedString after the fix: reads at most the declared length, short data is an error *)
Definition lim_pstr (st : bytes * option err) (off : nat) : outcome (bytes * nat) :=
  match lim_read 4 st off with
  | Ok (lb, off1) =>
    let n := unle lb in
    let '(buf, en) := st in
    if N.of_nat off1 + n <=? blen buf then Ok (sub buf off1 (N.to_nat n), (off1 + N.to_nat n)%nat)
    else Err (match en with
              | None => if Nat.leb (length buf) off1 then EEOF else EUnexpectedEOF
              | Some e => e end)
  | Err e => Err e
  | Panic p => Panic p | Exit p => Exit p | OutOfFuel => OutOfFuel
  end.

Open Scope go_scope.

(* handle one attachment record of length record_len on the current reader.
   Returns (callback event if any, error, consumed count from the current reader) *)
Definition do_attachment (record_len : N) (r : rdr) : option event * option err * rdr :=
  let lim := limited record_len r in          (* what the record-level LimitedReader can deliver *)
  let total := blen (fst lim) in
  match lo_cb lo with
  | CbNone =>
    let '(e, r') := rd_skip record_len r in (None, e, r')
  | cb =>
    let parsed :=
      let* (lt, o1) := lim_read 8 lim 0 in
      let* (ct, o2) := lim_read 8 lim o1 in
      let* (name, o3) := lim_pstr lim o2 in
      let* (media, o4) := lim_pstr lim o3 in
      let* (ds, o5) := lim_read 8 lim o4 in
      Ok (unle lt, unle ct, name, media, unle ds, o5) in
    match parsed with
    | Ok (lt, ct, name, media, ds, o5) =>
      (* data: LimitedReader(int64(ds)) over the crc reader over lim; a non-positive limit delivers nothing *)
      let dn := if 9223372036854775807 <? ds then 0 else ds in
      let rest := skipn o5 (fst lim) in
      match cb with
      | CbFail =>
        (* callback returns an error straight away; nothing more is consumed by the lexer *)
        let consumed := o5 in
        (None, Some ECallback, {| r_buf := skipn consumed (r_buf r); r_end := r_end r; r_seek := r_seek r |})
      | _ =>
        let want := match cb with CbPartial k => N.min (N.of_nat k) dn | _ => dn end in
        let got := take want rest in
        let short := blen got <? want in
        (* io.ReadAll treats EOF as success; any other error of the underlying stream is returned *)
        let data_end := if short then snd lim else None in
        (* data.N > 0 after the callback's reads *)
        let n_left := blen got <? dn in
        let pos := (o5 + length got)%nat in
        let crc_of := crc32 (firstn pos (fst lim)) in
        let computed := if n_left then Err EOther
                        else Ok (if lo_compute_acrc lo then crc_of else 0) in
        let '(parsed_crc, pos') :=
          if n_left then (Err EOther, pos)
          else match lim_read 4 lim pos with
               | Ok (cb4, p') => (Ok (unle cb4), p')
               | Err e => (Err e, length (fst lim))
               | _ => (Err EOther, pos) end in
        let ob := {| ao_log := lt; ao_create := ct; ao_name := name; ao_media := media; ao_size := ds;
                     ao_data := got; ao_data_end := data_end; ao_computed := computed; ao_parsed := parsed_crc |} in
        (* skipReader(limitReader.R, limitReader.N): N = record_len - consumed *)
        let consumed := pos' in
        let r1 := {| r_buf := skipn consumed (r_buf r); r_end := r_end r; r_seek := r_seek r |} in
        let '(e, r2) := rd_skip (record_len - N.of_nat consumed) r1 in
        (Some (EvAttachment ob), e, r2)
      end
    | Err e =>
      (* parseAttachmentReader failed: everything the limited reader could deliver up to the failure
         has been consumed; the model conservatively consumes all of it *)
      (None, Some e, {| r_buf := drop total (r_buf r); r_end := r_end r; r_seek := r_seek r |})
    | _ => (None, Some EOther, r)
    end
  end.

(* ----- Lexer.Next ----- *)
Inductive nres :=
| NTok (ev : event)            (* a token (or TokenInvalidChunk with its error) *)
| NErr (e : err).              (* TokenError with error e (EEOF = clean end) *)

(* pcap: cap(p) of the buffer handed to Next *)
Fixpoint lex_next (fuel : nat) (pcap : N) (s : lstate) (evs : list event) : outcome (list event * nres * lstate) :=
  match fuel with
  | O => OutOfFuel
  | S f =>
    let '(hd, e, r1) := rd_full 9 (cur s) in
    let in_chunk := match lx_chunk s with Some _ => true | None => false end in
    let s1 := set_cur r1 s in
    match e with
    | Some e =>
      let ueof := err_eqb e EUnexpectedEOF || err_eqb e ETruncated in
      let eof := err_eqb e EEOF in
      if in_chunk && (eof || ueof) then lex_next f pcap (s1 <| lx_chunk := None |>) evs
      else if ueof then
        if Nat.eqb (length hd) 8 && bytes_eqb hd magic then Ok (evs, NErr EEOF, s1)
        else Ok (evs, NErr ETruncated, s1)
      else Ok (evs, NErr e, s1)
    | None =>
      let op := match hd with b :: _ => b | [] => x00 end in
      let rlen := unle (skipn 1 hd) in
      if (0 <? lo_max_record lo) && (lo_max_record lo <? rlen) then Ok (evs, NErr ERecordTooLarge, s1) else
      if Byte.eqb op OpChunk && negb (lo_emit_chunks lo) then
        match load_chunk rlen s1 with
        | (None, s2) => lex_next f pcap s2 evs
        | (Some e, s2) =>
          if lo_emit_invalid lo && err_eqb e EInvalidChunkCrc then Ok (evs, NTok EvInvalidChunk, s2)
          else Ok (evs, NErr e, s2)
        end
      else if Byte.eqb op OpAttachment then
        if 9223372036854775807 <? rlen then Ok (evs, NErr EOther, s1) else
        let '(ev, e, r2) := do_attachment rlen (cur s1) in
        let s2 := set_cur r2 s1 in
        let evs := match ev with Some ev => evs ++ [ev] | None => evs end in
        match e with
        | Some e => Ok (evs, NErr e, s2)
        | None => lex_next f pcap s2 evs
        end
      else
        match (if pcap <? rlen then make_safe rlen s1 else Ok s1) with
        | Err e => Ok (evs, NErr e, s1)
        | Panic p => Panic p | Exit p => Exit p | OutOfFuel => OutOfFuel
        | Ok s1 =>
          let '(body, e, r2) := rd_full rlen (cur s1) in
          let s2 := set_cur r2 s1 in
          match e with
          | Some EUnexpectedEOF => Ok (evs, NErr ETruncated, s2)
          | Some e => Ok (evs, NErr e, s2)
          | None =>
            if known_op op then Ok (evs, NTok (EvToken op body), s2)
            else if Byte.eqb op x00 then Ok (evs, NErr EInvalidZeroOpcode, s2)
            else lex_next f pcap s2 evs
          end
        end
    end
  end.

(* NewLexer: magic validation *)
Definition new_lexer (src : rdr) : outcome lstate :=
  let s0 := {| lx_base := src; lx_chunk := None; lx_ubuf := 0; lx_bufcap := 32; lx_allocs := [] |} in
  if lo_skip_magic lo then Ok s0 else
  let '(m, e, r1) := rd_full 8 src in
  match e with
  | Some _ => Err EBadMagic
  | None => if bytes_eqb m magic then Ok (s0 <| lx_base := r1 |>) else Err EBadMagic
  end.

(* drive Next until TokenError; collect all events and the terminal error *)
Fixpoint lex_loop (n : nat) (fuel : nat) (s : lstate) (acc : list event) : outcome (list event * err * lstate) :=
  match n with
  | O => OutOfFuel
  | S n' =>
    match lex_next fuel 0 s [] with
    | Ok (evs, NTok ev, s') => lex_loop n' fuel s' (acc ++ evs ++ [ev])
    | Ok (evs, NErr e, s') => Ok (acc ++ evs, e, s')
    | Err e => Err e
    | Panic p => Panic p | Exit p => Exit p | OutOfFuel => OutOfFuel
    end
  end.

Definition lex_all (fuel : nat) (src : rdr) : outcome (list event * err * lstate) :=
  match new_lexer src with
  | Ok s => lex_loop fuel fuel s []
  | Err e => Err e
  | Panic p => Panic p | Exit p => Exit p | OutOfFuel => OutOfFuel
  end.

End WithOracle.
