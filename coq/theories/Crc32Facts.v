(* Crc32Facts.v — table = bitwise definition; incremental = one-shot; and the
   detection theorem: two buffers that differ in exactly one byte have different CRC-32. *)
From Coq Require Import List NArith ZArith Lia ZifyN ZifyNat Bool.
From Coq.Strings Require Import Byte.
From Mcap Require Import Bytes BytesFacts Crc32.
Import ListNotations.
Open Scope N_scope.
Ltac Zify.zify_post_hook ::= Z.div_mod_to_equations.

Lemma idx_spec i : In i idx <-> i < 256.
Proof.
  unfold idx. rewrite in_map_iff. split.
  - intros [n [<- H]]. apply in_seq in H. lia.
  - intros H. exists (N.to_nat i). split; [lia|]. apply in_seq. lia.
Qed.

Lemma tab_bound_sweep : forallb (fun i => tab i <? 2^32) idx = true.
Proof. vm_compute. reflexivity. Qed.
Lemma tab_top_inj_sweep :
  forallb (fun i => forallb (fun j => implb (N.shiftr (tab i) 24 =? N.shiftr (tab j) 24) (i =? j)) idx) idx = true.
Proof. vm_compute. reflexivity. Qed.
Lemma tab_is_bitwise_sweep : forallb (fun i => tab i =? iter 8 step1 i) idx = true.
Proof. vm_compute. reflexivity. Qed.

Lemma tab_bound i : i < 256 -> tab i < 2^32.
Proof.
  intros H. pose proof tab_bound_sweep as S. rewrite forallb_forall in S.
  specialize (S i (proj2 (idx_spec i) H)). apply N.ltb_lt in S. exact S.
Qed.
Lemma tab_top_inj i j : i < 256 -> j < 256 -> N.shiftr (tab i) 24 = N.shiftr (tab j) 24 -> i = j.
Proof.
  intros Hi Hj E. pose proof tab_top_inj_sweep as S. rewrite forallb_forall in S.
  specialize (S i (proj2 (idx_spec i) Hi)). rewrite forallb_forall in S.
  specialize (S j (proj2 (idx_spec j) Hj)).
  rewrite E, N.eqb_refl in S. simpl in S. apply N.eqb_eq in S. exact S.
Qed.
Lemma tab_is_bitwise i : i < 256 -> tab i = iter 8 step1 i.
Proof.
  intros H. pose proof tab_is_bitwise_sweep as S. rewrite forallb_forall in S.
  specialize (S i (proj2 (idx_spec i) H)). apply N.eqb_eq in S. exact S.
Qed.

Lemma land255_lt a : N.land a 255 < 256.
Proof. change 255 with (N.ones 8). rewrite N.land_ones. change (2^8) with 256. lia. Qed.

Lemma lxor_lt a b n : a < 2^n -> b < 2^n -> N.lxor a b < 2^n.
Proof.
  intros Ha Hb.
  destruct (N.eq_dec (N.lxor a b) 0) as [E|E]. { rewrite E. apply N.neq_0_lt_0. apply N.pow_nonzero. lia. }
  apply N.log2_lt_pow2; [lia|].
  eapply N.le_lt_trans; [apply N.log2_lxor|].
  destruct (N.eq_dec a 0) as [->|Ha0]; destruct (N.eq_dec b 0) as [->|Hb0].
  - exfalso. apply E. reflexivity.
  - rewrite N.max_r by (simpl; lia). apply N.log2_lt_pow2; lia.
  - rewrite N.max_l by (simpl; lia). apply N.log2_lt_pow2; lia.
  - apply N.max_lub_lt; apply N.log2_lt_pow2; lia.
Qed.

Lemma shiftr8_lt s : s < 2^32 -> N.shiftr s 8 < 2^24.
Proof. intros H. rewrite N.shiftr_div_pow2. change (2^8) with 256. change (2^32) with 4294967296 in H. change (2^24) with 16777216. lia. Qed.

Lemma upd_bound s b : s < 2^32 -> upd s b < 2^32.
Proof.
  intros H. unfold upd. apply lxor_lt.
  - apply tab_bound, land255_lt.
  - pose proof (shiftr8_lt s H). change (2^24) with 16777216 in *. change (2^32) with 4294967296. lia.
Qed.

Lemma top_of_upd s b : s < 2^32 -> N.shiftr (upd s b) 24 = N.shiftr (tab (N.land (N.lxor s b) 255)) 24.
Proof.
  intros H. unfold upd. rewrite N.shiftr_lxor.
  replace (N.shiftr (N.shiftr s 8) 24) with 0; [apply N.lxor_0_r|].
  symmetry. pose proof (shiftr8_lt s H) as H0. rewrite (N.shiftr_div_pow2 _ 24). apply N.div_small. exact H0.
Qed.

Lemma land_lxor_distr_l a b c : N.land (N.lxor a b) c = N.lxor (N.land a c) (N.land b c).
Proof.
  apply N.bits_inj. intro n. rewrite N.land_spec, !N.lxor_spec, !N.land_spec.
  destruct (N.testbit a n), (N.testbit b n), (N.testbit c n); reflexivity.
Qed.

Lemma split8 s : s = N.shiftr s 8 * 256 + N.land s 255.
Proof. rewrite N.shiftr_div_pow2. change 255 with (N.ones 8). rewrite N.land_ones. change (2^8) with 256. lia. Qed.

Lemma upd_inj s1 s2 b : s1 < 2^32 -> s2 < 2^32 -> upd s1 b = upd s2 b -> s1 = s2.
Proof.
  intros H1 H2 E.
  assert (Ei : N.land (N.lxor s1 b) 255 = N.land (N.lxor s2 b) 255).
  { apply tab_top_inj; try apply land255_lt.
    rewrite <- (top_of_upd s1 b H1), <- (top_of_upd s2 b H2), E. reflexivity. }
  unfold upd in E. rewrite Ei in E.
  apply (f_equal (N.lxor (tab (N.land (N.lxor s2 b) 255)))) in E.
  assert (Eh : N.shiftr s1 8 = N.shiftr s2 8).
  { rewrite <- !N.lxor_assoc, N.lxor_nilpotent, !N.lxor_0_l in E. exact E. }
  rewrite !land_lxor_distr_l in Ei.
  apply (f_equal (fun x => N.lxor x (N.land b 255))) in Ei.
  rewrite !N.lxor_assoc, N.lxor_nilpotent, !N.lxor_0_r in Ei.
  rewrite (split8 s1), (split8 s2), Eh, Ei. reflexivity.
Qed.

Lemma tab_inj i j : i < 256 -> j < 256 -> tab i = tab j -> i = j.
Proof. intros Hi Hj E. apply tab_top_inj; auto. rewrite E. reflexivity. Qed.

Lemma upd_byte_inj s b1 b2 : b1 < 256 -> b2 < 256 -> upd s b1 = upd s b2 -> b1 = b2.
Proof.
  intros H1 H2 E. unfold upd in E.
  apply (f_equal (fun x => N.lxor x (N.shiftr s 8))) in E.
  rewrite !N.lxor_assoc, N.lxor_nilpotent, !N.lxor_0_r in E.
  apply tab_inj in E; try apply land255_lt.
  rewrite !land_lxor_distr_l in E.
  apply (f_equal (N.lxor (N.land s 255))) in E.
  rewrite <- !N.lxor_assoc, N.lxor_nilpotent, !N.lxor_0_l in E.
  change 255 with (N.ones 8) in E. rewrite !N.land_ones in E. change (2^8) with 256 in E.
  rewrite !N.mod_small in E by assumption. exact E.
Qed.

Lemma crc_update_app st a b : crc_update st (a ++ b) = crc_update (crc_update st a) b.
Proof. unfold crc_update. apply fold_left_app. Qed.

Lemma crc_update_bound bs : forall s, s < 2^32 -> crc_update s bs < 2^32.
Proof. induction bs as [|b l IH]; intros s H; cbn [crc_update fold_left]; auto. apply IH, upd_bound, H. Qed.

Lemma crc_init_bound : crc_init < 2^32.
Proof. vm_compute. reflexivity. Qed.

Lemma crc_update_inj bs : forall s1 s2, s1 < 2^32 -> s2 < 2^32 -> crc_update s1 bs = crc_update s2 bs -> s1 = s2.
Proof.
  induction bs as [|b l IH]; intros s1 s2 H1 H2 E; cbn [crc_update fold_left] in E; auto.
  apply IH in E; try (apply upd_bound; assumption). eapply upd_inj; eauto.
Qed.

Lemma crc_final_inj a b : crc_final a = crc_final b -> a = b.
Proof.
  unfold crc_final. intro E.
  apply (f_equal (fun x => N.lxor x 0xFFFFFFFF)) in E.
  rewrite !N.lxor_assoc, N.lxor_nilpotent, !N.lxor_0_r in E. exact E.
Qed.

Lemma crc32_bound bs : crc32 bs < 2^32.
Proof.
  unfold crc32, crc_final. apply lxor_lt; [|vm_compute; reflexivity].
  apply crc_update_bound, crc_init_bound.
Qed.

(* The detection theorem: any change confined to one byte (hence any single bit flip)
   at any position of a buffer of any length changes the CRC-32. *)
Theorem crc_detects_byte_error pre b1 b2 post :
  b1 <> b2 -> crc32 (pre ++ b1 :: post) <> crc32 (pre ++ b2 :: post).
Proof.
  intros Hne E. unfold crc32 in E. apply crc_final_inj in E.
  rewrite !crc_update_app in E.
  set (s := crc_update crc_init pre) in *.
  assert (Hs : s < 2^32) by (apply crc_update_bound, crc_init_bound).
  change (crc_update s (b1 :: post)) with (crc_update (upd s (to_N b1)) post) in E.
  change (crc_update s (b2 :: post)) with (crc_update (upd s (to_N b2)) post) in E.
  apply crc_update_inj in E; try (apply upd_bound; exact Hs).
  pose proof (Byte.to_N_bounded b1). pose proof (Byte.to_N_bounded b2).
  apply upd_byte_inj in E; try lia.
  apply Hne, to_N_inj, E.
Qed.

(* table implementation = bitwise specification *)
Lemma step1_shift_xor_high c h : (* stepping commutes with xoring in bits above bit 0, shifted *)
  step1 (N.lxor c (N.shiftl h 1)) = N.lxor (step1 c) h.
Proof.
  unfold step1.
  assert (Hb : N.testbit (N.lxor c (N.shiftl h 1)) 0 = N.testbit c 0).
  { rewrite N.lxor_spec, N.shiftl_spec_low by lia. apply xorb_false_r. }
  rewrite Hb, N.shiftr_lxor.
  replace (N.shiftr (N.shiftl h 1) 1) with h
    by (rewrite N.shiftr_shiftl_l by lia; rewrite N.sub_diag, N.shiftl_0_r; reflexivity).
  destruct (N.testbit c 0).
  - rewrite !N.lxor_assoc. f_equal. apply N.lxor_comm.
  - reflexivity.
Qed.

Lemma iter_step1_high n : forall c h, iter n step1 (N.lxor c (N.shiftl h (N.of_nat n))) = N.lxor (iter n step1 c) h.
Proof.
  induction n as [|n IH]; intros c h.
  - cbn [iter]. rewrite N.shiftl_0_r. reflexivity.
  - cbn [iter].
    replace (N.shiftl h (N.of_nat (S n))) with (N.shiftl (N.shiftl h (N.of_nat n)) 1)
      by (rewrite N.shiftl_shiftl; f_equal; lia).
    rewrite step1_shift_xor_high. apply IH.
Qed.

Lemma upd_is_bitwise s b : b < 256 -> upd s b = upd_bit s b.
Proof.
  intro Hb. unfold upd, upd_bit.
  set (x := N.lxor s b).
  assert (Hx : x = N.lxor (N.land x 255) (N.shiftl (N.shiftr x 8) 8)).
  { apply N.bits_inj. intro n. rewrite N.lxor_spec, N.land_spec.
    change 255 with (N.ones 8).
    destruct (N.ltb_spec n 8) as [Hn|Hn].
    - rewrite N.ones_spec_low by lia. rewrite N.shiftl_spec_low by lia.
      rewrite andb_true_r, xorb_false_r. reflexivity.
    - rewrite N.ones_spec_high by lia. rewrite N.shiftl_spec_high' by lia.
      rewrite N.shiftr_spec'. rewrite andb_false_r, xorb_false_l.
      replace (n - 8 + 8) with n by lia. reflexivity. }
  rewrite Hx at 2. change 8 with (N.of_nat 8) at 3.
  rewrite iter_step1_high.
  rewrite <- tab_is_bitwise by apply land255_lt.
  f_equal. unfold x. rewrite N.shiftr_lxor.
  replace (N.shiftr b 8) with 0; [symmetry; apply N.lxor_0_r|].
  symmetry. rewrite N.shiftr_div_pow2. apply N.div_small. exact Hb.
Qed.

Theorem crc_tab_correct bs : crc32 bs = crc32_bit bs.
Proof.
  unfold crc32, crc32_bit. f_equal. generalize crc_init.
  induction bs as [|b l IH]; intro s; cbn [crc_update crc_bit_update fold_left]; auto.
  rewrite upd_is_bitwise by (pose proof (Byte.to_N_bounded b); lia). apply IH.
Qed.

Example crc_check_value : crc32 [x31;x32;x33;x34;x35;x36;x37;x38;x39] = 0xCBF43926.
Proof. vm_compute. reflexivity. Qed.
