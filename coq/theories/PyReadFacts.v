(* PyReadFacts.v - the Python streaming reader model (Py.v) reads back exactly the content of
   well-formed uncompressed files as the Go writer model renders them.
   1. primitive round trips (ps_read, ps_uint, ps_pstr, the map loops, every rd_* of records.py)
      against the shared encoders of Records.v, with the stream continuing afterwards;
   2. one turn of the record loop (sr_iter);
   3. the whole-file theorem for stream_records;
   4. corollaries for NonSeekingReader. *)
From Coq Require Import List NArith ZArith Bool Lia ZifyN ZifyNat ZifyBool Permutation Sorted.
From Coq.Strings Require Import Byte.
From Mcap Require Import Bytes BytesFacts GoSem Crc32 Crc32Facts Records RecordsFacts Writer Lexer LexSpec Py.
Import ListNotations.
Open Scope N_scope.
Open Scope py_scope.

Arguments utf8_valid : simpl never.
Arguments py_crc : simpl never.
Arguments crc32 : simpl never.
Arguments crc_update : simpl never.
Arguments crc_final : simpl never.

(* ====================================================================== *)
(** * 0. bytes, crc *)

Lemma blen_app a b : blen (a ++ b) = blen a + blen b.
Proof. unfold blen. rewrite app_length. lia. Qed.
Lemma blen_nil : blen [] = 0.
Proof. reflexivity. Qed.
Lemma blen_cons x a : blen (x :: a) = 1 + blen a.
Proof. unfold blen. cbn [length]. lia. Qed.
Lemma blen_le n x : blen (le n x) = N.of_nat n.
Proof. unfold blen. rewrite le_length. reflexivity. Qed.
Lemma blen_u16 x : blen (u16 x) = 2. Proof. apply blen_le. Qed.
Lemma blen_u32 x : blen (u32 x) = 4. Proof. apply blen_le. Qed.
Lemma blen_u64 x : blen (u64 x) = 8. Proof. apply blen_le. Qed.

Lemma crc_final_invol x : crc_final (crc_final x) = x.
Proof. unfold crc_final. rewrite N.lxor_assoc, N.lxor_nilpotent, N.lxor_0_r. reflexivity. Qed.

Lemma py_crc_nil c : py_crc c [] = c.
Proof. unfold py_crc, crc_update. cbn [fold_left]. apply crc_final_invol. Qed.

Lemma py_crc_app c a b : py_crc (py_crc c a) b = py_crc c (a ++ b).
Proof. unfold py_crc. rewrite crc_final_invol, crc_update_app. reflexivity. Qed.

(* zlib.crc32(data, 0) is the CRC-32 of data *)
Lemma py_crc_0 d : py_crc 0 d = crc32 d.
Proof. reflexivity. Qed.

(* ====================================================================== *)
(** * 1. the stream after consuming D, with R still to come *)

Definition adv (s : ps) (D R : bytes) : ps :=
  {| ps_buf := R; ps_count := ps_count s + blen D;
     ps_crc := option_map (fun c => py_crc c D) (ps_crc s) |}.

(* s' is s after consuming exactly the bytes d *)
Definition advance (s : ps) (d : bytes) (s' : ps) : Prop :=
  ps_buf s = d ++ ps_buf s'
  /\ ps_count s' = ps_count s + blen d
  /\ ps_crc s' = option_map (fun c => py_crc c d) (ps_crc s).

Lemma adv_nil s : adv s [] (ps_buf s) = s.
Proof.
  destruct s as [b c k]. unfold adv. cbn [ps_buf ps_count ps_crc]. f_equal.
  - rewrite blen_nil. lia.
  - destruct k; cbn [option_map]; [rewrite py_crc_nil|]; reflexivity.
Qed.

Lemma adv_advance s d rest : ps_buf s = d ++ rest -> advance s d (adv s d rest).
Proof. intro H. unfold advance, adv. cbn [ps_buf ps_count ps_crc]. auto. Qed.

Lemma advance_unique s d s1 s2 : advance s d s1 -> advance s d s2 -> s1 = s2.
Proof.
  intros (B1 & C1 & K1) (B2 & C2 & K2). destruct s1 as [b1 c1 k1], s2 as [b2 c2 k2]. cbn [ps_buf ps_count ps_crc] in *.
  rewrite B1 in B2. apply app_inv_head in B2. congruence.
Qed.

Lemma adv_adv s D R d R' : adv (adv s D R) d R' = adv s (D ++ d) R'.
Proof.
  unfold adv. cbn [ps_buf ps_count ps_crc]. f_equal.
  - rewrite blen_app. lia.
  - destruct (ps_crc s); cbn [option_map]; [rewrite py_crc_app|]; reflexivity.
Qed.

Lemma ps_count_adv s D R : ps_count (adv s D R) = ps_count s + blen D.
Proof. reflexivity. Qed.
Lemma ps_buf_adv s D R : ps_buf (adv s D R) = R.
Proof. reflexivity. Qed.
Lemma ps_crc_adv s D R : ps_crc (adv s D R) = option_map (fun c => py_crc c D) (ps_crc s).
Proof. reflexivity. Qed.

(* from the "adv" form of a reader lemma to the form over an arbitrary stream *)
Lemma lift_adv {A} (f : ps -> pres (A * ps)) d x :
  (forall s D R, f (adv s D (d ++ R)) = POk (x, adv s (D ++ d) R)) ->
  forall s rest, ps_buf s = d ++ rest ->
    exists s', f s = POk (x, s') /\ advance s d s' /\ ps_buf s' = rest.
Proof.
  intros H s rest B. exists (adv s d rest). split; [|split].
  - rewrite <- (adv_nil s) at 1. rewrite B. rewrite H. reflexivity.
  - apply adv_advance, B.
  - reflexivity.
Qed.

(* ---------- the one lemma about the buffer ---------- *)
Lemma ps_read_adv s D d R : blen d < two63 ->
  ps_read (Z.of_N (blen d)) (adv s D (d ++ R)) = POk (d, adv s (D ++ d) R).
Proof.
  intro Hb. unfold ps_read.
  destruct d as [|b d].
  - cbn [blen length N.of_nat Z.of_N Z.eqb]. rewrite app_nil_r. reflexivity.
  - destruct (Z.eqb_spec (Z.of_N (blen (b :: d))) 0) as [E|_]; [rewrite blen_cons in E; lia|].
    destruct (Z.ltb_spec max_ssize (Z.of_N (blen (b :: d)))) as [E|_];
      [unfold max_ssize, two63 in *; lia|].
    destruct (Z.ltb_spec (Z.of_N (blen (b :: d))) 0) as [E|_]; [lia|].
    rewrite N2Z.id. unfold ptake, pdrop. rewrite ps_buf_adv.
    replace (N.to_nat (N.min (blen (b :: d)) (blen ((b :: d) ++ R)))) with (length (b :: d))
      by (rewrite blen_app; unfold blen; lia).
    rewrite firstn_app_exact, skipn_app_exact.
    cbv beta iota. rewrite ps_count_adv, ps_crc_adv.
    f_equal. f_equal. unfold adv. f_equal.
    + rewrite blen_app. lia.
    + destruct (ps_crc s); cbn [option_map]; [rewrite py_crc_app|]; reflexivity.
Qed.

(* read1/2/4/8 *)
Lemma ps_uint_adv k s D d R : length d = k -> (0 < k)%nat -> (k <= 8)%nat ->
  ps_uint k (adv s D (d ++ R)) = POk (unle d, adv s (D ++ d) R).
Proof.
  intros L K0 K8. unfold ps_uint.
  replace (Z.of_nat k) with (Z.of_N (blen d)) by (unfold blen; lia).
  rewrite ps_read_adv by (unfold blen, two63; lia).
  cbn [pbind]. rewrite L, Nat.eqb_refl. reflexivity.
Qed.

Lemma ps_u8_adv s D b R :
  ps_uint 1 (adv s D (b :: R)) = POk (Byte.to_N b, adv s (D ++ [b]) R).
Proof.
  change (b :: R) with ([b] ++ R). rewrite ps_uint_adv by (cbn [length]; lia).
  cbn [unle]. do 2 f_equal. lia.
Qed.
Lemma ps_u16_adv s D x R : x < two16 ->
  ps_uint 2 (adv s D (u16 x ++ R)) = POk (x, adv s (D ++ u16 x) R).
Proof. intro H. rewrite ps_uint_adv by (rewrite ?u16_length; lia). rewrite unle_u16 by exact H. reflexivity. Qed.
Lemma ps_u32_adv s D x R : x < two32 ->
  ps_uint 4 (adv s D (u32 x ++ R)) = POk (x, adv s (D ++ u32 x) R).
Proof. intro H. rewrite ps_uint_adv by (rewrite ?u32_length; lia). rewrite unle_u32 by exact H. reflexivity. Qed.
Lemma ps_u64_adv s D x R : x < two64 ->
  ps_uint 8 (adv s D (u64 x ++ R)) = POk (x, adv s (D ++ u64 x) R).
Proof. intro H. rewrite ps_uint_adv by (rewrite ?u64_length; lia). rewrite unle_u64 by exact H. reflexivity. Qed.
(* four bytes whose value is not looked at (the attachment crc) *)
Lemma ps_u32_any s D x R :
  ps_uint 4 (adv s D (u32 x ++ R)) = POk (x mod two32, adv s (D ++ u32 x) R).
Proof.
  rewrite ps_uint_adv by (rewrite ?u32_length; lia). unfold u32. rewrite unle_le. reflexivity.
Qed.

Lemma two32_lt_two63 x : x < two32 -> x < two63.
Proof. unfold two32, two63. lia. Qed.

(* str(read(n), "utf-8") *)
Lemma ps_str_adv s D str R : blen str < two63 -> utf8_valid str = true ->
  ps_str (blen str) (adv s D (str ++ R)) = POk (str, adv s (D ++ str) R).
Proof.
  intros Hb Hu. unfold ps_str. rewrite ps_read_adv by exact Hb. cbn [pbind]. rewrite Hu. reflexivity.
Qed.

(* read_prefixed_string, on the unfolded pstr *)
Lemma ps_pstr_adv s D str R : blen str < two32 -> utf8_valid str = true ->
  ps_pstr (adv s D (u32 (blen str) ++ str ++ R))
  = POk (str, adv s ((D ++ u32 (blen str)) ++ str) R).
Proof.
  intros Hb Hu. unfold ps_pstr. rewrite ps_u32_adv by exact Hb. cbn [pbind].
  apply ps_str_adv; [apply two32_lt_two63, Hb | exact Hu].
Qed.

(* length-prefixed raw bytes: read4 then read(n) *)
Lemma ps_pbytes_adv s D d R : blen d < two32 ->
  (let+ (n, s1) := ps_uint 4 (adv s D (u32 (blen d) ++ d ++ R)) in ps_read (Z.of_N n) s1)
  = POk (d, adv s ((D ++ u32 (blen d)) ++ d) R).
Proof.
  intros Hb. rewrite ps_u32_adv by exact Hb. cbn [pbind].
  apply ps_read_adv, two32_lt_two63, Hb.
Qed.
(* ====================================================================== *)
(** * 2. dict / list accumulation of the map loops *)

Definition pd_from (acc l : kvs) : kvs := fold_left (fun a kv => pd_set (fst kv) (snd kv) a) l acc.
Definition pd_build (l : kvs) : kvs := pd_from [] l.
Definition pn_from {A} (acc l : list (N * A)) : list (N * A) :=
  fold_left (fun a kv => pn_set (fst kv) (snd kv) a) l acc.
Definition pn_build {A} (l : list (N * A)) : list (N * A) := pn_from [] l.

Lemma pd_set_fresh k v acc : ~ In k (map fst acc) -> pd_set k v acc = acc ++ [(k, v)].
Proof.
  induction acc as [|x acc IH]; intro H; cbn [pd_set app]; [reflexivity|].
  cbn [map In] in H.
  destruct (bytes_eqb (fst x) k) eqn:E.
  - apply bytes_eqb_eq in E. tauto.
  - rewrite IH by tauto. reflexivity.
Qed.

Lemma pd_from_nodup l : forall acc, NoDup (map fst (acc ++ l)) -> pd_from acc l = acc ++ l.
Proof.
  induction l as [|[k v] l IH]; intros acc H; unfold pd_from; cbn [fold_left fst snd].
  - rewrite app_nil_r. reflexivity.
  - fold (pd_from (pd_set k v acc) l).
    assert (F : ~ In k (map fst acc)).
    { rewrite map_app in H. cbn [map fst] in H. apply NoDup_remove_2 in H.
      intro I. apply H. apply in_or_app. left. exact I. }
    rewrite pd_set_fresh by exact F. rewrite IH; rewrite <- app_assoc; [reflexivity | exact H].
Qed.

(* distinct keys: the dict lists the pairs in file order *)
Theorem pd_build_nodup l : NoDup (map fst l) -> pd_build l = l.
Proof. intro H. unfold pd_build. rewrite pd_from_nodup; [reflexivity | exact H]. Qed.

Theorem pd_build_kv_sort m : NoDup (map fst m) -> pd_build (kv_sort m) = kv_sort m.
Proof. intro H. apply pd_build_nodup, kv_sort_nodup, H. Qed.

Lemma pn_set_fresh {A} k (v : A) acc : ~ In k (map fst acc) -> pn_set k v acc = acc ++ [(k, v)].
Proof.
  induction acc as [|x acc IH]; intro H; cbn [pn_set app]; [reflexivity|].
  cbn [map In] in H.
  destruct (N.eqb_spec (fst x) k) as [E|E].
  - tauto.
  - rewrite IH by tauto. reflexivity.
Qed.

Lemma pn_from_nodup {A} (l : list (N * A)) : forall acc, NoDup (map fst (acc ++ l)) -> pn_from acc l = acc ++ l.
Proof.
  induction l as [|[k v] l IH]; intros acc H; unfold pn_from; cbn [fold_left fst snd].
  - rewrite app_nil_r. reflexivity.
  - fold (pn_from (pn_set k v acc) l).
    assert (F : ~ In k (map fst acc)).
    { rewrite map_app in H. cbn [map fst] in H. apply NoDup_remove_2 in H.
      intro I. apply H. apply in_or_app. left. exact I. }
    rewrite pn_set_fresh by exact F. rewrite IH; rewrite <- app_assoc; [reflexivity | exact H].
Qed.

Theorem pn_build_nodup {A} (l : list (N * A)) : NoDup (map fst l) -> pn_build l = l.
Proof. intro H. unfold pn_build. rewrite pn_from_nodup; [reflexivity | exact H]. Qed.

Lemma pn_get_set {A} k k' (v : A) l : pn_get k (pn_set k' v l) = if k' =? k then Some v else pn_get k l.
Proof.
  induction l as [|x l IH]; cbn [pn_set pn_get fst snd].
  - reflexivity.
  - destruct (N.eqb_spec (fst x) k') as [E|E]; cbn [pn_get fst snd].
    + subst k'. destruct (N.eqb_spec (fst x) k); reflexivity.
    + rewrite IH. destruct (N.eqb_spec (fst x) k) as [E2|E2]; [|reflexivity].
      subst k. destruct (N.eqb_spec k' (fst x)); [congruence|reflexivity].
Qed.

(* ====================================================================== *)
(** * 3. the three loops *)

(* keys and values are valid UTF-8 and short enough for their length prefix *)
Definition kv_ok (kv : bytes * bytes) : Prop :=
  wf_kv kv /\ utf8_valid (fst kv) = true /\ utf8_valid (snd kv) = true.

Lemma enc_kvs_body_unfold k v l :
  enc_kvs_body ((k, v) :: l) = u32 (blen k) ++ k ++ u32 (blen v) ++ v ++ enc_kvs_body l.
Proof. rewrite enc_kvs_body_cons. cbn [fst snd]. unfold pstr. rewrite <- !app_assoc. reflexivity. Qed.

Lemma ps_strmap_adv l : forall fuel stop s D R acc,
  Forall kv_ok l -> (length l < fuel)%nat ->
  stop = ps_count s + blen D + blen (enc_kvs_body l) ->
  ps_strmap fuel stop (adv s D (enc_kvs_body l ++ R)) acc
  = POk (pd_from acc l, adv s (D ++ enc_kvs_body l) R).
Proof.
  induction l as [|[k v] l IH]; intros fuel stop s D R acc F HF HS;
    (destruct fuel as [|fuel]; [cbn [length] in HF; lia|]); cbn [ps_strmap].
  - rewrite ps_count_adv. change (enc_kvs_body []) with (@nil byte) in *.
    rewrite blen_nil in HS.
    destruct (N.ltb_spec (ps_count s + blen D) stop); [lia|].
    rewrite app_nil_r. reflexivity.
  - rewrite ps_count_adv. rewrite enc_kvs_body_unfold in *.
    inversion F as [|? ? ((Hk & Hv) & Uk & Uv) F']; subst. cbn [fst snd] in *.
    rewrite !blen_app, !blen_u32 in *.
    match goal with |- context [N.ltb ?a ?b] => destruct (N.ltb_spec a b) end; [|lia].
    rewrite <- !app_assoc.
    rewrite ps_pstr_adv by assumption. cbn [pbind].
    rewrite ps_pstr_adv by assumption. cbn [pbind].
    rewrite (IH fuel _ s _ R).
    + unfold pd_from. cbn [fold_left fst snd]. rewrite <- !app_assoc. reflexivity.
    + exact F'.
    + cbn [length] in HF. lia.
    + rewrite !blen_app, !blen_u32. lia.
Qed.

Lemma enc_nn_body_cons k v l :
  concat (map enc_nn ((k, v) :: l)) = u16 k ++ u64 v ++ concat (map enc_nn l).
Proof. cbn [map concat]. unfold enc_nn at 1. cbn [fst snd]. rewrite <- app_assoc. reflexivity. Qed.
Lemma enc_mi_body_cons k v l :
  concat (map enc_mi_entry ((k, v) :: l)) = u64 k ++ u64 v ++ concat (map enc_mi_entry l).
Proof. cbn [map concat]. unfold enc_mi_entry at 1. cbn [fst snd]. rewrite <- app_assoc. reflexivity. Qed.

Lemma ps_nnmap_adv l : forall fuel stop s D R acc,
  Forall wf_nn l -> (length l < fuel)%nat ->
  stop = ps_count s + blen D + blen (concat (map enc_nn l)) ->
  ps_nnmap fuel stop (adv s D (concat (map enc_nn l) ++ R)) acc
  = POk (pn_from acc l, adv s (D ++ concat (map enc_nn l)) R).
Proof.
  induction l as [|[k v] l IH]; intros fuel stop s D R acc F HF HS;
    (destruct fuel as [|fuel]; [cbn [length] in HF; lia|]); cbn [ps_nnmap].
  - rewrite ps_count_adv. cbn [map concat] in *. rewrite blen_nil in HS.
    destruct (N.ltb_spec (ps_count s + blen D) stop); [lia|].
    rewrite app_nil_r. reflexivity.
  - rewrite ps_count_adv. rewrite enc_nn_body_cons in *.
    inversion F as [|? ? (Hk & Hv) F']; subst. cbn [fst snd] in *.
    rewrite !blen_app, blen_u16, blen_u64 in *.
    match goal with |- context [N.ltb ?a ?b] => destruct (N.ltb_spec a b) end; [|lia].
    rewrite <- !app_assoc.
    rewrite ps_u16_adv by assumption. cbn [pbind].
    rewrite ps_u64_adv by assumption. cbn [pbind].
    rewrite (IH fuel _ s _ R).
    + unfold pn_from. cbn [fold_left fst snd]. rewrite <- !app_assoc. reflexivity.
    + exact F'.
    + cbn [length] in HF. lia.
    + rewrite !blen_app, blen_u16, blen_u64. lia.
Qed.

Lemma ps_entries_adv l : forall fuel stop s D R acc,
  Forall wf_mi_entry l -> (length l < fuel)%nat ->
  stop = ps_count s + blen D + blen (concat (map enc_mi_entry l)) ->
  ps_entries fuel stop (adv s D (concat (map enc_mi_entry l) ++ R)) acc
  = POk (acc ++ l, adv s (D ++ concat (map enc_mi_entry l)) R).
Proof.
  induction l as [|[k v] l IH]; intros fuel stop s D R acc F HF HS;
    (destruct fuel as [|fuel]; [cbn [length] in HF; lia|]); cbn [ps_entries].
  - rewrite ps_count_adv. cbn [map concat] in *. rewrite blen_nil in HS.
    destruct (N.ltb_spec (ps_count s + blen D) stop); [lia|].
    rewrite !app_nil_r. reflexivity.
  - rewrite ps_count_adv. rewrite enc_mi_body_cons in *.
    inversion F as [|? ? (Hk & Hv) F']; subst. cbn [fst snd] in *.
    rewrite !blen_app, !blen_u64 in *.
    match goal with |- context [N.ltb ?a ?b] => destruct (N.ltb_spec a b) end; [|lia].
    rewrite <- !app_assoc.
    rewrite ps_u64_adv by assumption. cbn [pbind].
    rewrite ps_u64_adv by assumption. cbn [pbind].
    rewrite (IH fuel _ s _ R).
    + rewrite <- !app_assoc. reflexivity.
    + exact F'.
    + cbn [length] in HF. lia.
    + rewrite !blen_app, !blen_u64. lia.
Qed.
