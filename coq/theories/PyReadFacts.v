(* PyReadFacts.v - the Python streaming reader model (Py.v) reads back exactly the content of
   well-formed uncompressed files as the Go writer model renders them.
   1. primitive round trips (ps_read, ps_uint, ps_pstr, the map loops, every rd_* of records.py)
      against the shared encoders of Records.v, with the stream continuing afterwards;
   2. one turn of the record loop (sr_iter);
   3. the whole-file theorem for stream_records;
   4. corollaries for NonSeekingReader. *)
From Coq Require Import List NArith ZArith Bool Lia ZifyN ZifyNat ZifyBool Permutation Sorted.
From Coq.Strings Require Import Byte.
From Mcap Require Import Bytes BytesFacts GoSem Crc32 Crc32Facts Records RecordsFacts Writer Lexer LexSpec Py.
Import ListNotations.
Open Scope N_scope.
Open Scope py_scope.

Arguments utf8_valid : simpl never.
Arguments py_crc : simpl never.
Arguments crc32 : simpl never.
Arguments crc_update : simpl never.
Arguments crc_final : simpl never.

(* ====================================================================== *)
(** * 0. bytes, crc *)

Lemma blen_app a b : blen (a ++ b) = blen a + blen b.
Proof. unfold blen. rewrite app_length. lia. Qed.
Lemma blen_nil : blen [] = 0.
Proof. reflexivity. Qed.
Lemma blen_cons x a : blen (x :: a) = 1 + blen a.
Proof. unfold blen. cbn [length]. lia. Qed.
Lemma blen_le n x : blen (le n x) = N.of_nat n.
Proof. unfold blen. rewrite le_length. reflexivity. Qed.
Lemma blen_u16 x : blen (u16 x) = 2. Proof. apply blen_le. Qed.
Lemma blen_u32 x : blen (u32 x) = 4. Proof. apply blen_le. Qed.
Lemma blen_u64 x : blen (u64 x) = 8. Proof. apply blen_le. Qed.

Lemma crc_final_invol x : crc_final (crc_final x) = x.
Proof. unfold crc_final. rewrite N.lxor_assoc, N.lxor_nilpotent, N.lxor_0_r. reflexivity. Qed.

Lemma py_crc_nil c : py_crc c [] = c.
Proof. unfold py_crc, crc_update. cbn [fold_left]. apply crc_final_invol. Qed.

Lemma py_crc_app c a b : py_crc (py_crc c a) b = py_crc c (a ++ b).
Proof. unfold py_crc. rewrite crc_final_invol, crc_update_app. reflexivity. Qed.

(* zlib.crc32(data, 0) is the CRC-32 of data *)
Lemma py_crc_0 d : py_crc 0 d = crc32 d.
Proof. reflexivity. Qed.

(* ====================================================================== *)
(** * 1. the stream after consuming D, with R still to come *)

Definition adv (s : ps) (D R : bytes) : ps :=
  {| ps_buf := R; ps_count := ps_count s + blen D;
     ps_crc := option_map (fun c => py_crc c D) (ps_crc s) |}.

(* s' is s after consuming exactly the bytes d *)
Definition advance (s : ps) (d : bytes) (s' : ps) : Prop :=
  ps_buf s = d ++ ps_buf s'
  /\ ps_count s' = ps_count s + blen d
  /\ ps_crc s' = option_map (fun c => py_crc c d) (ps_crc s).

Lemma adv_nil s : adv s [] (ps_buf s) = s.
Proof.
  destruct s as [b c k]. unfold adv. cbn [ps_buf ps_count ps_crc]. f_equal.
  - rewrite blen_nil. lia.
  - destruct k; cbn [option_map]; [rewrite py_crc_nil|]; reflexivity.
Qed.

Lemma adv_advance s d rest : ps_buf s = d ++ rest -> advance s d (adv s d rest).
Proof. intro H. unfold advance, adv. cbn [ps_buf ps_count ps_crc]. auto. Qed.

Lemma advance_unique s d s1 s2 : advance s d s1 -> advance s d s2 -> s1 = s2.
Proof.
  intros (B1 & C1 & K1) (B2 & C2 & K2). destruct s1 as [b1 c1 k1], s2 as [b2 c2 k2]. cbn [ps_buf ps_count ps_crc] in *.
  rewrite B1 in B2. apply app_inv_head in B2. congruence.
Qed.

Lemma adv_adv s D R d R' : adv (adv s D R) d R' = adv s (D ++ d) R'.
Proof.
  unfold adv. cbn [ps_buf ps_count ps_crc]. f_equal.
  - rewrite blen_app. lia.
  - destruct (ps_crc s); cbn [option_map]; [rewrite py_crc_app|]; reflexivity.
Qed.

Lemma ps_count_adv s D R : ps_count (adv s D R) = ps_count s + blen D.
Proof. reflexivity. Qed.
Lemma ps_buf_adv s D R : ps_buf (adv s D R) = R.
Proof. reflexivity. Qed.
Lemma ps_crc_adv s D R : ps_crc (adv s D R) = option_map (fun c => py_crc c D) (ps_crc s).
Proof. reflexivity. Qed.

(* from the "adv" form of a reader lemma to the form over an arbitrary stream *)
Lemma lift_adv {A} (f : ps -> pres (A * ps)) d x :
  (forall s D R, f (adv s D (d ++ R)) = POk (x, adv s (D ++ d) R)) ->
  forall s rest, ps_buf s = d ++ rest ->
    exists s', f s = POk (x, s') /\ advance s d s' /\ ps_buf s' = rest.
Proof.
  intros H s rest B. exists (adv s d rest). split; [|split].
  - rewrite <- (adv_nil s) at 1. rewrite B. rewrite H. reflexivity.
  - apply adv_advance, B.
  - reflexivity.
Qed.

(* ---------- the one lemma about the buffer ---------- *)
Lemma ps_read_adv s D d R : blen d < two63 ->
  ps_read (Z.of_N (blen d)) (adv s D (d ++ R)) = POk (d, adv s (D ++ d) R).
Proof.
  intro Hb. unfold ps_read.
  destruct d as [|b d].
  - cbn [blen length N.of_nat Z.of_N Z.eqb]. rewrite app_nil_r. reflexivity.
  - destruct (Z.eqb_spec (Z.of_N (blen (b :: d))) 0) as [E|_]; [rewrite blen_cons in E; lia|].
    destruct (Z.ltb_spec max_ssize (Z.of_N (blen (b :: d)))) as [E|_];
      [unfold max_ssize, two63 in *; lia|].
    destruct (Z.ltb_spec (Z.of_N (blen (b :: d))) 0) as [E|_]; [lia|].
    rewrite N2Z.id. unfold ptake, pdrop. rewrite ps_buf_adv.
    replace (N.to_nat (N.min (blen (b :: d)) (blen ((b :: d) ++ R)))) with (length (b :: d))
      by (rewrite blen_app; unfold blen; lia).
    rewrite firstn_app_exact, skipn_app_exact.
    cbv beta iota. rewrite ps_count_adv, ps_crc_adv.
    f_equal. f_equal. unfold adv. f_equal.
    + rewrite blen_app. lia.
    + destruct (ps_crc s); cbn [option_map]; [rewrite py_crc_app|]; reflexivity.
Qed.

(* read1/2/4/8 *)
Lemma ps_uint_adv k s D d R : length d = k -> (0 < k)%nat -> (k <= 8)%nat ->
  ps_uint k (adv s D (d ++ R)) = POk (unle d, adv s (D ++ d) R).
Proof.
  intros L K0 K8. unfold ps_uint.
  replace (Z.of_nat k) with (Z.of_N (blen d)) by (unfold blen; lia).
  rewrite ps_read_adv by (unfold blen, two63; lia).
  cbn [pbind]. rewrite L, Nat.eqb_refl. reflexivity.
Qed.

Lemma ps_u8_adv s D b R :
  ps_uint 1 (adv s D (b :: R)) = POk (Byte.to_N b, adv s (D ++ [b]) R).
Proof.
  change (b :: R) with ([b] ++ R). rewrite ps_uint_adv by (cbn [length]; lia).
  cbn [unle]. do 2 f_equal. lia.
Qed.
Lemma ps_u16_adv s D x R : x < two16 ->
  ps_uint 2 (adv s D (u16 x ++ R)) = POk (x, adv s (D ++ u16 x) R).
Proof. intro H. rewrite ps_uint_adv by (rewrite ?u16_length; lia). rewrite unle_u16 by exact H. reflexivity. Qed.
Lemma ps_u32_adv s D x R : x < two32 ->
  ps_uint 4 (adv s D (u32 x ++ R)) = POk (x, adv s (D ++ u32 x) R).
Proof. intro H. rewrite ps_uint_adv by (rewrite ?u32_length; lia). rewrite unle_u32 by exact H. reflexivity. Qed.
Lemma ps_u64_adv s D x R : x < two64 ->
  ps_uint 8 (adv s D (u64 x ++ R)) = POk (x, adv s (D ++ u64 x) R).
Proof. intro H. rewrite ps_uint_adv by (rewrite ?u64_length; lia). rewrite unle_u64 by exact H. reflexivity. Qed.
(* four bytes whose value is not looked at (the attachment crc) *)
Lemma ps_u32_any s D x R :
  ps_uint 4 (adv s D (u32 x ++ R)) = POk (x mod two32, adv s (D ++ u32 x) R).
Proof.
  rewrite ps_uint_adv by (rewrite ?u32_length; lia). unfold u32. rewrite unle_le. reflexivity.
Qed.

Lemma two32_lt_two63 x : x < two32 -> x < two63.
Proof. unfold two32, two63. lia. Qed.

(* str(read(n), "utf-8") *)
Lemma ps_str_adv s D str R : blen str < two63 -> utf8_valid str = true ->
  ps_str (blen str) (adv s D (str ++ R)) = POk (str, adv s (D ++ str) R).
Proof.
  intros Hb Hu. unfold ps_str. rewrite ps_read_adv by exact Hb. cbn [pbind]. rewrite Hu. reflexivity.
Qed.

(* read_prefixed_string, on the unfolded pstr *)
Lemma ps_pstr_adv s D str R : blen str < two32 -> utf8_valid str = true ->
  ps_pstr (adv s D (u32 (blen str) ++ str ++ R))
  = POk (str, adv s ((D ++ u32 (blen str)) ++ str) R).
Proof.
  intros Hb Hu. unfold ps_pstr. rewrite ps_u32_adv by exact Hb. cbn [pbind].
  apply ps_str_adv; [apply two32_lt_two63, Hb | exact Hu].
Qed.

(* length-prefixed raw bytes: read4 then read(n) *)
Lemma ps_pbytes_adv s D d R : blen d < two32 ->
  (let+ (n, s1) := ps_uint 4 (adv s D (u32 (blen d) ++ d ++ R)) in ps_read (Z.of_N n) s1)
  = POk (d, adv s ((D ++ u32 (blen d)) ++ d) R).
Proof.
  intros Hb. rewrite ps_u32_adv by exact Hb. cbn [pbind].
  apply ps_read_adv, two32_lt_two63, Hb.
Qed.
(* ====================================================================== *)
(** * 2. dict / list accumulation of the map loops *)

Definition pd_from (acc l : kvs) : kvs := fold_left (fun a kv => pd_set (fst kv) (snd kv) a) l acc.
Definition pd_build (l : kvs) : kvs := pd_from [] l.
Definition pn_from {A} (acc l : list (N * A)) : list (N * A) :=
  fold_left (fun a kv => pn_set (fst kv) (snd kv) a) l acc.
Definition pn_build {A} (l : list (N * A)) : list (N * A) := pn_from [] l.

Lemma pd_set_fresh k v acc : ~ In k (map fst acc) -> pd_set k v acc = acc ++ [(k, v)].
Proof.
  induction acc as [|x acc IH]; intro H; cbn [pd_set app]; [reflexivity|].
  cbn [map In] in H.
  destruct (bytes_eqb (fst x) k) eqn:E.
  - apply bytes_eqb_eq in E. tauto.
  - rewrite IH by tauto. reflexivity.
Qed.

Lemma pd_from_nodup l : forall acc, NoDup (map fst (acc ++ l)) -> pd_from acc l = acc ++ l.
Proof.
  induction l as [|[k v] l IH]; intros acc H; unfold pd_from; cbn [fold_left fst snd].
  - rewrite app_nil_r. reflexivity.
  - fold (pd_from (pd_set k v acc) l).
    assert (F : ~ In k (map fst acc)).
    { rewrite map_app in H. cbn [map fst] in H. apply NoDup_remove_2 in H.
      intro I. apply H. apply in_or_app. left. exact I. }
    rewrite pd_set_fresh by exact F. rewrite IH; rewrite <- app_assoc; [reflexivity | exact H].
Qed.

(* distinct keys: the dict lists the pairs in file order *)
Theorem pd_build_nodup l : NoDup (map fst l) -> pd_build l = l.
Proof. intro H. unfold pd_build. rewrite pd_from_nodup; [reflexivity | exact H]. Qed.

Theorem pd_build_kv_sort m : NoDup (map fst m) -> pd_build (kv_sort m) = kv_sort m.
Proof. intro H. apply pd_build_nodup, kv_sort_nodup, H. Qed.

Lemma pn_set_fresh {A} k (v : A) acc : ~ In k (map fst acc) -> pn_set k v acc = acc ++ [(k, v)].
Proof.
  induction acc as [|x acc IH]; intro H; cbn [pn_set app]; [reflexivity|].
  cbn [map In] in H.
  destruct (N.eqb_spec (fst x) k) as [E|E].
  - tauto.
  - rewrite IH by tauto. reflexivity.
Qed.

Lemma pn_from_nodup {A} (l : list (N * A)) : forall acc, NoDup (map fst (acc ++ l)) -> pn_from acc l = acc ++ l.
Proof.
  induction l as [|[k v] l IH]; intros acc H; unfold pn_from; cbn [fold_left fst snd].
  - rewrite app_nil_r. reflexivity.
  - fold (pn_from (pn_set k v acc) l).
    assert (F : ~ In k (map fst acc)).
    { rewrite map_app in H. cbn [map fst] in H. apply NoDup_remove_2 in H.
      intro I. apply H. apply in_or_app. left. exact I. }
    rewrite pn_set_fresh by exact F. rewrite IH; rewrite <- app_assoc; [reflexivity | exact H].
Qed.

Theorem pn_build_nodup {A} (l : list (N * A)) : NoDup (map fst l) -> pn_build l = l.
Proof. intro H. unfold pn_build. rewrite pn_from_nodup; [reflexivity | exact H]. Qed.

Lemma pn_get_set {A} k k' (v : A) l : pn_get k (pn_set k' v l) = if k' =? k then Some v else pn_get k l.
Proof.
  induction l as [|x l IH]; cbn [pn_set pn_get fst snd].
  - reflexivity.
  - destruct (N.eqb_spec (fst x) k') as [E|E]; cbn [pn_get fst snd].
    + subst k'. destruct (N.eqb_spec (fst x) k); reflexivity.
    + rewrite IH. destruct (N.eqb_spec (fst x) k) as [E2|E2]; [|reflexivity].
      subst k. destruct (N.eqb_spec k' (fst x)); [congruence|reflexivity].
Qed.

(* ====================================================================== *)
(** * 3. the three loops *)

(* keys and values are valid UTF-8 and short enough for their length prefix *)
Definition kv_ok (kv : bytes * bytes) : Prop :=
  wf_kv kv /\ utf8_valid (fst kv) = true /\ utf8_valid (snd kv) = true.

Lemma enc_kvs_body_unfold k v l :
  enc_kvs_body ((k, v) :: l) = u32 (blen k) ++ k ++ u32 (blen v) ++ v ++ enc_kvs_body l.
Proof. rewrite enc_kvs_body_cons. cbn [fst snd]. unfold pstr. rewrite <- !app_assoc. reflexivity. Qed.

Lemma ps_strmap_adv l : forall fuel stop s D R acc,
  Forall kv_ok l -> (length l < fuel)%nat ->
  stop = ps_count s + blen D + blen (enc_kvs_body l) ->
  ps_strmap fuel stop (adv s D (enc_kvs_body l ++ R)) acc
  = POk (pd_from acc l, adv s (D ++ enc_kvs_body l) R).
Proof.
  induction l as [|[k v] l IH]; intros fuel stop s D R acc F HF HS;
    (destruct fuel as [|fuel]; [cbn [length] in HF; lia|]); cbn [ps_strmap].
  - rewrite ps_count_adv. change (enc_kvs_body []) with (@nil byte) in *.
    rewrite blen_nil in HS.
    destruct (N.ltb_spec (ps_count s + blen D) stop); [lia|].
    rewrite app_nil_r. reflexivity.
  - rewrite ps_count_adv. rewrite enc_kvs_body_unfold in *.
    inversion F as [|? ? ((Hk & Hv) & Uk & Uv) F']; subst. cbn [fst snd] in *.
    rewrite !blen_app, !blen_u32 in *.
    match goal with |- context [N.ltb ?a ?b] => destruct (N.ltb_spec a b) end; [|lia].
    rewrite <- !app_assoc.
    rewrite ps_pstr_adv by assumption. cbn [pbind].
    rewrite ps_pstr_adv by assumption. cbn [pbind].
    rewrite (IH fuel _ s _ R).
    + unfold pd_from. cbn [fold_left fst snd]. rewrite <- !app_assoc. reflexivity.
    + exact F'.
    + cbn [length] in HF. lia.
    + rewrite !blen_app, !blen_u32. lia.
Qed.

Lemma enc_nn_body_cons k v l :
  concat (map enc_nn ((k, v) :: l)) = u16 k ++ u64 v ++ concat (map enc_nn l).
Proof. cbn [map concat]. unfold enc_nn at 1. cbn [fst snd]. rewrite <- app_assoc. reflexivity. Qed.
Lemma enc_mi_body_cons k v l :
  concat (map enc_mi_entry ((k, v) :: l)) = u64 k ++ u64 v ++ concat (map enc_mi_entry l).
Proof. cbn [map concat]. unfold enc_mi_entry at 1. cbn [fst snd]. rewrite <- app_assoc. reflexivity. Qed.

Lemma ps_nnmap_adv l : forall fuel stop s D R acc,
  Forall wf_nn l -> (length l < fuel)%nat ->
  stop = ps_count s + blen D + blen (concat (map enc_nn l)) ->
  ps_nnmap fuel stop (adv s D (concat (map enc_nn l) ++ R)) acc
  = POk (pn_from acc l, adv s (D ++ concat (map enc_nn l)) R).
Proof.
  induction l as [|[k v] l IH]; intros fuel stop s D R acc F HF HS;
    (destruct fuel as [|fuel]; [cbn [length] in HF; lia|]); cbn [ps_nnmap].
  - rewrite ps_count_adv. cbn [map concat] in *. rewrite blen_nil in HS.
    destruct (N.ltb_spec (ps_count s + blen D) stop); [lia|].
    rewrite app_nil_r. reflexivity.
  - rewrite ps_count_adv. rewrite enc_nn_body_cons in *.
    inversion F as [|? ? (Hk & Hv) F']; subst. cbn [fst snd] in *.
    rewrite !blen_app, blen_u16, blen_u64 in *.
    match goal with |- context [N.ltb ?a ?b] => destruct (N.ltb_spec a b) end; [|lia].
    rewrite <- !app_assoc.
    rewrite ps_u16_adv by assumption. cbn [pbind].
    rewrite ps_u64_adv by assumption. cbn [pbind].
    rewrite (IH fuel _ s _ R).
    + unfold pn_from. cbn [fold_left fst snd]. rewrite <- !app_assoc. reflexivity.
    + exact F'.
    + cbn [length] in HF. lia.
    + rewrite !blen_app, blen_u16, blen_u64. lia.
Qed.

Lemma ps_entries_adv l : forall fuel stop s D R acc,
  Forall wf_mi_entry l -> (length l < fuel)%nat ->
  stop = ps_count s + blen D + blen (concat (map enc_mi_entry l)) ->
  ps_entries fuel stop (adv s D (concat (map enc_mi_entry l) ++ R)) acc
  = POk (acc ++ l, adv s (D ++ concat (map enc_mi_entry l)) R).
Proof.
  induction l as [|[k v] l IH]; intros fuel stop s D R acc F HF HS;
    (destruct fuel as [|fuel]; [cbn [length] in HF; lia|]); cbn [ps_entries].
  - rewrite ps_count_adv. cbn [map concat] in *. rewrite blen_nil in HS.
    destruct (N.ltb_spec (ps_count s + blen D) stop); [lia|].
    rewrite !app_nil_r. reflexivity.
  - rewrite ps_count_adv. rewrite enc_mi_body_cons in *.
    inversion F as [|? ? (Hk & Hv) F']; subst. cbn [fst snd] in *.
    rewrite !blen_app, !blen_u64 in *.
    match goal with |- context [N.ltb ?a ?b] => destruct (N.ltb_spec a b) end; [|lia].
    rewrite <- !app_assoc.
    rewrite ps_u64_adv by assumption. cbn [pbind].
    rewrite ps_u64_adv by assumption. cbn [pbind].
    rewrite (IH fuel _ s _ R).
    + rewrite <- !app_assoc. reflexivity.
    + exact F'.
    + cbn [length] in HF. lia.
    + rewrite !blen_app, !blen_u64. lia.
Qed.
(* ====================================================================== *)
(** * 4. records.py: every reader against the shared encoder *)

Definition u8 (s : bytes) : Prop := utf8_valid s = true.

Lemma kv_ok_sort m : Forall kv_ok m -> Forall kv_ok (kv_sort m).
Proof. intro F. eapply Permutation_Forall; [apply kv_sort_perm | exact F]. Qed.

Ltac rd_go := repeat (first
  [ rewrite ps_u8_adv
  | rewrite ps_u16_adv by assumption
  | rewrite ps_u32_adv by assumption
  | rewrite ps_u64_adv by assumption
  | rewrite ps_pstr_adv by assumption
  | rewrite ps_str_adv by (assumption || (apply two32_lt_two63; assumption))
  | rewrite ps_read_adv by (assumption || (apply two32_lt_two63; assumption)) ]; cbn [pbind]).
Ltac rd_fin := rewrite <- ?app_assoc; reflexivity.

Definition pwf_header (h : header) : Prop := wf_header h /\ u8 (h_profile h) /\ u8 (h_library h).

Theorem rd_header_adv h s D R : pwf_header h ->
  rd_header (adv s D (enc_header h ++ R)) = POk (PHeader h, adv s (D ++ enc_header h) R).
Proof.
  destruct h as [p l]. unfold pwf_header, wf_header, u8, enc_header, rd_header, pstr. cbn [h_profile h_library].
  intros ((H1 & H2) & U1 & U2). rewrite <- !app_assoc. rd_go. rd_fin.
Qed.

Theorem rd_footer_adv f s D R : wf_footer f ->
  rd_footer (adv s D (enc_footer f ++ R)) = POk (PFooter f, adv s (D ++ enc_footer f) R).
Proof.
  destruct f as [a b c]. unfold wf_footer, enc_footer, rd_footer.
  cbn [f_summary_start f_summary_offset_start f_crc].
  intros (H1 & H2 & H3). rewrite <- !app_assoc. rd_go. rd_fin.
Qed.

Definition pwf_schema (x : schema) : Prop := wf_schema x /\ u8 (s_name x) /\ u8 (s_encoding x).

Theorem rd_schema_adv x s D R : pwf_schema x ->
  rd_schema (adv s D (enc_schema x ++ R)) = POk (PSchema x, adv s (D ++ enc_schema x) R).
Proof.
  destruct x as [id nm en da]. unfold pwf_schema, wf_schema, u8, enc_schema, rd_schema, pstr.
  cbn [s_id s_name s_encoding s_data].
  intros ((H1 & H2 & H3 & H4) & U1 & U2). rewrite <- !app_assoc. rd_go. rd_fin.
Qed.

(* what Python holds for a channel written with metadata m: the dict built from the pairs in
   file order (Go writes them sorted by key) *)
Definition py_channel (c : channel) : channel :=
  {| c_id := c_id c; c_schema := c_schema c; c_topic := c_topic c; c_menc := c_menc c;
     c_meta := pd_build (kv_sort (c_meta c)) |}.

Definition pwf_channel (c : channel) : Prop :=
  c_id c < two16 /\ c_schema c < two16 /\ blen (c_topic c) < two32 /\ blen (c_menc c) < two32
  /\ u8 (c_topic c) /\ u8 (c_menc c) /\ Forall kv_ok (c_meta c)
  /\ blen (enc_kvs_body (kv_sort (c_meta c))) < two32.

Lemma lfuel_kvs s D l R : (length l < lfuel (adv s D (enc_kvs_body l ++ R)))%nat.
Proof.
  unfold lfuel. rewrite ps_buf_adv, app_length. pose proof (enc_kvs_body_length_ge l). lia.
Qed.
Lemma lfuel_nn s D l R : (length l < lfuel (adv s D (concat (map enc_nn l) ++ R)))%nat.
Proof.
  unfold lfuel. rewrite ps_buf_adv, app_length, enc_nn_body_length. lia.
Qed.
Lemma lfuel_mi s D l R : (length l < lfuel (adv s D (concat (map enc_mi_entry l) ++ R)))%nat.
Proof.
  unfold lfuel. rewrite ps_buf_adv, app_length, enc_mi_body_length. lia.
Qed.

Theorem rd_channel_adv c s D R : pwf_channel c ->
  rd_channel (adv s D (enc_channel c ++ R)) = POk (PChannel (py_channel c), adv s (D ++ enc_channel c) R).
Proof.
  destruct c as [id sid tp me mt]. unfold pwf_channel, u8, enc_channel, enc_map, rd_channel, py_channel, pstr.
  cbn [c_id c_schema c_topic c_menc c_meta]. cbv zeta.
  intros (H1 & H2 & H3 & H4 & U1 & U2 & F & HB). rewrite <- !app_assoc. rd_go.
  rewrite (ps_strmap_adv (kv_sort mt)); [| apply kv_ok_sort, F | apply lfuel_kvs | reflexivity].
  cbn [pbind]. rd_fin.
Qed.

Theorem rd_message_adv m s D R : wf_message m -> blen (m_data m) < two63 ->
  rd_message (blen (enc_message m)) (adv s D (enc_message m ++ R))
  = POk (PMessage m, adv s (D ++ enc_message m) R).
Proof.
  destruct m as [ch sq lg pb da]. unfold wf_message, enc_message, rd_message.
  cbn [m_chan m_seq m_log m_pub m_data].
  intros (H1 & H2 & H3 & H4) HB.
  replace (Z.of_N (blen (u16 ch ++ u32 sq ++ u64 lg ++ u64 pb ++ da)) - 22)%Z with (Z.of_N (blen da))
    by (rewrite !blen_app, blen_u16, blen_u32, !blen_u64; lia).
  rewrite <- !app_assoc. rd_go. rd_fin.
Qed.

Definition pwf_chunk (k : chunk) : Prop :=
  k_start k < two64 /\ k_end k < two64 /\ k_usize k < two64 /\ k_crc k < two32
  /\ blen (k_comp k) < two32 /\ u8 (k_comp k) /\ blen (k_records k) < two63.

Theorem rd_chunk_adv k s D R : pwf_chunk k ->
  rd_chunk (adv s D (enc_chunk k ++ R)) = POk (PChunk k, adv s (D ++ enc_chunk k) R).
Proof.
  destruct k as [st en us crc comp recs]. unfold pwf_chunk, u8, enc_chunk, enc_chunk_top, rd_chunk, pstr.
  cbn [k_start k_end k_usize k_crc k_comp k_records].
  intros (H1 & H2 & H3 & H4 & H5 & U & H6).
  assert (H7 : blen recs < two64) by (unfold two63, two64 in *; lia).
  rewrite <- !app_assoc. rd_go. rd_fin.
Qed.

Theorem rd_msgindex_adv mi s D R : wf_msgindex mi ->
  rd_msgindex (adv s D (enc_msgindex mi ++ R)) = POk (PMsgIndex mi, adv s (D ++ enc_msgindex mi) R).
Proof.
  destruct mi as [ch es]. unfold wf_msgindex, enc_msgindex, rd_msgindex.
  cbn [mi_chan mi_entries]. cbv zeta.
  intros (H1 & F & HB).
  assert (HL : blen (concat (map enc_mi_entry es)) < two32)
    by (unfold blen; rewrite enc_mi_body_length; lia).
  rewrite <- !app_assoc. rd_go.
  rewrite (ps_entries_adv es); [| exact F | apply lfuel_mi | reflexivity].
  cbn [pbind app]. rd_fin.
Qed.

(* uint16 -> uint64 maps: the dict built from the pairs in file order *)
Definition py_chunkindex (ci : chunkindex) : chunkindex :=
  {| ci_start := ci_start ci; ci_end := ci_end ci; ci_offset := ci_offset ci; ci_length := ci_length ci;
     ci_mioffsets := pn_build (ci_mioffsets ci); ci_milength := ci_milength ci; ci_comp := ci_comp ci;
     ci_csize := ci_csize ci; ci_usize := ci_usize ci |}.

Definition pwf_chunkindex (ci : chunkindex) : Prop := wf_chunkindex ci /\ u8 (ci_comp ci).

Theorem rd_chunkindex_adv ci s D R : pwf_chunkindex ci ->
  rd_chunkindex (adv s D (enc_chunkindex ci ++ R))
  = POk (PChunkIndex (py_chunkindex ci), adv s (D ++ enc_chunkindex ci) R).
Proof.
  destruct ci as [st en off len mio mil comp cs us].
  unfold pwf_chunkindex, wf_chunkindex, u8, enc_chunkindex, rd_chunkindex, py_chunkindex, pstr.
  cbn [ci_start ci_end ci_offset ci_length ci_mioffsets ci_milength ci_comp ci_csize ci_usize]. cbv zeta.
  intros ((H1 & H2 & H3 & H4 & F & HB & H5 & H6 & H7 & H8) & U).
  assert (HL : blen (concat (map enc_nn mio)) < two32)
    by (unfold blen; rewrite enc_nn_body_length; lia).
  rewrite <- !app_assoc. rd_go.
  rewrite (ps_nnmap_adv mio); [| exact F | apply lfuel_nn | reflexivity].
  cbn [pbind]. rd_go. rd_fin.
Qed.

(* the attachment record as Python returns it: data_size is the length of the data read *)
Definition py_attachment (a : attachment) (data : bytes) : attachment :=
  {| a_log := a_log a; a_create := a_create a; a_name := a_name a; a_media := a_media a;
     a_size := blen data; a_data := data |}.

Definition pwf_attachment (a : attachment) (data : bytes) : Prop :=
  a_log a < two64 /\ a_create a < two64 /\ blen (a_name a) < two32 /\ blen (a_media a) < two32
  /\ u8 (a_name a) /\ u8 (a_media a) /\ a_size a = blen data /\ blen data < two63.

(* the crc is read and ignored, whatever it is *)
Theorem rd_attachment_adv a data crc s D R : pwf_attachment a data ->
  rd_attachment (adv s D ((enc_attachment_fields a ++ data ++ u32 crc) ++ R))
  = POk (PAttachment (py_attachment a data), adv s (D ++ enc_attachment_fields a ++ data ++ u32 crc) R).
Proof.
  destruct a as [lg cr nm me sz da].
  unfold pwf_attachment, u8, enc_attachment_fields, rd_attachment, py_attachment, pstr.
  cbn [a_log a_create a_name a_media a_size a_data].
  intros (H1 & H2 & H3 & H4 & U1 & U2 & HS & HB). subst sz.
  assert (H7 : blen data < two64) by (unfold two63, two64 in *; lia).
  rewrite <- !app_assoc. rd_go. rewrite ps_u32_any. cbn [pbind]. rd_fin.
Qed.

Definition pwf_attindex (ai : attindex) : Prop := wf_attindex ai /\ u8 (ai_name ai) /\ u8 (ai_media ai).

Theorem rd_attindex_adv ai s D R : pwf_attindex ai ->
  rd_attindex (adv s D (enc_attindex ai ++ R)) = POk (PAttIndex ai, adv s (D ++ enc_attindex ai) R).
Proof.
  destruct ai as [off len lg cr sz nm me]. unfold pwf_attindex, wf_attindex, u8, enc_attindex, rd_attindex, pstr.
  cbn [ai_offset ai_length ai_log ai_create ai_size ai_name ai_media].
  intros ((H1 & H2 & H3 & H4 & H5 & H6 & H7) & U1 & U2). rewrite <- !app_assoc. rd_go. rd_fin.
Qed.

Definition py_statistics (st : statistics) : statistics :=
  {| st_messages := st_messages st; st_schemas := st_schemas st; st_channels := st_channels st;
     st_attachments := st_attachments st; st_metadata := st_metadata st; st_chunks := st_chunks st;
     st_start := st_start st; st_end := st_end st; st_counts := pn_build (st_counts st) |}.

Theorem rd_statistics_adv st s D R : wf_statistics st ->
  rd_statistics (adv s D (enc_statistics st ++ R))
  = POk (PStatistics (py_statistics st), adv s (D ++ enc_statistics st) R).
Proof.
  destruct st as [mc sc cc ac mdc kc st en cnt].
  unfold wf_statistics, enc_statistics, rd_statistics, py_statistics.
  cbn [st_messages st_schemas st_channels st_attachments st_metadata st_chunks st_start st_end st_counts].
  cbv zeta.
  intros (H1 & H2 & H3 & H4 & H5 & H6 & H7 & H8 & F & HB).
  assert (HL : blen (concat (map enc_nn cnt)) < two32)
    by (unfold blen; rewrite enc_nn_body_length; lia).
  rewrite <- !app_assoc. rd_go.
  rewrite (ps_nnmap_adv cnt); [| exact F | apply lfuel_nn | reflexivity].
  cbn [pbind]. rd_fin.
Qed.

Definition py_metadata (m : metadata) : metadata :=
  {| md_name := md_name m; md_meta := pd_build (kv_sort (md_meta m)) |}.

Definition pwf_metadata (m : metadata) : Prop :=
  blen (md_name m) < two32 /\ u8 (md_name m) /\ Forall kv_ok (md_meta m)
  /\ blen (enc_kvs_body (kv_sort (md_meta m))) < two32.

Theorem rd_metadata_adv m s D R : pwf_metadata m ->
  rd_metadata (adv s D (enc_metadata m ++ R)) = POk (PMetadata (py_metadata m), adv s (D ++ enc_metadata m) R).
Proof.
  destruct m as [nm mt]. unfold pwf_metadata, u8, enc_metadata, enc_map, rd_metadata, py_metadata, pstr.
  cbn [md_name md_meta]. cbv zeta.
  intros (H1 & U1 & F & HB). rewrite <- !app_assoc. rd_go.
  rewrite (ps_strmap_adv (kv_sort mt)); [| apply kv_ok_sort, F | apply lfuel_kvs | reflexivity].
  cbn [pbind]. rd_fin.
Qed.

Definition pwf_mdindex (x : mdindex) : Prop := wf_mdindex x /\ u8 (mx_name x).

Theorem rd_mdindex_adv x s D R : pwf_mdindex x ->
  rd_mdindex (adv s D (enc_mdindex x ++ R)) = POk (PMdIndex x, adv s (D ++ enc_mdindex x) R).
Proof.
  destruct x as [off len nm]. unfold pwf_mdindex, wf_mdindex, u8, enc_mdindex, rd_mdindex, pstr.
  cbn [mx_offset mx_length mx_name].
  intros ((H1 & H2 & H3) & U1). rewrite <- !app_assoc. rd_go. rd_fin.
Qed.

Theorem rd_sumoffset_adv x s D R : wf_sumoffset x ->
  rd_sumoffset (adv s D (enc_sumoffset x ++ R)) = POk (PSumOffset x, adv s (D ++ enc_sumoffset x) R).
Proof.
  destruct x as [op st len]. unfold wf_sumoffset, enc_sumoffset, rd_sumoffset.
  cbn [so_op so_start so_length].
  intros (H1 & H2). cbn [app]. rewrite <- ?app_assoc. rd_go. rewrite byte_of_N_to_N.
  rewrite <- ?app_assoc. cbn [app]. reflexivity.
Qed.

Theorem rd_dataend_adv d s D R : wf_dataend d ->
  rd_dataend (adv s D (enc_dataend d ++ R)) = POk (PDataEnd d, adv s (D ++ enc_dataend d) R).
Proof.
  destruct d as [c]. unfold wf_dataend, enc_dataend, rd_dataend. cbn [de_crc].
  intros H1. rd_go. rd_fin.
Qed.
(* ---------- the same statements over an arbitrary stream (any count, any crc state) ---------- *)
Definition reads_as (f : ps -> pres (prec * ps)) (enc : bytes) (x : prec) : Prop :=
  forall s rest, ps_buf s = enc ++ rest ->
    exists s', f s = POk (x, s') /\ advance s enc s' /\ ps_buf s' = rest.

Theorem rd_header_stream h : pwf_header h -> reads_as rd_header (enc_header h) (PHeader h).
Proof. intros W. unfold reads_as; apply (lift_adv rd_header). intros. apply rd_header_adv, W. Qed.
Theorem rd_footer_stream f : wf_footer f -> reads_as rd_footer (enc_footer f) (PFooter f).
Proof. intros W. unfold reads_as; apply (lift_adv rd_footer). intros. apply rd_footer_adv, W. Qed.
Theorem rd_schema_stream x : pwf_schema x -> reads_as rd_schema (enc_schema x) (PSchema x).
Proof. intros W. unfold reads_as; apply (lift_adv rd_schema). intros. apply rd_schema_adv, W. Qed.
Theorem rd_channel_stream c : pwf_channel c -> reads_as rd_channel (enc_channel c) (PChannel (py_channel c)).
Proof. intros W. unfold reads_as; apply (lift_adv rd_channel). intros. apply rd_channel_adv, W. Qed.
Theorem rd_message_stream m : wf_message m -> blen (m_data m) < two63 ->
  reads_as (rd_message (blen (enc_message m))) (enc_message m) (PMessage m).
Proof. intros W B. unfold reads_as; apply (lift_adv (rd_message _)). intros. apply rd_message_adv; assumption. Qed.
Theorem rd_chunk_stream k : pwf_chunk k -> reads_as rd_chunk (enc_chunk k) (PChunk k).
Proof. intros W. unfold reads_as; apply (lift_adv rd_chunk). intros. apply rd_chunk_adv, W. Qed.
Theorem rd_msgindex_stream mi : wf_msgindex mi -> reads_as rd_msgindex (enc_msgindex mi) (PMsgIndex mi).
Proof. intros W. unfold reads_as; apply (lift_adv rd_msgindex). intros. apply rd_msgindex_adv, W. Qed.
Theorem rd_chunkindex_stream ci : pwf_chunkindex ci ->
  reads_as rd_chunkindex (enc_chunkindex ci) (PChunkIndex (py_chunkindex ci)).
Proof. intros W. unfold reads_as; apply (lift_adv rd_chunkindex). intros. apply rd_chunkindex_adv, W. Qed.
Theorem rd_attachment_stream a data crc : pwf_attachment a data ->
  reads_as rd_attachment (enc_attachment_fields a ++ data ++ u32 crc) (PAttachment (py_attachment a data)).
Proof. intros W. unfold reads_as; apply (lift_adv rd_attachment). intros. apply rd_attachment_adv, W. Qed.
Theorem rd_attindex_stream ai : pwf_attindex ai -> reads_as rd_attindex (enc_attindex ai) (PAttIndex ai).
Proof. intros W. unfold reads_as; apply (lift_adv rd_attindex). intros. apply rd_attindex_adv, W. Qed.
Theorem rd_statistics_stream st : wf_statistics st ->
  reads_as rd_statistics (enc_statistics st) (PStatistics (py_statistics st)).
Proof. intros W. unfold reads_as; apply (lift_adv rd_statistics). intros. apply rd_statistics_adv, W. Qed.
Theorem rd_metadata_stream m : pwf_metadata m ->
  reads_as rd_metadata (enc_metadata m) (PMetadata (py_metadata m)).
Proof. intros W. unfold reads_as; apply (lift_adv rd_metadata). intros. apply rd_metadata_adv, W. Qed.
Theorem rd_mdindex_stream x : pwf_mdindex x -> reads_as rd_mdindex (enc_mdindex x) (PMdIndex x).
Proof. intros W. unfold reads_as; apply (lift_adv rd_mdindex). intros. apply rd_mdindex_adv, W. Qed.
Theorem rd_sumoffset_stream x : wf_sumoffset x -> reads_as rd_sumoffset (enc_sumoffset x) (PSumOffset x).
Proof. intros W. unfold reads_as; apply (lift_adv rd_sumoffset). intros. apply rd_sumoffset_adv, W. Qed.
Theorem rd_dataend_stream d : wf_dataend d -> reads_as rd_dataend (enc_dataend d) (PDataEnd d).
Proof. intros W. unfold reads_as; apply (lift_adv rd_dataend). intros. apply rd_dataend_adv, W. Qed.

(* with distinct keys the maps are exactly what was written (Go's order) *)
Lemma py_channel_nodup c : NoDup (map fst (c_meta c)) -> py_channel c = channel_norm c.
Proof. intro H. unfold py_channel, channel_norm. rewrite pd_build_kv_sort by exact H. reflexivity. Qed.
Lemma py_metadata_nodup m : NoDup (map fst (md_meta m)) -> py_metadata m = metadata_norm m.
Proof. intro H. unfold py_metadata, metadata_norm. rewrite pd_build_kv_sort by exact H. reflexivity. Qed.
Lemma py_statistics_nodup st : NoDup (map fst (st_counts st)) -> py_statistics st = st.
Proof. intro H. destruct st as [a1 a2 a3 a4 a5 a6 a7 a8 cnt]. unfold py_statistics. cbn [st_counts] in *. rewrite pn_build_nodup by exact H. reflexivity. Qed.
Lemma py_chunkindex_nodup ci : NoDup (map fst (ci_mioffsets ci)) -> py_chunkindex ci = ci.
Proof. intro H. destruct ci as [a1 a2 a3 a4 mio a6 a7 a8 a9]. unfold py_chunkindex. cbn [ci_mioffsets] in *. rewrite pn_build_nodup by exact H. reflexivity. Qed.

(* ====================================================================== *)
(** * 5. StreamReader._read_record and one turn of the record loop *)

Definition rec_op (r : prec) : byte :=
  match r with
  | PHeader _ => OpHeader | PFooter _ => OpFooter | PSchema _ => OpSchema | PChannel _ => OpChannel
  | PMessage _ => OpMessage | PChunk _ => OpChunk | PMsgIndex _ => OpMessageIndex
  | PChunkIndex _ => OpChunkIndex | PAttachment _ => OpAttachment | PAttIndex _ => OpAttachmentIndex
  | PStatistics _ => OpStatistics | PMetadata _ => OpMetadata | PMdIndex _ => OpMetadataIndex
  | PSumOffset _ => OpSummaryOffset | PDataEnd _ => OpDataEnd
  end.

(* the record body as Go encodes it (an attachment with its correct CRC) *)
Definition rec_body (r : prec) : bytes :=
  match r with
  | PHeader h => enc_header h | PFooter f => enc_footer f | PSchema x => enc_schema x
  | PChannel c => enc_channel c | PMessage m => enc_message m | PChunk k => enc_chunk k
  | PMsgIndex mi => enc_msgindex mi | PChunkIndex ci => enc_chunkindex ci
  | PAttachment a => enc_attachment_fields a ++ a_data a ++ u32 (crc32 (enc_attachment_fields a ++ a_data a))
  | PAttIndex ai => enc_attindex ai | PStatistics st => enc_statistics st | PMetadata m => enc_metadata m
  | PMdIndex x => enc_mdindex x | PSumOffset x => enc_sumoffset x | PDataEnd d => enc_dataend d
  end.

(* the record Python builds from it *)
Definition py_norm (r : prec) : prec :=
  match r with
  | PChannel c => PChannel (py_channel c)
  | PChunkIndex ci => PChunkIndex (py_chunkindex ci)
  | PAttachment a => PAttachment (py_attachment a (a_data a))
  | PStatistics st => PStatistics (py_statistics st)
  | PMetadata m => PMetadata (py_metadata m)
  | x => x
  end.

Definition pwf_rec (r : prec) : Prop :=
  match r with
  | PHeader h => pwf_header h | PFooter f => wf_footer f | PSchema x => pwf_schema x
  | PChannel c => pwf_channel c | PMessage m => wf_message m /\ blen (m_data m) < two63
  | PChunk k => pwf_chunk k | PMsgIndex mi => wf_msgindex mi | PChunkIndex ci => pwf_chunkindex ci
  | PAttachment a => pwf_attachment a (a_data a) | PAttIndex ai => pwf_attindex ai
  | PStatistics st => wf_statistics st | PMetadata m => pwf_metadata m | PMdIndex x => pwf_mdindex x
  | PSumOffset x => wf_sumoffset x | PDataEnd d => wf_dataend d
  end.

Lemma some_rec_ok x s : some_rec (POk (x, s)) = POk (Some x, s).
Proof. reflexivity. Qed.

Theorem read_record_adv r s D R : pwf_rec r ->
  read_record (Byte.to_N (rec_op r)) (blen (rec_body r)) (adv s D (rec_body r ++ R))
  = POk (Some (py_norm r), adv s (D ++ rec_body r) R).
Proof.
  destruct r; cbn [rec_op rec_body py_norm pwf_rec]; intro W.
  - change (read_record _ ?l ?st) with (some_rec (rd_header st)). rewrite rd_header_adv by exact W. reflexivity.
  - change (read_record _ ?l ?st) with (some_rec (rd_footer st)). rewrite rd_footer_adv by exact W. reflexivity.
  - change (read_record _ ?l ?st) with (some_rec (rd_schema st)). rewrite rd_schema_adv by exact W. reflexivity.
  - change (read_record _ ?l ?st) with (some_rec (rd_channel st)). rewrite rd_channel_adv by exact W. reflexivity.
  - change (read_record _ ?l ?st) with (some_rec (rd_message l st)). destruct W as [W B].
    rewrite rd_message_adv by assumption. reflexivity.
  - change (read_record _ ?l ?st) with (some_rec (rd_chunk st)). rewrite rd_chunk_adv by exact W. reflexivity.
  - change (read_record _ ?l ?st) with (some_rec (rd_msgindex st)). rewrite rd_msgindex_adv by exact W. reflexivity.
  - change (read_record _ ?l ?st) with (some_rec (rd_chunkindex st)). rewrite rd_chunkindex_adv by exact W. reflexivity.
  - change (read_record _ ?l ?st) with (some_rec (rd_attachment st)). rewrite rd_attachment_adv by exact W. reflexivity.
  - change (read_record _ ?l ?st) with (some_rec (rd_attindex st)). rewrite rd_attindex_adv by exact W. reflexivity.
  - change (read_record _ ?l ?st) with (some_rec (rd_statistics st)). rewrite rd_statistics_adv by exact W. reflexivity.
  - change (read_record _ ?l ?st) with (some_rec (rd_metadata st)). rewrite rd_metadata_adv by exact W. reflexivity.
  - change (read_record _ ?l ?st) with (some_rec (rd_mdindex st)). rewrite rd_mdindex_adv by exact W. reflexivity.
  - change (read_record _ ?l ?st) with (some_rec (rd_sumoffset st)). rewrite rd_sumoffset_adv by exact W. reflexivity.
  - change (read_record _ ?l ?st) with (some_rec (rd_dataend st)). rewrite rd_dataend_adv by exact W. reflexivity.
Qed.

(* opcodes StreamReader knows *)
Definition py_known (op : byte) : bool := (1 <=? Byte.to_N op) && (Byte.to_N op <=? 15).

Theorem read_record_unknown op body s D R : py_known op = false -> blen body < two63 ->
  read_record (Byte.to_N op) (blen body) (adv s D (body ++ R)) = POk (None, adv s (D ++ body) R).
Proof.
  intros K B. unfold py_known in K. unfold read_record.
  repeat match goal with |- context [N.eqb ?a ?b] => destruct (N.eqb_spec a b); [lia|] end.
  rewrite ps_read_adv by exact B. reflexivity.
Qed.
(* ---------- sr_iter ---------- *)
Definition limit_ok (lim : option N) (n : N) : Prop :=
  match lim with Some l => n <= l | None => True end.

(* the running crc the DataEnd check compares with *)
Definition crc_before (r : sr) : N :=
  if sr_validate r && negb (sr_skip r) then match ps_crc (sr_s r) with Some c => c | None => 0 end else 0.

Definition dataend_bad (r : sr) (rec : option prec) : bool :=
  sr_validate r && negb (sr_skip r) &&
  match rec with
  | Some (PDataEnd d) => negb (de_crc d =? 0) && negb (de_crc d =? crc_before r)
  | _ => false
  end.

Lemma frame_unfold op body R : frame op body ++ R = op :: u64 (blen body) ++ body ++ R.
Proof. unfold frame, frame_head. cbn [app]. rewrite <- app_assoc. reflexivity. Qed.

Lemma frame_split D op body : (D ++ [op]) ++ u64 (blen body) = D ++ frame_head op (blen body).
Proof. unfold frame_head. rewrite <- app_assoc. reflexivity. Qed.

(* one turn of the loop on a stream that starts with a framed record whose body read_record
   consumes exactly *)
Lemma sr_iter_frame r s0 D op body R rec :
  sr_s r = adv s0 D (frame op body ++ R) ->
  blen body < two64 -> limit_ok (sr_limit r) (blen body) ->
  read_record (Byte.to_N op) (blen body) (adv s0 (D ++ frame_head op (blen body)) (body ++ R))
    = POk (rec, adv s0 ((D ++ frame_head op (blen body)) ++ body) R) ->
  sr_iter r =
    if dataend_bad r rec then PRaise PCrc else
    match rec with
    | Some (PChunk k) =>
      if sr_emit r then POk ([PChunk k], false, adv s0 (D ++ frame op body) R)
      else let+ inner := breakup_chunk k (sr_validate r) in POk (inner, false, adv s0 (D ++ frame op body) R)
    | Some x => POk ([x], is_footer rec, adv s0 (D ++ frame op body) R)
    | None => POk ([], false, adv s0 (D ++ frame op body) R)
    end.
Proof.
  intros HS HB HL HR. unfold sr_iter, dataend_bad, crc_before. cbv zeta.
  replace (ps_uint 1 (sr_s r)) with (ps_uint 1 (adv s0 D (frame op body ++ R))) by (rewrite HS; reflexivity).
  rewrite frame_unfold.
  rewrite ps_u8_adv. cbn [pbind]. rewrite ps_u64_adv by exact HB. cbn [pbind].
  replace (match sr_limit r with Some lim => lim <? blen body | None => false end) with false.
  2:{ unfold limit_ok in HL. destruct (sr_limit r); [|reflexivity]. symmetry. apply N.ltb_ge. exact HL. }
  rewrite frame_split, HR. cbn [pbind].
  match goal with |- (if ?c then _ else _) = (if ?c' then _ else _) => change c' with c; destruct c end;
    [reflexivity|].
  rewrite !ps_count_adv, blen_app.
  match goal with |- context [Z.ltb 0 ?p] => replace (Z.ltb 0 p) with false by lia end.
  cbn [pbind].
  replace ((D ++ frame_head op (blen body)) ++ body) with (D ++ frame op body)
    by (unfold frame; rewrite <- app_assoc; reflexivity).
  reflexivity.
Qed.

Definition is_chunk (x : prec) : bool := match x with PChunk _ => true | _ => false end.
Definition is_dataend (x : prec) : bool := match x with PDataEnd _ => true | _ => false end.

Lemma frame_head_app D op body : (D ++ frame_head op (blen body)) ++ body = D ++ frame op body.
Proof. unfold frame. rewrite <- app_assoc. reflexivity. Qed.

(* every known record except Chunk (DataEnd: when the CRC check lets it through) *)
Theorem sr_iter_rec r s0 D x R :
  sr_s r = adv s0 D (frame (rec_op x) (rec_body x) ++ R) ->
  pwf_rec x -> is_chunk x = false ->
  blen (rec_body x) < two64 -> limit_ok (sr_limit r) (blen (rec_body x)) ->
  dataend_bad r (Some x) = false ->
  sr_iter r = POk ([py_norm x], is_footer (Some x), adv s0 (D ++ frame (rec_op x) (rec_body x)) R).
Proof.
  intros HS W NC HB HL HD.
  rewrite (sr_iter_frame r s0 D _ _ R (Some (py_norm x)) HS HB HL)
    by (apply read_record_adv, W).
  replace (dataend_bad r (Some (py_norm x))) with (dataend_bad r (Some x)) by (destruct x; reflexivity).
  rewrite HD. destruct x; try discriminate NC; reflexivity.
Qed.

(* DataEnd: with validation on and the magic not skipped, the check passes iff the field is 0 or
   equals the running crc before the record *)
Theorem sr_iter_dataend r s0 D d R :
  sr_s r = adv s0 D (frame OpDataEnd (enc_dataend d) ++ R) ->
  wf_dataend d -> limit_ok (sr_limit r) 4 ->
  sr_iter r =
    if sr_validate r && negb (sr_skip r) && negb (de_crc d =? 0)
       && negb (de_crc d =? match ps_crc (sr_s r) with Some c => c | None => 0 end)
    then PRaise PCrc
    else POk ([PDataEnd d], false, adv s0 (D ++ frame OpDataEnd (enc_dataend d)) R).
Proof.
  intros HS W HL.
  assert (B4 : blen (enc_dataend d) = 4) by apply blen_u32.
  rewrite (sr_iter_frame r s0 D _ _ R (Some (PDataEnd d)) HS).
  - unfold dataend_bad, crc_before.
    destruct (sr_validate r && negb (sr_skip r)); cbn [andb]; [|reflexivity].
    destruct (negb (de_crc d =? 0) && negb (de_crc d =? _)); reflexivity.
  - rewrite B4. unfold two64. lia.
  - rewrite B4. exact HL.
  - apply (read_record_adv (PDataEnd d)). exact W.
Qed.

Theorem sr_iter_unknown r s0 D op body R :
  sr_s r = adv s0 D (frame op body ++ R) ->
  py_known op = false -> blen body < two63 -> limit_ok (sr_limit r) (blen body) ->
  sr_iter r = POk ([], false, adv s0 (D ++ frame op body) R).
Proof.
  intros HS K HB HL.
  rewrite (sr_iter_frame r s0 D _ _ R None HS).
  - unfold dataend_bad. rewrite andb_false_r. reflexivity.
  - unfold two63, two64 in *. lia.
  - exact HL.
  - apply read_record_unknown; assumption.
Qed.

Theorem sr_iter_chunk r s0 D k R :
  sr_s r = adv s0 D (frame OpChunk (enc_chunk k) ++ R) ->
  pwf_chunk k -> blen (enc_chunk k) < two64 -> limit_ok (sr_limit r) (blen (enc_chunk k)) ->
  sr_iter r =
    if sr_emit r then POk ([PChunk k], false, adv s0 (D ++ frame OpChunk (enc_chunk k)) R)
    else let+ inner := breakup_chunk k (sr_validate r) in
         POk (inner, false, adv s0 (D ++ frame OpChunk (enc_chunk k)) R).
Proof.
  intros HS W HB HL.
  rewrite (sr_iter_frame r s0 D _ _ R (Some (PChunk k)) HS HB HL).
  - unfold dataend_bad. rewrite andb_false_r. reflexivity.
  - apply (read_record_adv (PChunk k)). exact W.
Qed.

(* ---------- breakup_chunk ---------- *)
Inductive pinner :=
| NSchema (x : schema) | NChannel (c : channel) | NMessage (m : message)
| NOther (op : byte) (body : bytes).

Definition inner_op (i : pinner) : byte :=
  match i with NSchema _ => OpSchema | NChannel _ => OpChannel | NMessage _ => OpMessage | NOther op _ => op end.
Definition inner_body (i : pinner) : bytes :=
  match i with NSchema x => enc_schema x | NChannel c => enc_channel c | NMessage m => enc_message m
             | NOther _ body => body end.
Definition inner_bytes (i : pinner) : bytes := frame (inner_op i) (inner_body i).
Definition inner_recs (i : pinner) : list prec :=
  match i with NSchema x => [PSchema x] | NChannel c => [PChannel (py_channel c)] | NMessage m => [PMessage m]
             | NOther _ _ => [] end.
(* opcodes breakup_chunk looks at *)
Definition inner_kept (op : byte) : bool :=
  (Byte.to_N op =? 3) || (Byte.to_N op =? 4) || (Byte.to_N op =? 5).
Definition pwf_inner (i : pinner) : Prop :=
  blen (inner_body i) < two63 /\
  match i with
  | NSchema x => pwf_schema x | NChannel c => pwf_channel c | NMessage m => wf_message m
  | NOther op _ => inner_kept op = false
  end.

Definition chunk_bytes (l : list pinner) : bytes := concat (map inner_bytes l).
Definition chunk_recs (l : list pinner) : list prec := flat_map inner_recs l.

Lemma message_data_bound m : blen (enc_message m) < two63 -> blen (m_data m) < two63.
Proof. unfold enc_message. rewrite !blen_app. lia. Qed.

Lemma breakup_loop_adv l : forall fuel total s D acc,
  Forall pwf_inner l -> (length l < fuel)%nat ->
  total = ps_count s + blen D + blen (chunk_bytes l) ->
  breakup_loop fuel total (adv s D (chunk_bytes l)) acc = POk (acc ++ chunk_recs l).
Proof.
  induction l as [|i l IH]; intros fuel total s D acc F HF HT;
    (destruct fuel as [|fuel]; [cbn [length] in HF; lia|]); cbn [breakup_loop].
  - rewrite ps_count_adv. change (chunk_bytes []) with (@nil byte) in HT. rewrite blen_nil in HT.
    destruct (N.ltb_spec (ps_count s + blen D) total); [lia|]. rewrite app_nil_r. reflexivity.
  - rewrite ps_count_adv.
    change (chunk_bytes (i :: l)) with (inner_bytes i ++ chunk_bytes l) in *.
    inversion F as [|? ? (B & W) F']; subst.
    unfold inner_bytes in *. rewrite blen_app in *.
    assert (0 < blen (frame (inner_op i) (inner_body i)))
      by (unfold blen; rewrite frame_length; lia).
    match goal with |- context [N.ltb ?a ?b] => destruct (N.ltb_spec a b) end; [|lia].
    rewrite frame_unfold. rewrite ps_u8_adv. cbn [pbind].
    rewrite ps_u64_adv by (unfold two63, two64 in *; lia). cbn [pbind].
    rewrite frame_split.
    assert (NX : forall acc',
      breakup_loop fuel (ps_count s + blen D + (blen (frame (inner_op i) (inner_body i)) + blen (chunk_bytes l)))
        (adv s ((D ++ frame_head (inner_op i) (blen (inner_body i))) ++ inner_body i) (chunk_bytes l)) acc'
      = POk (acc' ++ chunk_recs l)).
    { intro acc'. apply IH; [exact F' | cbn [length] in HF; lia |].
      rewrite frame_head_app, blen_app. lia. }
    destruct i as [x|c|m|op body]; cbn [inner_op inner_body inner_recs] in *.
    + change (Byte.to_N OpSchema) with 3. cbn [N.eqb Pos.eqb].
      rewrite rd_schema_adv by exact W. cbn [pbind]. rewrite NX.
      unfold chunk_recs. cbn [flat_map inner_recs]. rewrite <- app_assoc. reflexivity.
    + change (Byte.to_N OpChannel) with 4. cbn [N.eqb Pos.eqb].
      rewrite rd_channel_adv by exact W. cbn [pbind]. rewrite NX.
      unfold chunk_recs. cbn [flat_map inner_recs]. rewrite <- app_assoc. reflexivity.
    + change (Byte.to_N OpMessage) with 5. cbn [N.eqb Pos.eqb].
      rewrite rd_message_adv by (try exact W; apply message_data_bound, B). cbn [pbind]. rewrite NX.
      unfold chunk_recs. cbn [flat_map inner_recs]. rewrite <- app_assoc. reflexivity.
    + unfold inner_kept in W. apply orb_false_iff in W. destruct W as [W W5].
      apply orb_false_iff in W. destruct W as [W3 W4].
      rewrite W3, W4, W5. rewrite ps_read_adv by exact B. cbn [pbind]. rewrite NX.
      unfold chunk_recs. cbn [flat_map inner_recs app]. reflexivity.
Qed.

(* the uncompressed chunk Go writes for these inner records *)
Definition mk_chunk (st en crc : N) (l : list pinner) : chunk :=
  {| k_start := st; k_end := en; k_usize := blen (chunk_bytes l); k_crc := crc; k_comp := [];
     k_records := chunk_bytes l |}.

Definition chunk_crc_ok (validate : bool) (crc : N) (l : list pinner) : Prop :=
  validate = true -> crc = 0 \/ crc = crc32 (chunk_bytes l).

Lemma chunk_bytes_length l : (9 * length l <= length (chunk_bytes l))%nat.
Proof.
  induction l as [|i l IH]; [cbn; lia|].
  change (chunk_bytes (i :: l)) with (inner_bytes i ++ chunk_bytes l).
  rewrite app_length. unfold inner_bytes. rewrite frame_length. cbn [length]. lia.
Qed.

Theorem breakup_chunk_ok st en crc l validate :
  Forall pwf_inner l -> chunk_crc_ok validate crc l ->
  breakup_chunk (mk_chunk st en crc l) validate = POk (chunk_recs l).
Proof.
  intros F C. unfold breakup_chunk, mk_chunk. cbn [k_comp k_records k_crc bytes_eqb orb].
  replace (validate && negb (crc =? 0) && negb (crc32 (chunk_bytes l) =? crc)) with false.
  2:{ symmetry. destruct validate; [|reflexivity]. destruct (C eq_refl) as [E|E]; subst crc.
      - reflexivity.
      - rewrite N.eqb_refl. cbn [negb andb]. apply andb_false_r. }
  rewrite <- (adv_nil (mem_stream (chunk_bytes l) false)). cbn [ps_buf mem_stream].
  rewrite (breakup_loop_adv l); [reflexivity | exact F | |].
  - pose proof (chunk_bytes_length l). lia.
  - rewrite blen_nil. cbn [ps_count mem_stream]. lia.
Qed.
Theorem sr_iter_attach r s0 D a crc R :
  sr_s r = adv s0 D (frame OpAttachment (enc_attachment_fields a ++ a_data a ++ u32 crc) ++ R) ->
  pwf_attachment a (a_data a) ->
  blen (enc_attachment_fields a ++ a_data a ++ u32 crc) < two64 ->
  limit_ok (sr_limit r) (blen (enc_attachment_fields a ++ a_data a ++ u32 crc)) ->
  sr_iter r = POk ([PAttachment (py_attachment a (a_data a))], false,
                   adv s0 (D ++ frame OpAttachment (enc_attachment_fields a ++ a_data a ++ u32 crc)) R).
Proof.
  intros HS W HB HL.
  rewrite (sr_iter_frame r s0 D _ _ R (Some (PAttachment (py_attachment a (a_data a)))) HS HB HL).
  - unfold dataend_bad. rewrite andb_false_r. reflexivity.
  - change (read_record _ ?l ?st) with (some_rec (rd_attachment st)).
    rewrite rd_attachment_adv by exact W. reflexivity.
Qed.

Lemma py_attachment_id a : a_size a = blen (a_data a) -> py_attachment a (a_data a) = a.
Proof. destruct a as [lg cr nm me sz da]. unfold py_attachment. cbn [a_log a_create a_name a_media a_size a_data]. intros ->. reflexivity. Qed.

(* ====================================================================== *)
(** * 6. a typed description of an uncompressed file, its Go rendering, what Python must deliver *)

Inductive pitem :=
| PIRec (r : prec)                                  (* any record but a chunk, body as Go encodes it *)
| PIAttach (a : attachment) (crc : N)               (* an attachment carrying any crc field *)
| PIUnknown (op : byte) (body : bytes)
| PIChunk (st en crc : N) (inner : list pinner).    (* an uncompressed chunk *)

Definition pitem_bytes (p : pitem) : bytes :=
  match p with
  | PIRec r => frame (rec_op r) (rec_body r)
  | PIAttach a crc => frame OpAttachment (enc_attachment_fields a ++ a_data a ++ u32 crc)
  | PIUnknown op body => frame op body
  | PIChunk st en crc l => frame OpChunk (enc_chunk (mk_chunk st en crc l))
  end.
Definition py_render (ps : list pitem) : bytes := concat (map pitem_bytes ps).

(* the same file as a list of the Go writer's items *)
Definition to_item (p : pitem) : item :=
  match p with
  | PIRec (PFooter f) => IFooter (f_summary_start f) (f_summary_offset_start f) (f_crc f)
  | PIRec (PChunk k) => IChunk k
  | PIRec (PAttachment a) => IAttach a (a_data a) (crc32 (enc_attachment_fields a ++ a_data a))
  | PIRec r => IRec (rec_op r) (rec_body r)
  | PIAttach a crc => IAttach a (a_data a) crc
  | PIUnknown op body => IRec op body
  | PIChunk st en crc l => IChunk (mk_chunk st en crc l)
  end.
Definition to_items (ps : list pitem) : list item := map to_item ps.

Lemma pitem_bytes_go p : pitem_bytes p = render_item (to_item p).
Proof.
  destruct p as [r|a crc|op body|st en crc l]; try reflexivity.
  destruct r; reflexivity.
Qed.

Theorem py_render_go ps : py_render ps = render (to_items ps).
Proof.
  unfold py_render, render, to_items. rewrite map_map. f_equal.
  apply map_ext. intro p. apply pitem_bytes_go.
Qed.

Definition pitem_recs (emit : bool) (p : pitem) : list prec :=
  match p with
  | PIRec r => [py_norm r]
  | PIAttach a _ => [PAttachment (py_attachment a (a_data a))]
  | PIUnknown _ _ => []
  | PIChunk st en crc l => if emit then [PChunk (mk_chunk st en crc l)] else chunk_recs l
  end.
Definition py_expected_gen (emit : bool) (ps : list pitem) : list prec := flat_map (pitem_recs emit) ps.
Definition py_expected := py_expected_gen false.

Definition pwf_pitem (validate emit : bool) (p : pitem) : Prop :=
  blen (match p with
        | PIRec r => rec_body r
        | PIAttach a crc => enc_attachment_fields a ++ a_data a ++ u32 crc
        | PIUnknown _ body => body
        | PIChunk st en crc l => enc_chunk (mk_chunk st en crc l)
        end) <= two32 /\
  match p with
  | PIRec r => pwf_rec r /\ is_chunk r = false
  | PIAttach a _ => pwf_attachment a (a_data a)
  | PIUnknown op _ => py_known op = false
  | PIChunk st en crc l =>
    st < two64 /\ en < two64 /\ crc < two32
    /\ (emit = false -> Forall pwf_inner l /\ chunk_crc_ok validate crc l)
  end.

Definition is_footer_item (p : pitem) : bool := match p with PIRec (PFooter _) => true | _ => false end.

(* every DataEnd carries 0 or the CRC-32 of everything before it, D being what precedes the items *)
Definition dataend_ok (validate : bool) (D : bytes) (items : list pitem) : Prop :=
  validate = true -> forall pre d post, items = pre ++ PIRec (PDataEnd d) :: post ->
    de_crc d = 0 \/ de_crc d = crc32 (D ++ py_render pre).

Definition pwf_file (validate emit : bool) (ps : list pitem) : Prop :=
  exists body f,
    ps = body ++ [PIRec (PFooter f)]
    /\ Forall (pwf_pitem validate emit) ps
    /\ Forall (fun p => is_footer_item p = false) body
    /\ dataend_ok validate magic ps.

Lemma py_render_cons p l : py_render (p :: l) = pitem_bytes p ++ py_render l.
Proof. reflexivity. Qed.

Lemma dataend_ok_tail v D p items : dataend_ok v D (p :: items) -> dataend_ok v (D ++ pitem_bytes p) items.
Proof.
  intros H V pre d post E. specialize (H V (p :: pre) d post). rewrite E in H.
  rewrite py_render_cons, app_assoc in H. apply H. reflexivity.
Qed.

Lemma dataend_ok_head v D d items : dataend_ok v D (PIRec (PDataEnd d) :: items) -> v = true ->
  de_crc d = 0 \/ de_crc d = crc32 D.
Proof.
  intros H V. specialize (H V [] d items eq_refl). cbn in H. rewrite app_nil_r in H. exact H.
Qed.

Lemma pitem_bytes_length p : (9 <= length (pitem_bytes p))%nat.
Proof. destruct p; cbn [pitem_bytes]; rewrite frame_length; lia. Qed.

Lemma py_render_length l : (9 * length l <= length (py_render l))%nat.
Proof.
  induction l as [|p l IH]; [cbn; lia|].
  rewrite py_render_cons, app_length. pose proof (pitem_bytes_length p). cbn [length]. lia.
Qed.

Lemma chunk_recs_length l : (length (chunk_recs l) <= length l)%nat.
Proof.
  induction l as [|i l IH]; [cbn; lia|].
  unfold chunk_recs in *. cbn [flat_map]. rewrite app_length. destruct i; cbn [inner_recs length]; lia.
Qed.

Lemma py_expected_length e l : (length (py_expected_gen e l) <= length (py_render l))%nat.
Proof.
  induction l as [|p l IH]; [cbn; lia|].
  unfold py_expected_gen in *. cbn [flat_map]. rewrite py_render_cons, !app_length.
  enough (length (pitem_recs e p) <= length (pitem_bytes p))%nat by lia.
  pose proof (pitem_bytes_length p).
  destruct p as [r|a crc|op body|st en crc l']; cbn [pitem_recs length]; try lia.
  destruct e; cbn [length]; [lia|].
  cbn [pitem_bytes]. rewrite frame_length. unfold enc_chunk, mk_chunk. cbn [k_records].
  rewrite app_length. pose proof (chunk_recs_length l'). pose proof (chunk_bytes_length l'). lia.
Qed.

(* ====================================================================== *)
(** * 7. the generator *)

Inductive gen_yields : sr -> list prec -> Prop :=
| gy_stop r r' : sr_pull r = POk (None, r') -> gen_yields r []
| gy_step r x r' xs : sr_pull r = POk (Some x, r') -> gen_yields r' xs -> gen_yields r (x :: xs).

Definition gen_body (res : pres (option prec * sr)) (xs : list prec) : Prop :=
  match xs with
  | [] => exists r', res = POk (None, r')
  | x :: xs' => exists r', res = POk (Some x, r') /\ gen_yields r' xs'
  end.

Lemma gen_yields_pull r xs : gen_body (sr_pull r) xs -> gen_yields r xs.
Proof.
  destruct xs as [|x xs]; cbn [gen_body].
  - intros [r' E]. eapply gy_stop, E.
  - intros [r' [E G]]. eapply gy_step; eassumption.
Qed.

Definition mk_sr (validate emit : bool) (st : ps) (ph : phase) (pend : list prec) : sr :=
  {| sr_s := st; sr_skip := false; sr_emit := emit; sr_validate := validate; sr_limit := limit_4g;
     sr_phase := ph; sr_pending := pend |}.

Lemma sr_next_pending v e st ph x pend fuel :
  sr_next (S fuel) (mk_sr v e st ph (x :: pend)) = POk (Some x, mk_sr v e st ph pend).
Proof. reflexivity. Qed.

Lemma sr_next_loop_step v e st fuel :
  sr_next (S fuel) (mk_sr v e st PhLoop [])
  = let+ (ys, isf, s') := sr_iter (mk_sr v e st PhLoop []) in
    sr_next fuel (mk_sr v e s' (if isf then PhFooter else PhLoop) ys).
Proof. reflexivity. Qed.

Lemma sr_pull_unfold v e st ph pend :
  sr_pull (mk_sr v e st ph pend) = sr_next (length (ps_buf st) + 4) (mk_sr v e st ph pend).
Proof. reflexivity. Qed.

(* once the loop with nothing pending is known to deliver E, pending records come first *)
Lemma pend_then v e st E n :
  (forall fuel, (n <= fuel)%nat -> gen_body (sr_next fuel (mk_sr v e st PhLoop [])) E) ->
  (n <= length (ps_buf st) + 4)%nat ->
  forall ys,
    gen_yields (mk_sr v e st PhLoop ys) (ys ++ E)
    /\ forall fuel, (1 <= fuel)%nat -> (n <= fuel)%nat ->
         gen_body (sr_next fuel (mk_sr v e st PhLoop ys)) (ys ++ E).
Proof.
  intros Q HN.
  assert (G : forall ys, gen_yields (mk_sr v e st PhLoop ys) (ys ++ E)).
  { induction ys as [|y ys IH]; apply gen_yields_pull; rewrite sr_pull_unfold.
    - apply Q, HN.
    - replace (length (ps_buf st) + 4)%nat with (S (length (ps_buf st) + 3)) by lia.
      rewrite sr_next_pending. cbn [app gen_body]. eexists. split; [reflexivity | exact IH]. }
  intro ys. split; [apply G|].
  intros fuel F1 FN. destruct ys as [|y ys].
  - apply Q, FN.
  - destruct fuel as [|fuel]; [lia|]. rewrite sr_next_pending. cbn [app gen_body].
    eexists. split; [reflexivity | apply G].
Qed.

Lemma read_magic_adv s D R : read_magic (adv s D (magic ++ R)) = POk (adv s (D ++ magic) R).
Proof.
  unfold read_magic. change 8%Z with (Z.of_N (blen magic)).
  rewrite ps_read_adv by (vm_compute; reflexivity). cbn [pbind]. reflexivity.
Qed.

Lemma limit_4g_ok v e st ph pend n : n <= two32 -> limit_ok (sr_limit (mk_sr v e st ph pend)) n.
Proof. intro H. exact H. Qed.

Lemma two32_lt_two64 n : n <= two32 -> n < two64.
Proof. unfold two32, two64. lia. Qed.
Lemma two32_le_two63 n : n <= two32 -> n < two63.
Proof. unfold two32, two63. lia. Qed.

Lemma crc_before_loop v e s0 D R ph pend :
  (v = true -> ps_crc s0 = Some 0) ->
  v = true -> crc_before (mk_sr v e (adv s0 D R) ph pend) = crc32 D.
Proof.
  intros Hcrc V. unfold crc_before. cbn [sr_validate sr_skip sr_s mk_sr]. rewrite V. cbn [negb andb].
  rewrite ps_crc_adv, (Hcrc V). reflexivity.
Qed.

(* one item that is not the footer: what sr_iter yields and where it leaves the stream *)
Lemma sr_iter_item v e s0 p D R :
  (v = true -> ps_crc s0 = Some 0) ->
  pwf_pitem v e p -> is_footer_item p = false ->
  (forall d, p = PIRec (PDataEnd d) -> v = true -> de_crc d = 0 \/ de_crc d = crc32 D) ->
  sr_iter (mk_sr v e (adv s0 D (pitem_bytes p ++ R)) PhLoop [])
  = POk (pitem_recs e p, false, adv s0 (D ++ pitem_bytes p) R).
Proof.
  intros Hcrc (HL & W) NF HD.
  destruct p as [x|a crc|op body|st en crc l]; cbn [pitem_bytes pitem_recs].
  - destruct W as [W NC].
    rewrite (sr_iter_rec _ s0 D x R); [| reflexivity | exact W | exact NC | apply two32_lt_two64, HL
                                        | apply limit_4g_ok, HL |].
    + destruct x; try reflexivity. discriminate NF.
    + unfold dataend_bad. cbn [sr_validate sr_skip mk_sr negb]. rewrite andb_true_r.
      destruct v eqn:V; [|reflexivity]. cbn [andb].
      destruct x; try reflexivity.
      rewrite crc_before_loop by (assumption || reflexivity).
      destruct (HD d eq_refl eq_refl) as [E|E]; rewrite E.
      * reflexivity.
      * rewrite N.eqb_refl. apply andb_false_r.
  - rewrite (sr_iter_attach _ s0 D a crc R); [reflexivity | reflexivity | exact W
                                              | apply two32_lt_two64, HL | apply limit_4g_ok, HL].
  - rewrite (sr_iter_unknown _ s0 D op body R); [reflexivity | reflexivity | exact W
                                                 | apply two32_le_two63, HL | apply limit_4g_ok, HL].
  - destruct W as (H1 & H2 & H3 & HI).
    rewrite (sr_iter_chunk _ s0 D (mk_chunk st en crc l) R);
      [| reflexivity | | apply two32_lt_two64, HL | apply limit_4g_ok, HL].
    + cbn [sr_emit sr_validate mk_sr]. destruct e; [reflexivity|].
      destruct (HI eq_refl) as [F C]. rewrite breakup_chunk_ok by assumption. reflexivity.
    + unfold pwf_chunk, mk_chunk, u8. cbn [k_start k_end k_usize k_crc k_comp k_records].
      assert (blen (chunk_bytes l) <= two32).
      { unfold enc_chunk, mk_chunk in HL. cbn [k_records] in HL. rewrite blen_app in HL. lia. }
      split; [exact H1|]. split; [exact H2|]. split; [apply two32_lt_two64; assumption|].
      split; [exact H3|]. split; [reflexivity|]. split; [reflexivity|].
      apply two32_le_two63. assumption.
Qed.

Lemma footer_expected e f : py_expected_gen e [PIRec (PFooter f)] = [PFooter f].
Proof. reflexivity. Qed.

(* the loop from any point of the file on *)
Lemma sr_next_items v e s0 f : (v = true -> ps_crc s0 = Some 0) -> forall body D fuel,
  Forall (pwf_pitem v e) (body ++ [PIRec (PFooter f)]) ->
  Forall (fun p => is_footer_item p = false) body ->
  dataend_ok v D (body ++ [PIRec (PFooter f)]) ->
  (length body + 2 <= fuel)%nat ->
  gen_body (sr_next fuel (mk_sr v e (adv s0 D (py_render (body ++ [PIRec (PFooter f)]) ++ magic)) PhLoop []))
           (py_expected_gen e (body ++ [PIRec (PFooter f)])).
Proof.
  intro Hcrc. induction body as [|p body IH]; intros D fuel W NF HD HF.
  - cbn [app] in *. destruct fuel as [|[|fuel]]; try (cbn [length] in HF; lia).
    rewrite sr_next_loop_step.
    inversion W as [|? ? Wp _]; subst. destruct Wp as (HL & WF & _).
    change (py_render [PIRec (PFooter f)] ++ magic)
      with (frame (rec_op (PFooter f)) (rec_body (PFooter f)) ++ magic).
    rewrite (sr_iter_rec _ s0 D (PFooter f) magic); [| reflexivity | exact WF | reflexivity
               | apply two32_lt_two64, HL | apply limit_4g_ok, HL
               | unfold dataend_bad; rewrite andb_false_r; reflexivity].
    cbn [pbind is_footer py_norm]. rewrite sr_next_pending.
    rewrite footer_expected. cbn [gen_body]. eexists. split; [reflexivity|].
    eapply gy_stop. rewrite sr_pull_unfold. rewrite ps_buf_adv.
    change (length magic + 4)%nat with (S 11). cbn [sr_next mk_sr sr_pending sr_phase sr_s].
    rewrite <- (app_nil_r magic) at 1. rewrite read_magic_adv. cbn [pbind]. reflexivity.
  - cbn [app] in *. destruct fuel as [|fuel]; [lia|].
    inversion W as [|? ? Wp W']; subst. inversion NF as [|? ? NFp NF']; subst.
    rewrite sr_next_loop_step. rewrite py_render_cons, <- app_assoc.
    rewrite (sr_iter_item v e s0 p D _ Hcrc Wp NFp).
    2:{ intros d -> V. apply (dataend_ok_head _ _ _ _ HD V). }
    cbn [pbind].
    change (py_expected_gen e (p :: body ++ [PIRec (PFooter f)]))
      with (pitem_recs e p ++ py_expected_gen e (body ++ [PIRec (PFooter f)])).
    apply dataend_ok_tail in HD.
    apply (pend_then v e _ _ (length body + 2)).
    + intros fuel' HF'. apply IH; assumption.
    + rewrite ps_buf_adv, app_length. pose proof (py_render_length (body ++ [PIRec (PFooter f)])).
      rewrite app_length in H. cbn [length] in *. lia.
    + cbn [length] in HF. lia.
    + cbn [length] in HF. lia.
Qed.

Lemma new_sr_mk b e v : new_sr b false e v limit_4g = mk_sr v e (mem_stream b v) PhStart [].
Proof. reflexivity. Qed.

(* the generator over a whole file yields exactly the expected records and then stops *)
Theorem py_gen v e ps : pwf_file v e ps ->
  gen_yields (new_sr (magic ++ py_render ps ++ magic) false e v limit_4g) (py_expected_gen e ps).
Proof.
  intros (body & f & -> & W & NF & HD).
  set (file := magic ++ py_render (body ++ [PIRec (PFooter f)]) ++ magic).
  apply gen_yields_pull. rewrite new_sr_mk, sr_pull_unfold.
  replace (length (ps_buf (mem_stream file v)) + 4)%nat with (S (length file + 3)) by (cbn [ps_buf mem_stream]; lia).
  cbn [sr_next mk_sr sr_pending sr_phase sr_skip sr_s sr_with sr_emit sr_validate sr_limit].
  rewrite <- (adv_nil (mem_stream file v)). cbn [ps_buf mem_stream]. unfold file at 2.
  rewrite read_magic_adv. cbn [pbind app].
  apply (sr_next_items v e (mem_stream file v)).
  - intros ->. reflexivity.
  - exact W.
  - exact NF.
  - exact HD.
  - unfold file. rewrite !app_length. pose proof (py_render_length (body ++ [PIRec (PFooter f)])).
    rewrite app_length in H. cbn [length] in *. lia.
Qed.

Lemma sr_all_gen r xs : gen_yields r xs -> forall fuel acc, (length xs < fuel)%nat ->
  sr_all fuel r acc = (rev acc ++ xs, EStop).
Proof.
  induction 1 as [r r' E | r x r' xs E G IH]; intros fuel acc HF;
    (destruct fuel as [|fuel]; [cbn [length] in HF; lia|]); cbn [sr_all]; rewrite E.
  - rewrite app_nil_r. reflexivity.
  - rewrite IH by (cbn [length] in HF; lia). cbn [rev]. rewrite <- app_assoc. reflexivity.
Qed.

Lemma all_fuel_enough e ps :
  (length (py_expected_gen e ps) < all_fuel (magic ++ py_render ps ++ magic))%nat.
Proof.
  unfold all_fuel. rewrite !app_length. pose proof (py_expected_length e ps). lia.
Qed.

(* StreamReader(file, skip_magic=False, emit_chunks, validate_crcs).records *)
Theorem py_stream_records_gen v e ps : pwf_file v e ps ->
  stream_records (magic ++ py_render ps ++ magic) false e v limit_4g = (py_expected_gen e ps, EStop).
Proof.
  intro W. unfold stream_records.
  rewrite (sr_all_gen _ _ (py_gen v e ps W)) by apply all_fuel_enough. reflexivity.
Qed.

Theorem py_stream_records v ps : pwf_file v false ps ->
  stream_records (magic ++ py_render ps ++ magic) false false v limit_4g = (py_expected ps, EStop).
Proof. apply py_stream_records_gen. Qed.
(* ====================================================================== *)
(** * 8. NonSeekingReader on such files *)

Definition the_file (ps : list pitem) : bytes := magic ++ py_render ps ++ magic.

Lemma gen_yields_cons r x xs : gen_yields r (x :: xs) ->
  exists r', sr_pull r = POk (Some x, r') /\ gen_yields r' xs.
Proof. inversion 1; subst. eexists. split; eassumption. Qed.
Lemma gen_yields_nil r : gen_yields r [] -> exists r', sr_pull r = POk (None, r').
Proof. inversion 1; subst. eexists. eassumption. Qed.

(* get_header *)
Theorem py_ns_get_header v ps h rest : pwf_file v false (PIRec (PHeader h) :: rest) ->
  ps = PIRec (PHeader h) :: rest ->
  ns_get_header (the_file ps) v = POk h.
Proof.
  intros W ->. pose proof (py_gen v false _ W) as G.
  change (py_expected_gen false (PIRec (PHeader h) :: rest))
    with (PHeader h :: py_expected_gen false rest) in G.
  apply gen_yields_cons in G. destruct G as (r' & E & _).
  unfold ns_get_header, the_file. rewrite E. reflexivity.
Qed.

(* iter_attachments / iter_metadata *)
Theorem py_ns_iter keep v ps : pwf_file v false ps ->
  ns_iter keep (the_file ps) v = (filter keep (py_expected ps), EStop).
Proof. intro W. unfold ns_iter, the_file. rewrite py_stream_records by exact W. reflexivity. Qed.

Definition pitem_atts (p : pitem) : list attachment :=
  match p with PIAttach a _ => [a] | PIRec (PAttachment a) => [a] | _ => [] end.
Definition file_atts (ps : list pitem) : list attachment := flat_map pitem_atts ps.
Definition pitem_mds (p : pitem) : list metadata :=
  match p with PIRec (PMetadata m) => [m] | _ => [] end.
Definition file_mds (ps : list pitem) : list metadata := flat_map pitem_mds ps.

Lemma chunk_recs_no_att l : filter is_att (chunk_recs l) = [].
Proof.
  induction l as [|i l IH]; [reflexivity|]. unfold chunk_recs in *. cbn [flat_map].
  rewrite filter_app, IH. destruct i; reflexivity.
Qed.
Lemma chunk_recs_no_md l : filter is_md (chunk_recs l) = [].
Proof.
  induction l as [|i l IH]; [reflexivity|]. unfold chunk_recs in *. cbn [flat_map].
  rewrite filter_app, IH. destruct i; reflexivity.
Qed.

Lemma expected_atts v ps : Forall (pwf_pitem v false) ps ->
  filter is_att (py_expected ps) = map PAttachment (file_atts ps).
Proof.
  induction 1 as [|p ps Wp _ IH]; [reflexivity|].
  unfold py_expected, py_expected_gen, file_atts in *. cbn [flat_map].
  rewrite filter_app, map_app, IH. f_equal.
  destruct Wp as [_ Wp]. destruct p as [x|a crc|op body|st en crc l]; cbn [pitem_recs pitem_atts].
  - destruct x; try reflexivity. destruct Wp as [Wp _]. cbn [pwf_rec] in Wp.
    cbn [py_norm filter is_att map]. rewrite py_attachment_id; [reflexivity|]. apply Wp.
  - cbn [filter is_att map]. rewrite py_attachment_id; [reflexivity|]. apply Wp.
  - reflexivity.
  - apply chunk_recs_no_att.
Qed.

Lemma expected_mds ps :
  filter is_md (py_expected ps) = map (fun m => PMetadata (py_metadata m)) (file_mds ps).
Proof.
  induction ps as [|p ps IH]; [reflexivity|].
  unfold py_expected, py_expected_gen, file_mds in *. cbn [flat_map].
  rewrite filter_app, map_app, IH. f_equal.
  destruct p as [x|a crc|op body|st en crc l]; cbn [pitem_recs pitem_mds]; try reflexivity.
  - destruct x; reflexivity.
  - apply chunk_recs_no_md.
Qed.

(* all attachments, in file order, every field as written *)
Theorem py_ns_iter_attachments v ps : pwf_file v false ps ->
  ns_iter is_att (the_file ps) v = (map PAttachment (file_atts ps), EStop).
Proof.
  intro W. rewrite py_ns_iter by exact W. destruct W as (body & f & _ & F & _).
  rewrite (expected_atts v) by exact F. reflexivity.
Qed.

(* all metadata records, in file order; the dict lists the pairs in the order Go wrote them *)
Theorem py_ns_iter_metadata v ps : pwf_file v false ps ->
  ns_iter is_md (the_file ps) v = (map (fun m => PMetadata (py_metadata m)) (file_mds ps), EStop).
Proof. intro W. rewrite py_ns_iter by exact W. rewrite expected_mds. reflexivity. Qed.

(* ---------- get_summary ---------- *)
Definition not_footer_rec (x : prec) : bool := match x with PFooter _ => false | _ => true end.

Lemma read_summary_gen xs : forall r f ys su fuel,
  gen_yields r (xs ++ PFooter f :: ys) -> forallb not_footer_rec xs = true -> (length xs < fuel)%nat ->
  read_summary fuel r su
  = POk (if f_summary_start f =? 0 then None else Some (fold_left summary_add xs su)).
Proof.
  induction xs as [|x xs IH]; intros r f ys su fuel G NF HF;
    (destruct fuel as [|fuel]; [cbn [length] in HF; lia|]); cbn [app] in G;
    apply gen_yields_cons in G; destruct G as (r' & E & G); cbn [read_summary]; rewrite E; cbn [pbind].
  - destruct (f_summary_start f =? 0); reflexivity.
  - cbn [forallb] in NF. apply andb_true_iff in NF. destruct NF as [NFx NF].
    cbn [fold_left]. cbn [length] in HF.
    destruct x; try discriminate NFx; apply (IH _ _ _ _ _ G NF); lia.
Qed.

Lemma chunk_recs_no_footer l : forallb not_footer_rec (chunk_recs l) = true.
Proof.
  induction l as [|i l IH]; [reflexivity|]. unfold chunk_recs in *. cbn [flat_map].
  rewrite forallb_app, IH. destruct i; reflexivity.
Qed.

Lemma expected_no_footer body : Forall (fun p => is_footer_item p = false) body ->
  forallb not_footer_rec (py_expected body) = true.
Proof.
  induction 1 as [|p ps NF _ IH]; [reflexivity|].
  unfold py_expected, py_expected_gen in *. cbn [flat_map]. rewrite forallb_app, IH, andb_true_r.
  destruct p as [x|a crc|op body|st en crc l]; cbn [pitem_recs]; try reflexivity.
  - destruct x; try reflexivity. discriminate NF.
  - apply chunk_recs_no_footer.
Qed.

Lemma py_expected_app e a b : py_expected_gen e (a ++ b) = py_expected_gen e a ++ py_expected_gen e b.
Proof. unfold py_expected_gen. apply flat_map_app. Qed.

(* get_summary: None when the footer says there is no summary section, otherwise every schema,
   channel, statistics and index record of the file (data section and summary section alike) *)
Theorem py_ns_get_summary v body f : pwf_file v false (body ++ [PIRec (PFooter f)]) ->
  Forall (fun p => is_footer_item p = false) body ->
  ns_get_summary (the_file (body ++ [PIRec (PFooter f)])) v
  = POk (if f_summary_start f =? 0 then None
         else Some (fold_left summary_add (py_expected body) empty_summary)).
Proof.
  intros W NF. pose proof (py_gen v false _ W) as G.
  rewrite py_expected_app in G. change (py_expected_gen false [PIRec (PFooter f)]) with [PFooter f] in G.
  unfold ns_get_summary, the_file.
  apply (read_summary_gen _ _ _ _ _ _ G (expected_no_footer _ NF)).
  pose proof (all_fuel_enough false (body ++ [PIRec (PFooter f)])) as HF.
  rewrite py_expected_app, app_length in HF. unfold py_expected. cbn [length] in HF. lia.
Qed.

(* ---------- iter_messages ---------- *)
(* the loop of _iter_messages_internal over a list of records *)
Fixpoint msgs_run (flt : mfilter) (xs : list prec) (schemas : list (N * schema)) (channels : list (N * channel))
         (acc : list triple) : list triple * ending :=
  match xs with
  | [] => (rev acc, EStop)
  | PSchema x :: r => msgs_run flt r (pn_set (s_id x) x schemas) channels acc
  | PChannel c :: r =>
    if negb (c_schema c =? 0) && match pn_get (c_schema c) schemas with Some _ => false | None => true end
    then (rev acc, ERaise PMcap)
    else msgs_run flt r schemas (pn_set (c_id c) c channels) acc
  | PMessage m :: r =>
    match pn_get (m_chan m) channels with
    | None => (rev acc, ERaise PMcap)
    | Some c =>
      if msg_selected flt c m then
        if c_schema c =? 0 then msgs_run flt r schemas channels ((None, c, m) :: acc)
        else match pn_get (c_schema c) schemas with
             | Some sc => msgs_run flt r schemas channels ((Some sc, c, m) :: acc)
             | None => (rev acc, ERaise PKey)
             end
      else msgs_run flt r schemas channels acc
    end
  | _ :: r => msgs_run flt r schemas channels acc
  end.

Lemma ns_messages_gen flt r xs : gen_yields r xs -> forall fuel sc ch acc, (length xs < fuel)%nat ->
  ns_messages fuel flt r sc ch acc = msgs_run flt xs sc ch acc.
Proof.
  induction 1 as [r r' E | r x r' xs E G IH]; intros fuel sc ch acc HF;
    (destruct fuel as [|fuel]; [cbn [length] in HF; lia|]); cbn [ns_messages]; rewrite E.
  - reflexivity.
  - cbn [length] in HF. assert (HF' : (length xs < fuel)%nat) by lia.
    destruct x; cbn [msgs_run]; try (apply IH; exact HF').
    + destruct (negb (c_schema c =? 0) && _); [reflexivity | apply IH; exact HF'].
    + destruct (pn_get (m_chan m) ch) as [c|]; [|reflexivity].
      destruct (msg_selected flt c m); [|apply IH; exact HF'].
      destruct (c_schema c =? 0); [apply IH; exact HF'|].
      destruct (pn_get (c_schema c) sc); [apply IH; exact HF' | reflexivity].
Qed.

(* the schema / channel registered latest among the records pre, for an id *)
Definition latest_schema (pre : list prec) (id : N) : option schema :=
  fold_left (fun acc r => match r with PSchema x => if s_id x =? id then Some x else acc | _ => acc end) pre None.
Definition latest_channel (pre : list prec) (id : N) : option channel :=
  fold_left (fun acc r => match r with PChannel c => if c_id c =? id then Some c else acc | _ => acc end) pre None.

(* what a message yields: its channel is the one registered latest before it under its channel id,
   the schema the one registered latest before it under that channel's schema id (None for id 0) *)
Definition msg_triple (flt : mfilter) (pre : list prec) (m : message) : list triple :=
  match latest_channel pre (m_chan m) with
  | Some c =>
    if msg_selected flt c m
    then [(if c_schema c =? 0 then None else latest_schema pre (c_schema c), c, m)]
    else []
  | None => []
  end.
Fixpoint msgs_spec (flt : mfilter) (pre rs : list prec) : list triple :=
  match rs with
  | [] => []
  | r :: rest => (match r with PMessage m => msg_triple flt pre m | _ => [] end)
                 ++ msgs_spec flt (pre ++ [r]) rest
  end.

Definition is_some {A} (o : option A) : bool := match o with Some _ => true | None => false end.

(* every message's channel and every channel's non-zero schema was registered before it *)
Fixpoint refs_ok (pre rs : list prec) : bool :=
  match rs with
  | [] => true
  | r :: rest =>
    match r with
    | PChannel c => (c_schema c =? 0) || is_some (latest_schema pre (c_schema c))
    | PMessage m => is_some (latest_channel pre (m_chan m))
    | _ => true
    end && refs_ok (pre ++ [r]) rest
  end.

Lemma latest_schema_snoc pre r id :
  latest_schema (pre ++ [r]) id
  = match r with PSchema x => if s_id x =? id then Some x else latest_schema pre id | _ => latest_schema pre id end.
Proof. unfold latest_schema. rewrite fold_left_app. reflexivity. Qed.
Lemma latest_channel_snoc pre r id :
  latest_channel (pre ++ [r]) id
  = match r with PChannel c => if c_id c =? id then Some c else latest_channel pre id | _ => latest_channel pre id end.
Proof. unfold latest_channel. rewrite fold_left_app. reflexivity. Qed.

Definition dicts_ok (pre : list prec) (sc : list (N * schema)) (ch : list (N * channel)) : Prop :=
  (forall id, pn_get id sc = latest_schema pre id)
  /\ (forall id, pn_get id ch = latest_channel pre id)
  /\ (forall id c, latest_channel pre id = Some c -> c_schema c <> 0 -> latest_schema pre (c_schema c) <> None).

Lemma msgs_run_spec flt xs : forall pre sc ch acc,
  dicts_ok pre sc ch -> refs_ok pre xs = true ->
  msgs_run flt xs sc ch acc = (rev acc ++ msgs_spec flt pre xs, EStop).
Proof.
  induction xs as [|x xs IH]; intros pre sc ch acc (HS & HC & HI) RO; cbn [msgs_run msgs_spec].
  - rewrite app_nil_r. reflexivity.
  - cbn [refs_ok] in RO. apply andb_true_iff in RO. destruct RO as [ROx RO].
    assert (KEEP : forall y, (forall z, y <> PSchema z) -> (forall z, y <> PChannel z) ->
                     dicts_ok (pre ++ [y]) sc ch).
    { intros y N1 N2. split; [|split].
      - intro id. rewrite latest_schema_snoc, HS. destruct y; try reflexivity. exfalso. eapply N1. reflexivity.
      - intro id. rewrite latest_channel_snoc, HC. destruct y; try reflexivity. exfalso. eapply N2. reflexivity.
      - intros id c. rewrite latest_channel_snoc, latest_schema_snoc.
        destruct y; try apply HI. + exfalso. eapply N1. reflexivity. + exfalso. eapply N2. reflexivity. }
    destruct x;
      try (cbn [app]; apply IH; [apply KEEP; intros; discriminate | exact RO]).
    + (* schema *)
      cbn [app]. apply IH; [|exact RO]. split; [|split].
      * intro id. rewrite latest_schema_snoc, pn_get_set, HS. reflexivity.
      * intro id. rewrite latest_channel_snoc, HC. reflexivity.
      * intros id c. rewrite latest_channel_snoc, latest_schema_snoc. intros L NZ.
        destruct (s_id s =? c_schema c); [discriminate | apply (HI id c L NZ)].
    + (* channel *)
      rewrite HS.
      replace (negb (c_schema c =? 0) && match latest_schema pre (c_schema c) with Some _ => false | None => true end)
        with false.
      2:{ symmetry. apply orb_true_iff in ROx. destruct ROx as [Z|S]; [rewrite Z; reflexivity|].
          destruct (latest_schema pre (c_schema c)); [apply andb_false_r | discriminate S]. }
      cbn [app]. apply IH; [|exact RO]. split; [|split].
      * intro id. rewrite latest_schema_snoc, HS. reflexivity.
      * intro id. rewrite latest_channel_snoc, pn_get_set, HC. reflexivity.
      * intros id c'. rewrite latest_channel_snoc, latest_schema_snoc.
        destruct (c_id c =? id).
        -- intros [= <-] NZ. apply orb_true_iff in ROx. destruct ROx as [Z|S].
           ++ apply N.eqb_eq in Z. contradiction.
           ++ destruct (latest_schema pre (c_schema c)); [discriminate | discriminate S].
        -- apply HI.
    + (* message *)
      unfold msg_triple. rewrite HC.
      destruct (latest_channel pre (m_chan m)) as [c|] eqn:LC; [|discriminate ROx].
      assert (D' : dicts_ok (pre ++ [PMessage m]) sc ch) by (apply KEEP; intros; discriminate).
      destruct (msg_selected flt c m).
      * destruct (N.eqb_spec (c_schema c) 0) as [Z|NZ].
        -- rewrite (IH _ _ _ _ D' RO). cbn [rev app]. rewrite <- app_assoc. reflexivity.
        -- rewrite HS. pose proof (HI _ _ LC NZ) as SS.
           destruct (latest_schema pre (c_schema c)) as [sch|]; [|contradiction].
           rewrite (IH _ _ _ _ D' RO). cbn [rev app]. rewrite <- app_assoc. reflexivity.
      * cbn [app]. apply (IH _ _ _ _ D' RO).
Qed.

Lemma dicts_ok_nil : dicts_ok [] [] [].
Proof. split; [|split]; intros; try reflexivity. discriminate. Qed.

(* iter_messages(log_time_order=False): the messages in file order *)
Theorem py_ns_iter_messages_file_order v ps flt reverse : pwf_file v false ps ->
  refs_ok [] (py_expected ps) = true ->
  ns_iter_messages (the_file ps) v flt false reverse = (msgs_spec flt [] (py_expected ps), EStop).
Proof.
  intros W RO. unfold ns_iter_messages, the_file, py_expected in *.
  rewrite (ns_messages_gen flt _ _ (py_gen v false ps W)) by apply all_fuel_enough.
  rewrite (msgs_run_spec flt _ [] [] [] [] dicts_ok_nil RO). reflexivity.
Qed.

(* iter_messages(log_time_order=True, reverse): the same list through sorted(key=log_time, reverse) *)
Theorem py_ns_iter_messages_log_order v ps flt reverse : pwf_file v false ps ->
  refs_ok [] (py_expected ps) = true ->
  ns_iter_messages (the_file ps) v flt true reverse
  = (py_sorted reverse (msgs_spec flt [] (py_expected ps)), EStop).
Proof.
  intros W RO. unfold ns_iter_messages, the_file, py_expected in *.
  rewrite (ns_messages_gen flt _ _ (py_gen v false ps W)) by apply all_fuel_enough.
  rewrite (msgs_run_spec flt _ [] [] [] [] dicts_ok_nil RO). reflexivity.
Qed.

(* ---------- sorted(): a stable sort in both directions ---------- *)
Definition key_le (rev_ : bool) (a b : triple) : Prop :=
  if rev_ then t_log b <= t_log a else t_log a <= t_log b.
Definition same_key (k : N) (t : triple) : bool := t_log t =? k.

Lemma ins_sorted_perm r x l : Permutation (ins_sorted r x l) (x :: l).
Proof.
  induction l as [|y l IH]; cbn [ins_sorted]; [reflexivity|].
  destruct (if r then _ else _); [reflexivity|].
  rewrite IH. apply perm_swap.
Qed.

Lemma ins_sorted_sorted r x l :
  StronglySorted (key_le r) l -> StronglySorted (key_le r) (ins_sorted r x l).
Proof.
  induction l as [|y l IH]; intro S; cbn [ins_sorted].
  - constructor; constructor.
  - inversion S as [|? ? S' F]; subst.
    destruct (if r then t_log y <? t_log x else t_log x <? t_log y) eqn:T.
    + constructor; [exact S|]. constructor.
      * unfold key_le. destruct r; lia.
      * eapply Forall_impl; [|exact F]. intros z Hz. unfold key_le in *. destruct r; lia.
    + constructor; [apply IH, S'|].
      eapply Permutation_Forall; [symmetry; apply ins_sorted_perm|].
      constructor; [|exact F]. unfold key_le. destruct r; lia.
Qed.

Lemma filter_none {A} (f : A -> bool) l : (forall z, In z l -> f z = false) -> filter f l = [].
Proof.
  induction l as [|y l IH]; intro H; [reflexivity|]. cbn [filter].
  rewrite (H y (or_introl eq_refl)). apply IH. intros z Hz. apply H. right. exact Hz.
Qed.

Lemma ins_sorted_stable r x l k : StronglySorted (key_le r) l ->
  filter (same_key k) (ins_sorted r x l) = filter (same_key k) l ++ filter (same_key k) [x].
Proof.
  induction l as [|y l IH]; intro S; cbn [ins_sorted].
  - reflexivity.
  - inversion S as [|? ? S' F]; subst.
    destruct (if r then t_log y <? t_log x else t_log x <? t_log y) eqn:T.
    + change (x :: y :: l) with ([x] ++ (y :: l)). rewrite filter_app.
      destruct (same_key k x) eqn:E.
      * assert (NY : filter (same_key k) (y :: l) = []).
        { apply filter_none. unfold same_key in E. intros z [<-|Hz].
          - unfold same_key. destruct r; lia.
          - rewrite Forall_forall in F. specialize (F z Hz).
            unfold key_le, same_key in *. destruct r; lia. }
        rewrite NY, app_nil_r. reflexivity.
      * cbn [filter]. rewrite E. rewrite app_nil_r. reflexivity.
    + cbn [filter]. rewrite IH by exact S'. destruct (same_key k y); reflexivity.
Qed.

Lemma py_sorted_from r l : forall acc, StronglySorted (key_le r) acc ->
  let res := fold_left (fun a x => ins_sorted r x a) l acc in
  Permutation (acc ++ l) res /\ StronglySorted (key_le r) res
  /\ forall k, filter (same_key k) res = filter (same_key k) acc ++ filter (same_key k) l.
Proof.
  induction l as [|x l IH]; intros acc S; cbn [fold_left]; cbv zeta.
  - rewrite app_nil_r. split; [reflexivity|]. split; [exact S|]. intro k. rewrite app_nil_r. reflexivity.
  - destruct (IH (ins_sorted r x acc) (ins_sorted_sorted r x acc S)) as (P & S' & ST).
    split; [|split].
    + rewrite <- P. rewrite ins_sorted_perm.
      cbn [app]. symmetry. apply Permutation_middle.
    + exact S'.
    + intro k. rewrite ST, ins_sorted_stable by exact S. rewrite <- app_assoc.
      change (x :: l) with ([x] ++ l). rewrite (filter_app _ [x] l). reflexivity.
Qed.

(* sorted(l, key=log_time, reverse=r) is a permutation of l, ordered by log time (descending for
   reverse), and records with the same log time keep their relative order *)
Theorem py_sorted_stable r l :
  Permutation l (py_sorted r l)
  /\ StronglySorted (key_le r) (py_sorted r l)
  /\ forall k, filter (same_key k) (py_sorted r l) = filter (same_key k) l.
Proof.
  destruct (py_sorted_from r l [] (SSorted_nil _)) as (P & S & ST). auto.
Qed.
(* a chunk read with emit_chunks=False: the inner schema/channel/message records in order *)
Theorem sr_iter_chunk_inner r s0 D st en crc l R :
  sr_s r = adv s0 D (frame OpChunk (enc_chunk (mk_chunk st en crc l)) ++ R) ->
  sr_emit r = false ->
  st < two64 -> en < two64 -> crc < two32 -> blen (chunk_bytes l) < two63 ->
  limit_ok (sr_limit r) (blen (enc_chunk (mk_chunk st en crc l))) ->
  Forall pwf_inner l -> chunk_crc_ok (sr_validate r) crc l ->
  sr_iter r = POk (chunk_recs l, false, adv s0 (D ++ frame OpChunk (enc_chunk (mk_chunk st en crc l))) R).
Proof.
  intros HS HE H1 H2 H3 HB HL F C.
  assert (HB2 : blen (chunk_bytes l) < two64) by (unfold two63, two64 in *; lia).
  rewrite (sr_iter_chunk r s0 D _ R HS).
  - rewrite HE, breakup_chunk_ok by assumption. reflexivity.
  - unfold pwf_chunk, mk_chunk, u8. cbn [k_start k_end k_usize k_crc k_comp k_records].
    split; [exact H1|]. split; [exact H2|]. split; [exact HB2|].
    split; [exact H3|]. split; [reflexivity|]. split; [reflexivity|]. exact HB.
  - unfold enc_chunk, enc_chunk_top, mk_chunk, pstr.
    cbn [k_start k_end k_usize k_crc k_comp k_records].
    rewrite !blen_app, !blen_u64, !blen_u32, blen_nil. unfold two63, two64 in *. lia.
  - exact HL.
Qed.

(* the same over an arbitrary stream reader state: take s0 := sr_s r and D := [] *)
Lemma sr_s_adv r R : ps_buf (sr_s r) = R -> sr_s r = adv (sr_s r) [] R.
Proof. intros <-. symmetry. apply adv_nil. Qed.

Theorem sr_iter_rec_stream r x R :
  ps_buf (sr_s r) = frame (rec_op x) (rec_body x) ++ R ->
  pwf_rec x -> is_chunk x = false ->
  blen (rec_body x) < two64 -> limit_ok (sr_limit r) (blen (rec_body x)) ->
  dataend_bad r (Some x) = false ->
  exists s', sr_iter r = POk ([py_norm x], is_footer (Some x), s')
             /\ advance (sr_s r) (frame (rec_op x) (rec_body x)) s' /\ ps_buf s' = R.
Proof.
  intros HB W NC HL HLim HD.
  exists (adv (sr_s r) (frame (rec_op x) (rec_body x)) R). split; [|split].
  - rewrite (sr_iter_rec r (sr_s r) [] x R (sr_s_adv r _ HB) W NC HL HLim HD). reflexivity.
  - apply adv_advance, HB.
  - reflexivity.
Qed.

(* ---------- a checker for the DataEnd condition ---------- *)
Fixpoint dataend_okb (D : bytes) (items : list pitem) : bool :=
  match items with
  | [] => true
  | p :: rest =>
    match p with
    | PIRec (PDataEnd d) => (de_crc d =? 0) || (de_crc d =? crc32 D)
    | _ => true
    end && dataend_okb (D ++ pitem_bytes p) rest
  end.

Lemma dataend_okb_ok v items : forall D, dataend_okb D items = true -> dataend_ok v D items.
Proof.
  induction items as [|p items IH]; intros D H V pre d post E.
  - destruct pre; discriminate E.
  - cbn [dataend_okb] in H. apply andb_true_iff in H. destruct H as [Hp H].
    destruct pre as [|q pre]; cbn [app] in E; injection E as -> ->.
    + cbn [py_render map concat]. rewrite app_nil_r.
      apply orb_true_iff in Hp. destruct Hp as [Z|Z]; apply N.eqb_eq in Z; auto.
    + rewrite py_render_cons, app_assoc. apply (IH _ H V pre d post eq_refl).
Qed.

(* ====================================================================== *)
(** * 9. non-vacuity: a concrete file satisfying every hypothesis *)

Definition px_header : header := {| h_profile := [x78]; h_library := [x6c; x69; x62] |}.
Definition px_schema : schema :=
  {| s_id := 1; s_name := [x73]; s_encoding := [xc3; xa9]; s_data := [x00; xff; x80] |}.
(* metadata written as "b" -> "2", "a" -> "1": Go sorts the keys *)
Definition px_kvs : kvs := [([x62], [x32]); ([x61], [x31])].
Definition px_channel : channel :=
  {| c_id := 1; c_schema := 1; c_topic := [x2f; x74]; c_menc := [x6d]; c_meta := px_kvs |}.
Definition px_msg1 : message :=
  {| m_chan := 1; m_seq := 1; m_log := 20; m_pub := 20; m_data := [x01; x02; x03] |}.
Definition px_msg2 : message :=
  {| m_chan := 1; m_seq := 2; m_log := 10; m_pub := 10; m_data := [] |}.
Definition px_inner : list pinner :=
  [NMessage px_msg1; NOther x7f [x00; x01]; NMessage px_msg2].
Definition px_chunk_crc : N := Eval vm_compute in crc32 (chunk_bytes px_inner).
Definition px_attachment : attachment :=
  {| a_log := 5; a_create := 6; a_name := [x61; x74; x74]; a_media := [x74; x78; x74]; a_size := 4;
     a_data := [x64; x61; x74; x61] |}.
Definition px_metadata : metadata := {| md_name := [x6d; x64]; md_meta := px_kvs |}.
Definition px_msgindex : msgindex := {| mi_chan := 1; mi_entries := [(20, 0); (10, 45)] |}.
Definition px_data : list pitem :=
  [ PIRec (PHeader px_header); PIRec (PSchema px_schema); PIRec (PChannel px_channel);
    PIChunk 10 20 px_chunk_crc px_inner; PIRec (PMsgIndex px_msgindex);
    PIAttach px_attachment 7; PIUnknown x80 [xaa]; PIRec (PMetadata px_metadata) ].
Definition px_dataend_crc : N := Eval vm_compute in crc32 (magic ++ py_render px_data).
Definition px_dataend : dataend := {| de_crc := px_dataend_crc |}.
Definition px_chunkindex : chunkindex :=
  {| ci_start := 10; ci_end := 20; ci_offset := 111; ci_length := 112; ci_mioffsets := [(1, 300)];
     ci_milength := 0; ci_comp := []; ci_csize := 83; ci_usize := 83 |}.
Definition px_statistics : statistics :=
  {| st_messages := 2; st_schemas := 1; st_channels := 1; st_attachments := 1; st_metadata := 1;
     st_chunks := 1; st_start := 10; st_end := 20; st_counts := [(1, 2)] |}.
Definition px_footer : footer := {| f_summary_start := 400; f_summary_offset_start := 0; f_crc := 0 |}.
Definition px_attindex : attindex :=
  {| ai_offset := 250; ai_length := 60; ai_log := 5; ai_create := 6; ai_size := 4;
     ai_name := [x61; x74; x74]; ai_media := [x74; x78; x74] |}.
Definition px_mdindex : mdindex := {| mx_offset := 330; mx_length := 40; mx_name := [x6d; x64] |}.
Definition px_sumoffset : sumoffset := {| so_op := OpSchema; so_start := 400; so_length := 30 |}.
Definition px_body : list pitem :=
  px_data ++ [ PIRec (PDataEnd px_dataend); PIRec (PSchema px_schema); PIRec (PChannel px_channel);
               PIRec (PChunkIndex px_chunkindex); PIRec (PAttIndex px_attindex);
               PIRec (PMdIndex px_mdindex); PIRec (PStatistics px_statistics);
               PIRec (PSumOffset px_sumoffset) ].
Definition px_file : list pitem := px_body ++ [PIRec (PFooter px_footer)].

Ltac wf_solve :=
  repeat match goal with
  | |- _ /\ _ => split
  | |- Forall _ _ => constructor
  | |- NoDup _ => constructor
  | |- True => exact I
  | |- _ \/ _ => first [left; vm_compute; reflexivity | right; vm_compute; reflexivity]
  | |- @eq _ _ _ => vm_compute; reflexivity
  | |- N.lt _ _ => vm_compute; reflexivity
  | |- N.le _ _ => vm_compute; discriminate
  | |- _ -> _ => intro
  | |- _ => progress hnf
  end.

Example px_header_wf : pwf_header px_header. Proof. wf_solve. Qed.
Example px_schema_wf : pwf_schema px_schema. Proof. wf_solve. Qed.
Example px_channel_wf : pwf_channel px_channel. Proof. wf_solve. Qed.
Example px_message_wf : wf_message px_msg1 /\ blen (m_data px_msg1) < two63. Proof. wf_solve. Qed.
Example px_attachment_wf : pwf_attachment px_attachment (a_data px_attachment). Proof. wf_solve. Qed.
Example px_metadata_wf : pwf_metadata px_metadata. Proof. wf_solve. Qed.
Example px_chunkindex_wf : pwf_chunkindex px_chunkindex. Proof. wf_solve. Qed.
Example px_statistics_wf : wf_statistics px_statistics. Proof. wf_solve. Qed.
Example px_msgindex_wf : wf_msgindex px_msgindex. Proof. wf_solve. Qed.
Example px_attindex_wf : pwf_attindex px_attindex. Proof. wf_solve. Qed.
Example px_mdindex_wf : pwf_mdindex px_mdindex. Proof. wf_solve. Qed.
Example px_sumoffset_wf : wf_sumoffset px_sumoffset. Proof. wf_solve. Qed.
Example px_footer_wf : wf_footer px_footer. Proof. wf_solve. Qed.
Example px_dataend_wf : wf_dataend px_dataend. Proof. wf_solve. Qed.
Example px_inner_wf : Forall pwf_inner px_inner. Proof. wf_solve. Qed.
Example px_chunk_wf : pwf_chunk (mk_chunk 10 20 px_chunk_crc px_inner). Proof. wf_solve. Qed.

Example px_chunk_crc_ok : chunk_crc_ok true px_chunk_crc px_inner.
Proof. intros _. right. vm_compute. reflexivity. Qed.

Example px_file_wf v e : pwf_file v e px_file.
Proof.
  exists px_body, px_footer. split; [reflexivity|]. split; [|split].
  - unfold px_file, px_body, px_data. cbn [app]. wf_solve.
  - unfold px_body, px_data. cbn [app]. wf_solve.
  - apply dataend_okb_ok. vm_compute. reflexivity.
Qed.

Example px_refs_ok : refs_ok [] (py_expected px_file) = true.
Proof. vm_compute. reflexivity. Qed.

(* the theorem's right-hand side is what the model computes on this file *)
Example px_stream_records_computed :
  stream_records (the_file px_file) false false true limit_4g = (py_expected px_file, EStop).
Proof. vm_compute. reflexivity. Qed.
