(* DecisionsL_gen.v - GENERATED on every run by tools/gen_decisions.py from the Go AST of /repo/go/mcap
   (lexer.go, mcap.go) through tools/gotrans.
   Do not edit. Each definition is one boolean decision of the code, over the model's state. *)
From Coq Require Import List NArith ZArith Bool.
From Mcap Require Import Bytes GoSem Records Lexer Writer Reader.
Import ListNotations.

Definition go_notnil {A} (x : option A) : bool := match x with Some _ => true | None => false end.
Definition go_isnil {A} (x : option A) : bool := match x with Some _ => false | None => true end.

Definition go_lx_leave_chunk (in_chunk eof ueof : bool) : bool :=
  (andb (in_chunk) (orb (eof) (ueof))).
Definition go_lx_magic_end (hd : bytes) : bool :=
  (andb (N.eqb (N.of_nat (List.length hd)) (8%N)) (bytes_eqb hd magic)).
Definition go_lx_record_too_large (lo : lopts) (rlen : N) : bool :=
  (andb (N.ltb 0%N (lo_max_record lo)) (N.ltb (lo_max_record lo) (rlen))).
Definition go_lx_att_too_long (rlen : N) : bool :=
  (N.ltb (9223372036854775807%N) (rlen)).
Definition go_lx_grow_p (pcap rlen : N) : bool :=
  (N.ltb (pcap) (rlen)).
Definition go_lx_nested (in_chunk : bool) : bool :=
  (in_chunk).
Definition go_lx_complen (rlen need : N) : bool :=
  (N.ltb (rlen) (N.add (N.add (N.add (N.add ((8 + 8))%N (8)%N) (4)%N) (4)%N) (need))).
Definition go_lx_scratch_grow (bufcap need : N) : bool :=
  (N.ltb (bufcap) (need)).
Definition go_lx_chunk_too_large (lo : lopts) (usize : N) : bool :=
  (andb (N.ltb 0%N (lo_max_chunk lo)) (N.ltb (lo_max_chunk lo) (usize))).
Definition go_lx_ubuf_grow (ubuf usize : N) : bool :=
  (N.ltb (ubuf) (usize)).
Definition go_lx_usize_range (usize : N) : bool :=
  (N.ltb (max_int32) (usize)).
Definition go_lx_crc_mismatch (ucrc crc : N) : bool :=
  (andb (N.ltb 0%N (ucrc)) (negb (N.eqb (crc) (ucrc)))).
Definition go_make_safe_ok (n : N) : bool :=
  (N.ltb (n) (max_int32)).
