(* WriterFactsB.v - facts about the writer model used by properties C14 (destination
   faults) and C06 (CRC ranges).  All proofs live here; properties/C14.v and C06.v only
   restate the theorems. *)
From Coq Require Import List NArith ZArith Bool Lia ZifyN ZifyNat ZifyBool.
From Coq.Strings Require Import Byte.
From RecordUpdate Require Import RecordSet.
From Mcap Require Import Bytes BytesFacts GoSem Crc32 Crc32Facts Records Writer.
Import ListNotations RecordSetNotations.
Open Scope N_scope.

(* ------------------------------------------------------------------------- *)
(* Part 0: the I/O fields of the state and states that agree on them          *)
(* ------------------------------------------------------------------------- *)
Definition iosame (s s' : wstate) : Prop :=
  w_out s' = w_out s /\ w_nw s' = w_nw s /\ w_failed s' = w_failed s /\ w_size s' = w_size s.

Lemma iosame_refl s : iosame s s.
Proof. unfold iosame; auto. Qed.
Lemma iosame_trans a b c : iosame a b -> iosame b c -> iosame a c.
Proof. unfold iosame; intuition congruence. Qed.

Ltac ios := unfold iosame; cbn; repeat split; reflexivity.

Section Facts.
Variable o : wopts.
Variable lib_id : bytes.
Variable compress : nat -> bytes -> bytes.

Lemma iosame_add_schema sc s : iosame s (add_schema sc s).
Proof. unfold add_schema. destruct (assoc_get _ _); ios. Qed.
Lemma iosame_add_channel c s : iosame s (add_channel c s).
Proof. unfold add_channel. destruct (assoc_get _ _); ios. Qed.
Lemma iosame_stats_time lt s : iosame s (stats_time lt s).
Proof.
  unfold stats_time. destruct (w_st_end s <? lt); cbn;
  match goal with |- context [if ?c then _ else _] => destruct c end; ios.
Qed.

(* ------------------------------------------------------------------------- *)
(* Part 1: steps - everything a writer function does to the I/O fields is a   *)
(* sequence of dst_write calls                                                *)
(* ------------------------------------------------------------------------- *)
Inductive steps (flt : option fault) : wstate -> wstate -> Prop :=
| st_io s s' : iosame s s' -> steps flt s s'
| st_w p s : steps flt s (fst (dst_write o flt p s))
| st_trans s1 s2 s3 : steps flt s1 s2 -> steps flt s2 s3 -> steps flt s1 s3.

(* J: the function only steps, and a nil result means that w_failed did not change *)
Definition J (flt : option fault) (s : wstate) (r : wres) : Prop :=
  steps flt s (fst r) /\ (snd r = None -> w_failed (fst r) = w_failed s).

Lemma J_steps flt s r : J flt s r -> steps flt s (fst r).
Proof. intros [H _]; exact H. Qed.

Lemma J_ret flt s s' e : iosame s s' -> J flt s (s', e).
Proof. intro H. split; cbn. apply st_io, H. intros _. apply H. Qed.

Lemma J_dst flt p s : J flt s (dst_write o flt p s).
Proof.
  split. apply st_w.
  unfold dst_write. destruct flt as [f|]; cbn.
  - destruct (Nat.eqb (ft_index f) (w_nw s)); cbn; [discriminate|].
    destruct (ft_permanent f && w_failed s); cbn; [discriminate|reflexivity].
  - reflexivity.
Qed.

Lemma J_bind flt s a k : J flt s a -> (forall s1, J flt s1 (k s1)) -> J flt s (bindw a k).
Proof.
  intros [Ha Hf] Hk. destruct a as [s1 [e|]]; cbn in *.
  - split; cbn; [exact Ha|discriminate].
  - destruct (Hk s1) as [Hk1 Hk2]. split.
    + eapply st_trans; eauto.
    + intro E. rewrite Hk2, Hf; auto.
Qed.

(* sequencing through a (state, error) pair obtained by destructing a triple *)
Lemma J_seq flt s s1 e1 r :
  J flt s (s1, e1) -> (e1 = None -> J flt s1 r) -> (forall e, e1 = Some e -> r = (s1, Some e)) -> J flt s r.
Proof.
  intros [Ha Hf] H1 H2. cbn in *. destruct e1 as [e|].
  - rewrite (H2 e eq_refl). split; cbn; [exact Ha|discriminate].
  - destruct (H1 eq_refl) as [Hk1 Hk2]. split.
    + eapply st_trans; eauto.
    + intro E. rewrite Hk2, Hf; auto.
Qed.

Lemma J_log flt it s : J flt s (log it s).
Proof. apply J_ret. ios. Qed.
Lemma J_chunk_write flt p s : J flt s (chunk_write p s).
Proof. apply J_ret. ios. Qed.

Ltac jt :=
  lazymatch goal with
  | |- J _ _ (bindw _ _) => apply J_bind; [jt | intro; jt]
  | |- J _ _ (dst_write _ _ _ _) => apply J_dst
  | |- J _ _ (log _ _) => apply J_log
  | |- J _ _ (chunk_write _ _) => apply J_chunk_write
  | |- J _ _ (if ?c then _ else _) => destruct c; jt
  | |- J _ _ (_, _) => apply J_ret; first [ios | eauto using iosame_refl, iosame_add_schema, iosame_add_channel, iosame_stats_time]
  | |- _ => eauto
  end.

Lemma J_write_record_dst flt op body s : J flt s (write_record_dst o flt op body s).
Proof. unfold write_record_dst. jt. Qed.
Lemma J_write_record_chunk flt op body s : J flt s (write_record_chunk op body s).
Proof. unfold write_record_chunk. jt. Qed.
Lemma J_write_record_auto flt op body s : J flt s (write_record_auto o flt op body s).
Proof. unfold write_record_auto. destruct (in_chunk o s); auto using J_write_record_dst, J_write_record_chunk. Qed.
Hint Resolve J_write_record_dst J_write_record_chunk J_write_record_auto : core.

Lemma J_write_header flt h s : J flt s (write_header o lib_id flt h s).
Proof. unfold write_header. jt. Qed.
Lemma J_write_schema flt sc s : J flt s (write_schema o flt sc s).
Proof. unfold write_schema. jt. Qed.
Lemma J_write_channel flt c s : J flt s (write_channel o flt c s).
Proof. unfold write_channel. jt. Qed.
Lemma J_write_msgindex flt mi s : J flt s (write_msgindex o flt mi s).
Proof. unfold write_msgindex. jt. Qed.
Hint Resolve J_write_header J_write_schema J_write_channel J_write_msgindex : core.

Lemma J_write_msgindexes flt l : forall offs s, J flt s (fst (write_msgindexes o flt l offs s)).
Proof.
  induction l as [|mi r IH]; intros offs s; cbn [write_msgindexes].
  - apply J_ret, iosame_refl.
  - destruct (mi_entries mi) as [|e es]; [apply IH|].
    pose proof (J_write_msgindex flt mi s) as H.
    destruct (write_msgindex o flt mi s) as [s' [e'|]]; cbn [fst].
    + exact H.
    + eapply J_seq; [exact H| |discriminate]. intros _. apply IH.
Qed.

Lemma J_write_chunk_with_indexes flt k mis s : J flt s (write_chunk_with_indexes o flt k mis s).
Proof.
  unfold write_chunk_with_indexes. destruct (k_usize k =? 0); [apply J_ret, iosame_refl|].
  apply J_bind; [jt|intro s1]. apply J_bind; [jt|intro s2]. apply J_bind; [jt|intro s3].
  assert (H : J flt s3 (fst (if negb (o_skip_mi o) then write_msgindexes o flt mis [] s3 else (s3, None, [])))).
  { destruct (negb (o_skip_mi o)); [apply J_write_msgindexes|apply J_ret, iosame_refl]. }
  destruct (if negb (o_skip_mi o) then _ else _) as [[s4 e4] offs]. cbn [fst] in H.
  eapply J_seq; [exact H| |]; intros; subst; [apply J_ret; ios|reflexivity].
Qed.
Hint Resolve J_write_chunk_with_indexes : core.

Lemma J_io_pre flt s s' r : iosame s s' -> J flt s' r -> J flt s r.
Proof.
  intros Hs [H1 H2]. split.
  - eapply st_trans; [apply st_io, Hs|exact H1].
  - intro E. rewrite H2 by exact E. apply Hs.
Qed.

Lemma J_flush_active_chunk flt s : J flt s (flush_active_chunk o compress flt s).
Proof.
  unfold flush_active_chunk. destruct (w_cbuf s) eqn:E; [apply J_ret, iosame_refl|].
  destruct (if w_cur_count s =? 0 then _ else _) as [st en].
  apply J_bind; [|intro; apply J_ret; ios].
  eapply J_io_pre; [|apply J_write_chunk_with_indexes]. ios.
Qed.
Hint Resolve J_flush_active_chunk : core.

Lemma J_write_message flt m s : J flt s (write_message o compress flt m s).
Proof.
  unfold write_message. destruct (assoc_get _ _); [|apply J_ret, iosame_refl].
  match goal with |- context [in_chunk o ?s'] => destruct (in_chunk o s') end.
  - eapply J_io_pre; [|apply J_bind; [apply J_write_record_chunk|intro s1]]. ios.
    apply J_bind.
    + match goal with |- J _ _ (if ?c then _ else _) => destruct c end.
      * eapply J_io_pre; [|apply J_flush_active_chunk].
        cbn. destruct (_ <? m_log m); cbn; destruct (m_log m <? _); ios.
      * apply J_ret. cbn. destruct (_ <? m_log m); cbn; destruct (m_log m <? _); ios.
    + intro s2. apply J_ret, iosame_stats_time.
  - eapply J_io_pre; [|apply J_bind; [apply J_write_record_dst|intro s1]]. ios.
    apply J_ret, iosame_stats_time.
Qed.

Lemma J_copy_frags flt fr : forall n s, J flt s (fst (copy_frags o flt fr n s)).
Proof.
  induction fr as [|p r IH]; intros n s; cbn [copy_frags].
  - apply J_ret, iosame_refl.
  - pose proof (J_dst flt p s) as H.
    destruct (dst_write o flt p s) as [s' [e'|]]; cbn [fst].
    + exact H.
    + eapply J_seq; [exact H| |discriminate]. intros _. apply IH.
Qed.

Lemma J_write_attachment flt a src s : J flt s (write_attachment o flt a src s).
Proof.
  unfold write_attachment.
  apply J_bind; [jt|intro s1]. apply J_bind; [jt|intro s2].
  pose proof (J_copy_frags flt (as_frags src) 0 s2) as H.
  destruct (copy_frags o flt (as_frags src) 0 s2) as [[s3 e3] n]. cbn [fst] in H.
  eapply J_seq; [exact H| |]; intros; subst; [|reflexivity].
  destruct (as_fail src); [apply J_ret, iosame_refl|].
  destruct (negb (n =? a_size a)); [apply J_ret, iosame_refl|].
  jt.
Qed.

Lemma J_write_metadata flt m s : J flt s (write_metadata o flt m s).
Proof. unfold write_metadata. jt. Qed.

Lemma J_write_all flt {A} (f : A -> wstate -> wres) l :
  (forall x s, J flt s (f x s)) -> forall s, J flt s (write_all f l s).
Proof.
  intro Hf. induction l as [|x r IH]; intro s; cbn [write_all].
  - apply J_ret, iosame_refl.
  - apply J_bind; auto.
Qed.

(* ----- write_summary as a composition of uniform segments ----- *)
Definition seg (cond : wstate -> bool) (body : wstate -> wres) (op : byte) (s : wstate) (offs : list sumoffset)
  : wstate * option err * list sumoffset :=
  if cond s then
    let start := w_size s in
    match body s with
    | (s', None) => (s', None, offs ++ [group op start s'])
    | (s', Some e) => (s', Some e, offs)
    end
  else (s, None, offs).
Definition seq3 (x : wstate * option err * list sumoffset)
  (k : wstate -> list sumoffset -> wstate * option err * list sumoffset) :=
  let '(s, e, offs) := x in
  match e with Some e => (s, Some e, offs) | None => k s offs end.

Definition nonempty {A} (l : list A) : bool := negb (match l with [] => true | _ => false end).

Definition seg_schemas flt := seg (fun s => negb (o_skip_rsh o) && nonempty (w_schemas s))
  (fun s => write_all (fun sc => write_schema o flt sc) (map snd (w_schemas s)) s) OpSchema.
Definition seg_channels flt := seg (fun s => negb (o_skip_rch o) && nonempty (w_channels s))
  (fun s => write_all (fun c => write_channel o flt c) (map snd (w_channels s)) s) OpChannel.
Definition seg_stats flt := seg (fun s => negb (o_skip_stats o))
  (fun s => write_record_dst o flt OpStatistics (enc_statistics (stats_record s)) s) OpStatistics.
Definition seg_ci flt := seg (fun s => negb (o_skip_ci o) && nonempty (w_chunk_indexes s))
  (fun s => write_all (fun ci => write_record_dst o flt OpChunkIndex (enc_chunkindex ci)) (w_chunk_indexes s) s) OpChunkIndex.
Definition seg_ai flt := seg (fun s => negb (o_skip_ai o) && nonempty (w_att_indexes s))
  (fun s => write_all (fun ai => write_record_dst o flt OpAttachmentIndex (enc_attindex ai)) (w_att_indexes s) s) OpAttachmentIndex.
Definition seg_mdi flt := seg (fun s => negb (o_skip_mdi o) && nonempty (w_md_indexes s))
  (fun s => write_all (fun mx => write_record_dst o flt OpMetadataIndex (enc_mdindex mx)) (w_md_indexes s) s) OpMetadataIndex.

Lemma write_summary_segs flt s :
  write_summary o flt s =
  seq3 (seg_schemas flt s []) (fun s offs =>
  seq3 (seg_channels flt s offs) (fun s offs =>
  seq3 (seg_stats flt s offs) (fun s offs =>
  seq3 (seg_ci flt s offs) (fun s offs =>
  seq3 (seg_ai flt s offs) (fun s offs => seg_mdi flt s offs))))).
Proof. reflexivity. Qed.

Definition J3 flt s (r : wstate * option err * list sumoffset) := J flt s (fst r).

Lemma J3_seg flt cond body op s offs : (forall s, J flt s (body s)) -> J3 flt s (seg cond body op s offs).
Proof.
  intro Hb. unfold J3, seg. destruct (cond s); [|apply J_ret, iosame_refl].
  specialize (Hb s). destruct (body s) as [s' [e|]]; exact Hb.
Qed.
Lemma J3_seq3 flt s x k : J3 flt s x -> (forall s1 offs, J3 flt s1 (k s1 offs)) -> J3 flt s (seq3 x k).
Proof.
  unfold J3, seq3. destruct x as [[s1 e1] offs]. cbn [fst]. intros H Hk.
  eapply J_seq; [exact H| |]; intros; subst; [apply Hk|reflexivity].
Qed.

Lemma J_write_summary flt s : J flt s (fst (write_summary o flt s)).
Proof.
  rewrite write_summary_segs. change (J3 flt s (seq3 (seg_schemas flt s []) (fun s offs =>
  seq3 (seg_channels flt s offs) (fun s offs =>
  seq3 (seg_stats flt s offs) (fun s offs =>
  seq3 (seg_ci flt s offs) (fun s offs =>
  seq3 (seg_ai flt s offs) (fun s offs => seg_mdi flt s offs))))))).
  repeat (apply J3_seq3; [|intros]);
  apply J3_seg; intro; first [apply J_write_all; intros; auto using J_write_schema, J_write_channel, J_write_record_dst
                             | apply J_write_record_dst].
Qed.

Lemma J_write_footer flt ss sos s : J flt s (write_footer o flt ss sos s).
Proof. unfold write_footer. jt. Qed.

Lemma J_close flt s : J flt s (close o compress flt s).
Proof.
  unfold close.
  apply J_bind; [destruct (o_chunked o); [apply J_flush_active_chunk|apply J_ret, iosame_refl]|intro s1].
  eapply J_io_pre; [|apply J_bind; [apply J_write_record_dst|intro s2]]. ios.
  match goal with |- context [write_summary o flt ?s'] =>
    pose proof (J_write_summary flt s') as H; destruct (write_summary o flt s') as [[s3 e3] offs] end.
  cbn [fst] in H.
  eapply J_io_pre; [|eapply J_seq; [exact H| |]]; [ios| |intros; subst; reflexivity].
  intros ->.
  apply J_bind; [|intro s4; apply J_bind; [apply J_write_footer|intro s5; jt]].
  destruct (negb (o_skip_so o) && _); [|apply J_ret, iosame_refl].
  apply J_write_all. intros. apply J_write_record_dst.
Qed.

Lemma J_new_writer flt : J flt init_state (new_writer o flt).
Proof. unfold new_writer. jt. Qed.

Lemma J_step flt c s : J flt s (step o lib_id compress flt c s).
Proof.
  destruct c; cbn [step]; auto using J_write_header, J_write_schema, J_write_channel, J_write_message,
    J_write_attachment, J_write_metadata, J_close.
Qed.

(* ----- run_calls split into final state and results ----- *)
Fixpoint run_st flt (cs : list wcall) (s : wstate) : wstate :=
  match cs with [] => s | c :: r => run_st flt r (fst (step o lib_id compress flt c s)) end.
Fixpoint run_res flt (cs : list wcall) (s : wstate) : list (option err * nat) :=
  match cs with
  | [] => []
  | c :: r => let x := step o lib_id compress flt c s in (snd x, w_nw (fst x)) :: run_res flt r (fst x)
  end.
Lemma run_calls_split flt cs : forall s acc,
  run_calls o lib_id compress flt cs s acc = (run_st flt cs s, rev acc ++ run_res flt cs s).
Proof.
  induction cs as [|c r IH]; intros s acc; cbn [run_calls run_st run_res].
  - rewrite app_nil_r. reflexivity.
  - destruct (step o lib_id compress flt c s) as [s' e] eqn:E. rewrite IH. cbn [rev fst snd].
    rewrite <- app_assoc. reflexivity.
Qed.

Lemma steps_run_st flt cs : forall s, steps flt s (run_st flt cs s).
Proof.
  induction cs as [|c r IH]; intro s; cbn [run_st].
  - apply st_io, iosame_refl.
  - eapply st_trans; [apply J_steps, J_step|apply IH].
Qed.

End Facts.

(* ------------------------------------------------------------------------- *)
(* Part 2: C14 - error reporting, permanent faults, attachment sources         *)
(* ------------------------------------------------------------------------- *)
Section C14a.
Variable o : wopts.

Lemma dst_nw flt p s : w_nw (fst (dst_write o flt p s)) = S (w_nw s).
Proof. unfold dst_write. destruct (match flt with Some _ => _ | None => false end); reflexivity. Qed.

Lemma dst_out_len flt p s : length (w_out (fst (dst_write o flt p s))) = S (length (w_out s)).
Proof. unfold dst_write. destruct (match flt with Some _ => _ | None => false end); reflexivity. Qed.

Lemma steps_nw_mono flt s s' : steps o flt s s' -> (w_nw s <= w_nw s')%nat.
Proof.
  induction 1 as [s s' H|p s|s1 s2 s3 _ IH1 _ IH2].
  - destruct H as (_ & H & _). lia.
  - rewrite dst_nw. lia.
  - lia.
Qed.

Lemma dst_failed_mono flt p s : w_failed s = true -> w_failed (fst (dst_write o flt p s)) = true.
Proof.
  intro H. unfold dst_write. destruct (match flt with Some _ => _ | None => false end); cbn; auto.
Qed.

Lemma steps_failed_mono flt s s' : steps o flt s s' -> w_failed s = true -> w_failed s' = true.
Proof.
  induction 1 as [s s' H|p s|s1 s2 s3 _ IH1 _ IH2]; intro F; auto.
  - destruct H as (_ & _ & H & _). congruence.
  - apply dst_failed_mono, F.
Qed.

Lemma steps_out_len flt s s' : steps o flt s s' -> length (w_out s) = w_nw s -> length (w_out s') = w_nw s'.
Proof.
  induction 1 as [s s' H|p s|s1 s2 s3 _ IH1 _ IH2]; intro F; auto.
  - destruct H as (H1 & H2 & _). congruence.
  - rewrite dst_nw, dst_out_len. congruence.
Qed.

Variable f : fault.

(* a fault can only have triggered once the write counter has passed its index *)
Definition GI (s : wstate) : Prop := w_failed s = true -> (ft_index f < w_nw s)%nat.

Lemma dst_GI p s : GI s -> GI (fst (dst_write o (Some f) p s)).
Proof.
  unfold GI. intros H. rewrite dst_nw. unfold dst_write.
  destruct (Nat.eqb (ft_index f) (w_nw s)) eqn:E; cbn.
  - apply Nat.eqb_eq in E. intros _. lia.
  - destruct (ft_permanent f && w_failed s) eqn:E2; cbn.
    + intros _. apply andb_true_iff in E2. destruct E2 as [_ E2]. specialize (H E2). lia.
    + intro F. specialize (H F). lia.
Qed.

Lemma steps_GI s s' : steps o (Some f) s s' -> GI s -> GI s'.
Proof.
  induction 1 as [s s' H|p s|s1 s2 s3 _ IH1 _ IH2]; intro G; auto.
  - destruct H as (_ & H1 & H2 & _). unfold GI in *. rewrite H1, H2. exact G.
  - apply dst_GI, G.
Qed.

Lemma dst_hit p s : w_nw s = ft_index f -> w_failed (fst (dst_write o (Some f) p s)) = true.
Proof. intro E. unfold dst_write. rewrite E, Nat.eqb_refl. reflexivity. Qed.

Lemma steps_hit s s' : steps o (Some f) s s' ->
  (w_nw s <= ft_index f < w_nw s')%nat -> w_failed s' = true.
Proof.
  induction 1 as [s s' H|p s|s1 s2 s3 H1 IH1 H2 IH2]; intro R.
  - destruct H as (_ & H1 & _). lia.
  - rewrite dst_nw in R. apply dst_hit. lia.
  - destruct (Nat.ltb_spec (ft_index f) (w_nw s2)).
    + eapply steps_failed_mono; [exact H2|]. apply IH1. lia.
    + apply IH2. lia.
Qed.

(* the key lemma: a function that performed the faulty write returns an error *)
Lemma J_error_reported s r :
  J o (Some f) s r -> GI s -> (w_nw s <= ft_index f < w_nw (fst r))%nat -> snd r <> None.
Proof.
  intros [H1 H2] G R E.
  pose proof (steps_hit _ _ H1 R) as F. rewrite (H2 E) in F. specialize (G F). lia.
Qed.

Lemma GI_init : GI init_state.
Proof. unfold GI. cbn. discriminate. Qed.

End C14a.

Definition writes_before (n0 : nat) (rs : list (option err * nat)) (i : nat) : nat :=
  match i with
  | O => n0
  | S j => match nth_error rs j with Some (_, m) => m | None => O end
  end.

Section C14b.
Variable o : wopts.
Variable lib_id : bytes.
Variable compress : nat -> bytes -> bytes.
Variable f : fault.

Lemma run_res_error_reported cs : forall s i e n, GI f s ->
  nth_error (run_res o lib_id compress (Some f) cs s) i = Some (e, n) ->
  (writes_before (w_nw s) (run_res o lib_id compress (Some f) cs s) i <= ft_index f < n)%nat ->
  e <> None.
Proof.
  induction cs as [|c r IH]; intros s i e n G Hn R; cbn [run_res] in *.
  - destruct i; discriminate.
  - pose proof (J_step o lib_id compress (Some f) c s) as HJ.
    destruct i as [|i]; cbn [nth_error writes_before] in *.
    + inversion Hn; subst. eapply J_error_reported; eauto.
    + apply (IH (fst (step o lib_id compress (Some f) c s)) i e n).
      * eapply steps_GI; [apply J_steps, HJ|exact G].
      * exact Hn.
      * destruct i as [|i]; cbn [writes_before nth_error] in *; exact R.
Qed.

Lemma W_unfold o0 flt cs :
  W o0 lib_id compress flt cs =
  match new_writer (effective_opts o0) flt with
  | (s, Some e) => {| r_new := Some e; r_calls := []; r_writes := rev (w_out s); r_final := s |}
  | (s, None) =>
    let s' := run_st (effective_opts o0) lib_id compress flt cs s in
    {| r_new := None; r_calls := run_res (effective_opts o0) lib_id compress flt cs s;
       r_writes := rev (w_out s'); r_final := s' |}
  end.
Proof.
  unfold W. destruct (new_writer (effective_opts o0) flt) as [s [e|]]; [reflexivity|].
  rewrite run_calls_split. reflexivity.
Qed.

End C14b.

Theorem C14_error_reported_thm : forall o lib comp cs (f : fault),
  let R := W o lib comp (Some f) cs in
  let n0 := w_nw (fst (new_writer (effective_opts o) (Some f))) in
  ((ft_index f < n0)%nat -> r_new R <> None) /\
  (forall i e n, nth_error (r_calls R) i = Some (e, n) ->
     (writes_before n0 (r_calls R) i <= ft_index f < n)%nat -> e <> None).
Proof.
  intros o lib comp cs f R n0. subst R n0. rewrite W_unfold.
  pose proof (J_new_writer (effective_opts o) (Some f)) as HJ.
  destruct (new_writer (effective_opts o) (Some f)) as [s [e|]] eqn:E; cbn [fst r_new r_calls].
  - split; [discriminate|]. intros [|i]; discriminate.
  - split.
    + intro L. change (snd (s, @None err) <> None).
      eapply J_error_reported; [exact HJ|apply GI_init|cbn; lia].
    + intros i e n Hn R. eapply run_res_error_reported; [|exact Hn|exact R].
      eapply steps_GI; [apply J_steps in HJ; exact HJ|apply GI_init].
Qed.

(* ----- permanent faults: nothing is accepted after the faulty write ----- *)
Lemma In_skipn' {A} (x : A) n : forall l, In x (skipn n l) -> In x l.
Proof. induction n as [|n IH]; intros [|y l] H; cbn in *; auto. Qed.
Section C14perm.
Variable o : wopts.
Variable f : fault.
Hypothesis Hperm : ft_permanent f = true.

Definition Iperm (s : wstate) : Prop :=
  length (w_out s) = w_nw s /\
  ((ft_index f < w_nw s)%nat -> w_failed s = true) /\
  Forall (fun x : bytes => x = []) (skipn (S (ft_index f)) (rev (w_out s))).

Lemma dst_Iperm p s : Iperm s -> Iperm (fst (dst_write o (Some f) p s)).
Proof.
  intros (HL & HF & HA). unfold Iperm. rewrite dst_nw, dst_out_len. split; [congruence|].
  unfold dst_write. rewrite Hperm. cbn [andb].
  destruct (Nat.eqb (ft_index f) (w_nw s)) eqn:E; cbn -[skipn firstn Nat.div].
  - apply Nat.eqb_eq in E. split; [auto|].
    rewrite skipn_app, rev_length, HL, <- E.
    rewrite skipn_all2 by (rewrite rev_length; lia).
    replace (S (ft_index f) - ft_index f)%nat with 1%nat by lia. constructor.
  - apply Nat.eqb_neq in E. destruct (w_failed s) eqn:F; cbn -[skipn firstn Nat.div].
    + split; [auto|]. rewrite skipn_app. apply Forall_app. split; [exact HA|].
      apply Forall_forall. intros x Hx. apply In_skipn' in Hx.
      assert (Hin : In x [@nil byte]) by (destruct (ft_mode f); exact Hx).
      destruct Hin as [<-|[]]. reflexivity.
    + split.
      * intro L. exfalso. assert (X : false = true) by (apply HF; lia). discriminate X.
      * assert (w_nw s <= ft_index f)%nat.
        { destruct (Nat.ltb_spec (ft_index f) (w_nw s)) as [L|L]; [|lia]. specialize (HF L). congruence. }
        rewrite skipn_all2; [constructor|]. rewrite app_length, rev_length. cbn. lia.
Qed.

Lemma steps_Iperm s s' : steps o (Some f) s s' -> Iperm s -> Iperm s'.
Proof.
  induction 1 as [s s' H|p s|s1 s2 s3 _ IH1 _ IH2]; intro G; auto.
  - destruct H as (H0 & H1 & H2 & _). unfold Iperm in *. rewrite H0, H1, H2. exact G.
  - apply dst_Iperm, G.
Qed.

Lemma Iperm_init : Iperm init_state.
Proof. unfold Iperm. cbn. split; [reflexivity|]. split; [lia|]. constructor. Qed.

Lemma concat_all_nil (l : list bytes) : Forall (fun x : bytes => x = []) l -> concat l = [].
Proof. induction 1 as [|x l -> _ IH]; cbn; auto. Qed.

Lemma Iperm_concat s : Iperm s ->
  concat (rev (w_out s)) = concat (firstn (S (ft_index f)) (rev (w_out s))).
Proof.
  intros (_ & _ & HA).
  rewrite <- (firstn_skipn (S (ft_index f)) (rev (w_out s))) at 1.
  rewrite concat_app, (concat_all_nil _ HA), app_nil_r. reflexivity.
Qed.
End C14perm.

Theorem C14_permanent_stops_thm : forall o lib comp cs (f : fault),
  ft_permanent f = true ->
  let R := W o lib comp (Some f) cs in
  concat (r_writes R) = concat (firstn (S (ft_index f)) (r_writes R)).
Proof.
  intros o lib comp cs f Hp R. subst R. rewrite W_unfold.
  pose proof (J_new_writer (effective_opts o) (Some f)) as HJ. apply J_steps in HJ.
  destruct (new_writer (effective_opts o) (Some f)) as [s [e|]]; cbn [fst r_writes] in *.
  - apply Iperm_concat. eapply steps_Iperm; [exact Hp|exact HJ|apply Iperm_init].
  - apply Iperm_concat. eapply steps_Iperm; [exact Hp| |apply Iperm_init].
    eapply st_trans; [exact HJ|apply steps_run_st].
Qed.

(* ----- attachment data sources ----- *)
Lemma copy_frags_count o flt fr : forall n s s' n',
  copy_frags o flt fr n s = (s', None, n') -> n' = n + blen (concat fr).
Proof.
  induction fr as [|p r IH]; intros n s s' n' H; cbn [copy_frags] in H.
  - inversion H; subst. cbn. lia.
  - destruct (dst_write o flt p s) as [s1 [e|]]; [discriminate|].
    apply IH in H. subst. cbn [concat]. unfold blen. rewrite app_length. lia.
Qed.

Theorem C14_source_thm : forall o flt a src s,
  as_fail src = true \/ blen (concat (as_frags src)) <> a_size a ->
  snd (write_attachment o flt a src s) <> None.
Proof.
  intros o flt a src s H. unfold write_attachment.
  destruct (dst_write o flt (frame_head OpAttachment _) s) as [s1 [e|]]; cbn [bindw]; [cbn; discriminate|].
  destruct (dst_write o flt (enc_attachment_fields a) s1) as [s2 [e|]]; cbn [bindw]; [cbn; discriminate|].
  destruct (copy_frags o flt (as_frags src) 0 s2) as [[s3 [e|]] n] eqn:E; [cbn; discriminate|].
  destruct (as_fail src) eqn:F; [cbn; discriminate|].
  destruct H as [H|H]; [discriminate|].
  apply copy_frags_count in E. subst n. rewrite N.add_0_l.
  destruct (N.eqb_spec (blen (concat (as_frags src))) (a_size a)); [contradiction|].
  cbn. discriminate.
Qed.

(* ------------------------------------------------------------------------- *)
(* Part 3: named tails of the functions that destructure a triple              *)
(* ------------------------------------------------------------------------- *)
Definition seq3e {T} (x : wstate * option err * T) (k : wstate -> T -> wres) : wres :=
  let '(s, e, t) := x in
  match e with Some e => (s, Some e) | None => k s t end.

Section Tails.
Variable o : wopts.
Variable lib_id : bytes.
Variable compress : nat -> bytes -> bytes.

Definition wcwi_tail flt (k : chunk) (mis : list msgindex) (chunk_start : N) (s : wstate) : wres :=
  let chunk_end := w_size s in
  seq3e (if negb (o_skip_mi o) then write_msgindexes o flt mis [] s else (s, None, []))
    (fun s offs =>
      let mi_end := w_size s in
      let ci := {| ci_start := k_start k; ci_end := k_end k; ci_offset := chunk_start;
                   ci_length := chunk_end - chunk_start; ci_mioffsets := offs;
                   ci_milength := mi_end - chunk_end; ci_comp := k_comp k;
                   ci_csize := blen (k_records k); ci_usize := k_usize k |} in
      (s <| w_chunk_indexes := w_chunk_indexes s ++ [ci] |> <| w_st_chunks := w_st_chunks s + 1 |>, None)).

Lemma wcwi_unfold flt k mis s :
  write_chunk_with_indexes o flt k mis s =
  if k_usize k =? 0 then (s, None) else
  let chunk_start := w_size s in
  let head := frame_head OpChunk (blen (enc_chunk_top k) + blen (k_records k)) ++ enc_chunk_top k in
  do* s := dst_write o flt head s in
  do* s := dst_write o flt (k_records k) s in
  do* s := log (IChunk k) s in wcwi_tail flt k mis chunk_start s.
Proof. reflexivity. Qed.

Definition wa_tail flt (a : attachment) (src : asrc) (off : N) (s : wstate) : wres :=
  let fields := enc_attachment_fields a in
  seq3e (copy_frags o flt (as_frags src) 0 s)
    (fun s n =>
      if as_fail src then (s, Some EInjected) else
      if negb (n =? a_size a) then (s, Some EAttachmentSize) else
      let crc := crc32 (fields ++ concat (as_frags src)) in
      do* s := dst_write o flt (u32 crc) s in
      do* s := log (IAttach a (concat (as_frags src)) crc) s in
      let ai := {| ai_offset := off; ai_length := (9 + blen fields + a_size a + 4) mod two64;
                   ai_log := a_log a; ai_create := a_create a; ai_size := a_size a;
                   ai_name := a_name a; ai_media := a_media a |} in
      (s <| w_att_indexes := w_att_indexes s ++ [ai] |> <| w_st_attachments := w_st_attachments s + 1 |>, None)).

Lemma wa_unfold flt a src s :
  write_attachment o flt a src s =
  let fields := enc_attachment_fields a in
  let reclen := (blen fields + a_size a + 4) mod two64 in
  do* s1 := dst_write o flt (frame_head OpAttachment reclen) s in
  do* s2 := dst_write o flt fields s1 in wa_tail flt a src (w_size s) s2.
Proof. reflexivity. Qed.

Definition close_fin flt (start : N) (s : wstate) (offs : list sumoffset) : wres :=
  let ss := match offs with [] => 0 | _ => start end in
  let write_offsets := negb (o_skip_so o) && negb (match offs with [] => true | _ => false end) in
  let sos := if write_offsets then w_size s else 0 in
  do* s := (if write_offsets
            then write_all (fun so => write_record_dst o flt OpSummaryOffset (enc_sumoffset so)) offs s
            else (s, None)) in
  do* s := write_footer o flt ss sos s in
  do* s := dst_write o flt magic s in log IMagic s.

Definition close_tail flt (s : wstate) : wres :=
  let s := s <| w_crc := crc_init |> in
  seq3e (write_summary o flt s) (close_fin flt (w_size s)).

Lemma close_unfold flt s :
  close o compress flt s =
  do* s := (if o_chunked o then flush_active_chunk o compress flt s else (s, None)) in
  let s := s <| w_closed := true |> in
  do* s := write_record_dst o flt OpDataEnd (enc_dataend {| de_crc := checksum o s |}) s in
  close_tail flt s.
Proof. reflexivity. Qed.

Lemma J_seq3e flt {T} s (x : wstate * option err * T) k :
  J o flt s (fst x) -> (forall s1 t, J o flt s1 (k s1 t)) -> J o flt s (seq3e x k).
Proof.
  destruct x as [[s1 e1] t]. cbn [fst seq3e]. intros H Hk.
  eapply J_seq; [exact H| |]; intros; subst; [apply Hk|reflexivity].
Qed.

Lemma J_wcwi_tail flt k mis cs s : J o flt s (wcwi_tail flt k mis cs s).
Proof.
  unfold wcwi_tail. apply J_seq3e.
  - destruct (negb (o_skip_mi o)); [apply J_write_msgindexes|apply J_ret, iosame_refl].
  - intros. apply J_ret. ios.
Qed.

Lemma J_close_fin flt start s offs : J o flt s (close_fin flt start s offs).
Proof.
  unfold close_fin.
  apply J_bind; [|intro s4; apply J_bind; [apply J_write_footer|intro s5; apply J_bind; [apply J_dst|intro; apply J_log]]].
  destruct (negb (o_skip_so o) && _); [|apply J_ret, iosame_refl].
  apply J_write_all. intros. apply J_write_record_dst.
Qed.

Lemma J_close_tail flt s : J o flt s (close_tail flt s).
Proof.
  unfold close_tail. eapply J_io_pre; [|apply J_seq3e; [apply J_write_summary|intros; apply J_close_fin]]. ios.
Qed.

Lemma J_wa_tail flt a src off s : J o flt s (wa_tail flt a src off s).
Proof.
  unfold wa_tail. apply J_seq3e; [apply J_copy_frags|]. intros s1 n.
  destruct (as_fail src); [apply J_ret, iosame_refl|].
  destruct (negb (n =? a_size a)); [apply J_ret, iosame_refl|].
  apply J_bind; [apply J_dst|intro]. apply J_bind; [apply J_log|intro]. apply J_ret. ios.
Qed.

End Tails.

Ltac jfun := eauto using J_write_record_dst, J_write_record_chunk, J_write_record_auto, J_write_header,
       J_write_schema, J_write_channel, J_write_msgindex, J_write_chunk_with_indexes, J_flush_active_chunk,
       J_write_message, J_write_attachment, J_write_metadata, J_write_footer, J_close, J_wcwi_tail,
       J_close_tail, J_wa_tail, J_close_fin.
Ltac jt :=
  lazymatch goal with
  | |- J _ _ _ (bindw _ _) => apply J_bind; [jt | intro; jt]
  | |- J _ _ _ (dst_write _ _ _ _) => apply J_dst
  | |- J _ _ _ (log _ _) => apply J_log
  | |- J _ _ _ (chunk_write _ _) => apply J_chunk_write
  | |- J _ _ _ (if ?c then _ else _) => destruct c; jt
  | |- J _ _ _ (let _ := _ in _) => cbv zeta; jt
  | |- J _ _ _ (_, _) => apply J_ret;
       first [ios | eauto using iosame_refl, iosame_add_schema, iosame_add_channel, iosame_stats_time]
  | |- _ => first [ solve [jfun] | eapply J_io_pre; [|solve [jfun]]; ios ]
  end.

(* ------------------------------------------------------------------------- *)
(* Part 4: lock-step between the faulty run and the fault-free run             *)
(* ------------------------------------------------------------------------- *)
Lemma dst_grow o flt p s : exists x, w_out (fst (dst_write o flt p s)) = x :: w_out s.
Proof.
  unfold dst_write. destruct (match flt with Some _ => _ | None => false end); cbn; eauto.
Qed.

Lemma steps_grow o flt s s' : steps o flt s s' -> exists l, w_out s' = l ++ w_out s.
Proof.
  induction 1 as [s s' H|p s|s1 s2 s3 _ IH1 _ IH2].
  - exists []. apply H.
  - destruct (dst_grow o flt p s) as [x Hx]. exists [x]. exact Hx.
  - destruct IH1 as [l1 E1], IH2 as [l2 E2]. exists (l2 ++ l1). rewrite E2, E1, app_assoc. reflexivity.
Qed.

Lemma steps_bindw o flt a k :
  (forall s1, steps o flt s1 (fst (k s1))) -> steps o flt (fst a) (fst (bindw a k)).
Proof. intro H. destruct a as [s [e|]]; cbn; [apply st_io, iosame_refl|apply H]. Qed.

Section Lock.
Variable o : wopts.
Variable f : fault.
Notation F := (Some f).

Definition pre (s : wstate) : Prop :=
  (w_nw s <= ft_index f)%nat /\ w_failed s = false /\ length (w_out s) = w_nw s.

Definition hitrel (s0 s : wstate) : Prop :=
  exists acc t rest l0 l,
    w_out s = l ++ acc :: rest /\ w_out s0 = l0 ++ (acc ++ t) :: rest /\ length rest = ft_index f.

Definition lockg {A} (st : A -> wstate) (rf r0 : A) : Prop :=
  (rf = r0 /\ pre (st rf)) \/ hitrel (st r0) (st rf).
Definition lockr : wres -> wres -> Prop := lockg fst.
Definition st3 {T} (r : wstate * option err * T) : wstate := fst (fst r).

Lemma pre_io s s' : pre s -> iosame s s' -> pre s'.
Proof. intros (A & B & C) (H0 & H1 & H2 & _). unfold pre. rewrite H0, H1, H2. auto. Qed.

Lemma hitrel_steps s0 s s0' s' :
  hitrel s0 s -> steps o None s0 s0' -> steps o F s s' -> hitrel s0' s'.
Proof.
  intros (acc & t & rest & l0 & l & E1 & E2 & E3) H0 H1.
  apply steps_grow in H0. apply steps_grow in H1. destruct H0 as [m0 H0], H1 as [m1 H1].
  exists acc, t, rest, (m0 ++ l0), (m1 ++ l). rewrite H0, H1, E1, E2, <- !app_assoc. auto.
Qed.

Lemma lockg_seq {A B} (stA : A -> wstate) (stB : B -> wstate) xf x0 (kf k0 : A -> B) :
  lockg stA xf x0 ->
  (forall a, pre (stA a) -> lockg stB (kf a) (k0 a)) ->
  (forall a, steps o F (stA a) (stB (kf a))) ->
  (forall a, steps o None (stA a) (stB (k0 a))) ->
  lockg stB (kf xf) (k0 x0).
Proof.
  intros [[E P]|H] H1 H2 H3.
  - subst. apply H1, P.
  - right. eapply hitrel_steps; eauto.
Qed.

Lemma lock_ret s s' (e : option err) : pre s -> iosame s s' -> lockr (s', e) (s', e).
Proof. intros P H. left. split; [reflexivity|]. eapply pre_io; eauto. Qed.

Lemma lock_refl_io s (r : wres) : pre s -> iosame s (fst r) -> lockr r r.
Proof. intros P H. left. split; [reflexivity|]. eapply pre_io; eauto. Qed.

Lemma lock_dst p s : pre s -> lockr (dst_write o F p s) (dst_write o None p s).
Proof.
  intros (A & B & C). unfold dst_write. rewrite B, andb_false_r.
  destruct (Nat.eqb (ft_index f) (w_nw s)) eqn:E.
  - right. apply Nat.eqb_eq in E. cbn -[firstn Nat.div].
    set (acc := match ft_mode f with FErr => [] | FShort => firstn (length p / 2) p end).
    assert (Hp : exists t, p = acc ++ t).
    { unfold acc. destruct (ft_mode f); [exists p; reflexivity|].
      exists (skipn (length p / 2) p). symmetry. apply firstn_skipn. }
    destruct Hp as [t Hp].
    exists acc, t, (w_out s), [], []. cbn [app]. rewrite <- Hp. repeat split. lia.
  - left. split; [reflexivity|]. apply Nat.eqb_neq in E. unfold pre. cbn. repeat split; auto; lia.
Qed.

Lemma lock_bind af a0 kf k0 :
  lockr af a0 ->
  (forall s1, pre s1 -> lockr (kf s1) (k0 s1)) ->
  (forall s1, steps o F s1 (fst (kf s1))) ->
  (forall s1, steps o None s1 (fst (k0 s1))) ->
  lockr (bindw af kf) (bindw a0 k0).
Proof.
  intros H H1 H2 H3.
  apply (lockg_seq fst fst af a0 (fun r => bindw r kf) (fun r => bindw r k0)); auto.
  - intros [s [e|]] P; [exact (lock_ret s s _ P (iosame_refl s))|exact (H1 s P)].
  - intro a. apply steps_bindw, H2.
  - intro a. apply steps_bindw, H3.
Qed.

Lemma lock_seq3e {T} (xf x0 : wstate * option err * T) kf k0 :
  lockg st3 xf x0 ->
  (forall s1 t, pre s1 -> lockr (kf s1 t) (k0 s1 t)) ->
  (forall s1 t, steps o F s1 (fst (kf s1 t))) ->
  (forall s1 t, steps o None s1 (fst (k0 s1 t))) ->
  lockr (seq3e xf kf) (seq3e x0 k0).
Proof.
  intros H H1 H2 H3.
  apply (lockg_seq st3 fst xf x0 (fun r => seq3e r kf) (fun r => seq3e r k0)); auto.
  - intros [[s [e|]] t] P; [exact (lock_ret s s _ P (iosame_refl s))|exact (H1 s t P)].
  - intros [[s [e|]] t]; cbn; [apply st_io, iosame_refl|apply H2].
  - intros [[s [e|]] t]; cbn; [apply st_io, iosame_refl|apply H3].
Qed.

Lemma lock_io_pre s s' rf r0 : pre s -> iosame s s' -> (pre s' -> lockr rf r0) -> lockr rf r0.
Proof. intros P H K. apply K. eapply pre_io; eauto. Qed.

End Lock.

Ltac side := intros; apply J_steps; jt.
Ltac lk_ o :=
  lazymatch goal with
  | |- lockr _ (bindw _ _) (bindw _ _) => apply (lock_bind o); [lk_ o | intros ? ?; lk_ o | side | side]
  | |- lockr _ (dst_write _ _ _ _) (dst_write _ _ _ _) => apply lock_dst; assumption
  | |- lockr _ (if ?c then _ else _) (if ?c then _ else _) => destruct c; lk_ o
  | |- lockr _ (?s', _) (?s', _) =>
      match goal with
      | H : pre _ ?s |- _ => apply (lock_ret _ s s' _ H);
           first [ios | eauto using iosame_refl, iosame_add_schema, iosame_add_channel, iosame_stats_time]
      end
  | |- lockr _ (log ?it ?s) (log ?it ?s) =>
      match goal with H : pre _ s |- _ => apply (lock_ret _ s _ _ H); ios end
  | |- _ => eauto
  end.

Section LockFuns.
Variable o : wopts.
Variable lib_id : bytes.
Variable compress : nat -> bytes -> bytes.
Variable f : fault.
Notation F := (Some f).
Notation lockr := (lockr f).
Notation pre := (pre f).
Ltac lk := lk_ o.

Lemma lock_write_record_dst op body s :
  pre s -> lockr (write_record_dst o F op body s) (write_record_dst o None op body s).
Proof. intro P. unfold write_record_dst. lk. Qed.

Lemma lock_write_record_chunk op body s :
  pre s -> lockr (write_record_chunk op body s) (write_record_chunk op body s).
Proof. intro P. eapply lock_refl_io; [exact P|]. ios. Qed.

Lemma lock_write_record_auto op body s :
  pre s -> lockr (write_record_auto o F op body s) (write_record_auto o None op body s).
Proof.
  intro P. unfold write_record_auto.
  destruct (in_chunk o s); auto using lock_write_record_dst, lock_write_record_chunk.
Qed.

Lemma lock_write_header h s :
  pre s -> lockr (write_header o lib_id F h s) (write_header o lib_id None h s).
Proof. intro P. apply lock_write_record_dst, P. Qed.

Lemma lock_write_schema sc s :
  pre s -> lockr (write_schema o F sc s) (write_schema o None sc s).
Proof.
  intro P. unfold write_schema. destruct (s_id sc =? 0); [lk|].
  apply (lock_bind o); [apply lock_write_record_auto, P|intros ? ?; lk|side|side].
Qed.

Lemma lock_write_channel c s :
  pre s -> lockr (write_channel o F c s) (write_channel o None c s).
Proof.
  intro P. unfold write_channel. destruct (_ && _); [lk|].
  apply (lock_bind o); [apply lock_write_record_auto, P|intros ? ?; lk|side|side].
Qed.

Lemma lock_write_msgindexes l : forall offs s, pre s ->
  lockg f st3 (write_msgindexes o F l offs s) (write_msgindexes o None l offs s).
Proof.
  induction l as [|mi r IH]; intros offs s P; cbn [write_msgindexes].
  - left. split; [reflexivity|exact P].
  - destruct (mi_entries mi) as [|e es]; [apply IH, P|].
    apply (lockg_seq o f fst st3 (write_msgindex o F mi s) (write_msgindex o None mi s)
      (fun x => match x with
                | (s', None) => write_msgindexes o F r (offs ++ [(mi_chan mi, w_size s)]) s'
                | (s', Some e) => (s', Some e, offs ++ [(mi_chan mi, w_size s)]) end)
      (fun x => match x with
                | (s', None) => write_msgindexes o None r (offs ++ [(mi_chan mi, w_size s)]) s'
                | (s', Some e) => (s', Some e, offs ++ [(mi_chan mi, w_size s)]) end)).
    + apply lock_write_record_dst, P.
    + intros [s' [e'|]] P'; cbn [fst] in P'; [left; split; [reflexivity|exact P']|apply IH, P'].
    + intros [s' [e'|]]; cbn [fst st3]; [apply st_io, iosame_refl|apply (J_steps _ _ _ _ (J_write_msgindexes o F r _ s'))].
    + intros [s' [e'|]]; cbn [fst st3]; [apply st_io, iosame_refl|apply (J_steps _ _ _ _ (J_write_msgindexes o None r _ s'))].
Qed.

Lemma lock_wcwi_tail k mis cs s :
  pre s -> lockr (wcwi_tail o F k mis cs s) (wcwi_tail o None k mis cs s).
Proof.
  intro P. unfold wcwi_tail. apply (lock_seq3e o).
  - destruct (negb (o_skip_mi o)); [apply lock_write_msgindexes, P|left; split; [reflexivity|exact P]].
  - intros s1 t P1. lk.
  - side.
  - side.
Qed.

Lemma lock_write_chunk_with_indexes k mis s :
  pre s -> lockr (write_chunk_with_indexes o F k mis s) (write_chunk_with_indexes o None k mis s).
Proof.
  intro P. rewrite !wcwi_unfold. destruct (k_usize k =? 0); [lk|]. cbv zeta.
  apply (lock_bind o); [lk|intros s1 P1|side|side].
  apply (lock_bind o); [lk|intros s2 P2|side|side].
  apply (lock_bind o); [lk|intros s3 P3|side|side].
  apply lock_wcwi_tail, P3.
Qed.

Lemma lock_flush_active_chunk s :
  pre s -> lockr (flush_active_chunk o compress F s) (flush_active_chunk o compress None s).
Proof.
  intro P. unfold flush_active_chunk. destruct (w_cbuf s) eqn:E; [lk|].
  destruct (if w_cur_count s =? 0 then _ else _) as [st en].
  apply (lock_bind o); [|intros s1 P1; lk|side|side].
  apply lock_write_chunk_with_indexes. eapply pre_io; [exact P|ios].
Qed.

Definition wm_tail flt (m : message) (s : wstate) : wres :=
  let s := s <| w_cur_count := w_cur_count s + 1 |> in
  let s := if w_cur_end s <? m_log m then s <| w_cur_end := m_log m |> else s in
  let s := if m_log m <? w_cur_start s then s <| w_cur_start := m_log m |> else s in
  do* s := (if (o_chunksize o <? Z.of_N (blen (w_cbuf s)))%Z then flush_active_chunk o compress flt s else (s, None)) in
  (stats_time (m_log m) s, None).

Lemma J_wm_tail flt m s : J o flt s (wm_tail flt m s).
Proof.
  unfold wm_tail. cbv zeta. destruct (w_cur_end _ <? m_log m); destruct (m_log m <? w_cur_start _);
  (apply J_bind; [|intro; apply J_ret, iosame_stats_time];
   match goal with |- context [if ?c then flush_active_chunk _ _ _ _ else _] => destruct c end;
   [eapply J_io_pre; [|apply J_flush_active_chunk]; ios | apply J_ret; ios]).
Qed.

Lemma lock_wm_tail m s : pre s -> lockr (wm_tail F m s) (wm_tail None m s).
Proof.
  intro P1. unfold wm_tail.
  cbv zeta. destruct (w_cur_end _ <? m_log m); destruct (m_log m <? w_cur_start _);
  (apply (lock_bind o); [|intros s2 P2; lk|side|side];
   match goal with |- context [if ?c then flush_active_chunk _ _ _ _ else _] => destruct c end;
   [apply lock_flush_active_chunk; eapply pre_io; [exact P1|ios] | eapply lock_ret; [exact P1|ios]]).
Qed.

Lemma lock_write_message m s :
  pre s -> lockr (write_message o compress F m s) (write_message o compress None m s).
Proof.
  intro P. unfold write_message. destruct (assoc_get _ _); [|lk].
  match goal with |- context [in_chunk o ?s'] => destruct (in_chunk o s') end.
  - apply (lock_bind o f _ _ (wm_tail F m) (wm_tail None m)).
    + apply lock_write_record_chunk; eapply pre_io; [exact P|ios].
    + intros s1 P1. apply lock_wm_tail, P1.
    + intro. apply J_steps, J_wm_tail.
    + intro. apply J_steps, J_wm_tail.
  - apply (lock_bind o); [apply lock_write_record_dst; eapply pre_io; [exact P|ios]|intros s1 P1; lk|side|side].
Qed.

Lemma lock_copy_frags fr : forall n s, pre s ->
  lockg f st3 (copy_frags o F fr n s) (copy_frags o None fr n s).
Proof.
  induction fr as [|p r IH]; intros n s P; cbn [copy_frags].
  - left. split; [reflexivity|exact P].
  - apply (lockg_seq o f fst st3 (dst_write o F p s) (dst_write o None p s)
      (fun x => match x with
                | (s', None) => copy_frags o F r (n + blen p) s'
                | (s', Some e) => (s', Some e, n) end)
      (fun x => match x with
                | (s', None) => copy_frags o None r (n + blen p) s'
                | (s', Some e) => (s', Some e, n) end)).
    + apply lock_dst, P.
    + intros [s' [e'|]] P'; cbn [fst] in P'; [left; split; [reflexivity|exact P']|apply IH, P'].
    + intros [s' [e'|]]; cbn [fst st3]; [apply st_io, iosame_refl|apply (J_steps _ _ _ _ (J_copy_frags o F r _ s'))].
    + intros [s' [e'|]]; cbn [fst st3]; [apply st_io, iosame_refl|apply (J_steps _ _ _ _ (J_copy_frags o None r _ s'))].
Qed.

Lemma lock_wa_tail a src off s :
  pre s -> lockr (wa_tail o F a src off s) (wa_tail o None a src off s).
Proof.
  intro P. unfold wa_tail. apply (lock_seq3e o).
  - apply lock_copy_frags, P.
  - intros s1 n P1. lk.
  - side.
  - side.
Qed.

Lemma lock_write_attachment a src s :
  pre s -> lockr (write_attachment o F a src s) (write_attachment o None a src s).
Proof.
  intro P. rewrite !wa_unfold. cbv zeta.
  apply (lock_bind o); [lk|intros s1 P1|side|side].
  apply (lock_bind o); [lk|intros s2 P2|side|side].
  apply lock_wa_tail, P2.
Qed.

Lemma lock_write_metadata m s :
  pre s -> lockr (write_metadata o F m s) (write_metadata o None m s).
Proof.
  intro P. unfold write_metadata.
  apply (lock_bind o); [apply lock_write_record_dst, P|intros s1 P1; lk|side|side].
Qed.

Lemma lock_write_all {A} (gf g0 : A -> wstate -> wres) l :
  (forall x s, pre s -> lockr (gf x s) (g0 x s)) ->
  (forall x s, J o F s (gf x s)) -> (forall x s, J o None s (g0 x s)) ->
  forall s, pre s -> lockr (write_all gf l s) (write_all g0 l s).
Proof.
  intros H HF H0. induction l as [|x r IH]; intros s P; cbn [write_all].
  - lk.
  - apply (lock_bind o); [apply H, P|intros s1 P1; apply IH, P1| |];
    intros; apply J_steps, J_write_all; auto.
Qed.

End LockFuns.

Section LockTop.
Variable o : wopts.
Variable lib_id : bytes.
Variable compress : nat -> bytes -> bytes.
Variable f : fault.
Notation F := (Some f).
Notation lockr := (lockr f).
Notation pre := (pre f).
Ltac lk := lk_ o.

Lemma lock3_seg cond (bf b0 : wstate -> wres) op s offs :
  pre s -> (forall s, pre s -> lockr (bf s) (b0 s)) ->
  lockg f st3 (seg cond bf op s offs) (seg cond b0 op s offs).
Proof.
  intros P H. unfold seg. destruct (cond s); [|left; split; [reflexivity|exact P]].
  destruct (H s P) as [[E P']|B].
  - rewrite E in *. left. split; [reflexivity|]. destruct (b0 s) as [s' [e|]]; exact P'.
  - right. destruct (bf s) as [sf [ef|]], (b0 s) as [s0 [e0|]]; exact B.
Qed.

Lemma st3_seg cond (b : wstate -> wres) op s offs :
  st3 (seg cond b op s offs) = if cond s then fst (b s) else s.
Proof. unfold seg. destruct (cond s); [|reflexivity]. destruct (b s) as [s' [e|]]; reflexivity. Qed.

Lemma lock3_seq3 xf x0 kf k0 :
  lockg f st3 xf x0 ->
  (forall s offs, pre s -> lockg f st3 (kf s offs) (k0 s offs)) ->
  (forall s offs, J3 o F s (kf s offs)) ->
  (forall s offs, J3 o None s (k0 s offs)) ->
  lockg f st3 (seq3 xf kf) (seq3 x0 k0).
Proof.
  intros H H1 H2 H3.
  apply (lockg_seq o f st3 st3 xf x0 (fun r => seq3 r kf) (fun r => seq3 r k0)); auto.
  - intros [[s [e|]] t] P; [left; split; [reflexivity|exact P]|exact (H1 s t P)].
  - intros [[s [e|]] t]; cbn; [apply st_io, iosame_refl|apply (J_steps _ _ _ _ (H2 s t))].
  - intros [[s [e|]] t]; cbn; [apply st_io, iosame_refl|apply (J_steps _ _ _ _ (H3 s t))].
Qed.

Ltac j3seg := apply J3_seg; intro;
  first [apply J_write_all; intros; auto using J_write_schema, J_write_channel, J_write_record_dst
        | apply J_write_record_dst].
Ltac j3t := repeat (apply J3_seq3; [|intros]); j3seg.

Lemma lock_seg_schemas s offs : pre s -> lockg f st3 (seg_schemas o F s offs) (seg_schemas o None s offs).
Proof.
  intro P. apply lock3_seg; [exact P|]. intros s1 P1.
  apply (lock_write_all o); auto using lock_write_schema, J_write_schema.
Qed.
Lemma lock_seg_channels s offs : pre s -> lockg f st3 (seg_channels o F s offs) (seg_channels o None s offs).
Proof.
  intro P. apply lock3_seg; [exact P|]. intros s1 P1.
  apply (lock_write_all o); auto using lock_write_channel, J_write_channel.
Qed.
Lemma lock_seg_stats s offs : pre s -> lockg f st3 (seg_stats o F s offs) (seg_stats o None s offs).
Proof. intro P. apply lock3_seg; [exact P|]. intros s1 P1. apply lock_write_record_dst, P1. Qed.
Lemma lock_seg_ci s offs : pre s -> lockg f st3 (seg_ci o F s offs) (seg_ci o None s offs).
Proof.
  intro P. apply lock3_seg; [exact P|]. intros s1 P1.
  apply (lock_write_all o); auto using lock_write_record_dst, J_write_record_dst.
Qed.
Lemma lock_seg_ai s offs : pre s -> lockg f st3 (seg_ai o F s offs) (seg_ai o None s offs).
Proof.
  intro P. apply lock3_seg; [exact P|]. intros s1 P1.
  apply (lock_write_all o); auto using lock_write_record_dst, J_write_record_dst.
Qed.
Lemma lock_seg_mdi s offs : pre s -> lockg f st3 (seg_mdi o F s offs) (seg_mdi o None s offs).
Proof.
  intro P. apply lock3_seg; [exact P|]. intros s1 P1.
  apply (lock_write_all o); auto using lock_write_record_dst, J_write_record_dst.
Qed.

Lemma lock_write_summary s : pre s -> lockg f st3 (write_summary o F s) (write_summary o None s).
Proof.
  intro P. rewrite !write_summary_segs.
  apply lock3_seq3; [apply lock_seg_schemas, P|intros s1 o1 P1|intros; j3t|intros; j3t].
  apply lock3_seq3; [apply lock_seg_channels, P1|intros s2 o2 P2|intros; j3t|intros; j3t].
  apply lock3_seq3; [apply lock_seg_stats, P2|intros s3 o3 P3|intros; j3t|intros; j3t].
  apply lock3_seq3; [apply lock_seg_ci, P3|intros s4 o4 P4|intros; j3t|intros; j3t].
  apply lock3_seq3; [apply lock_seg_ai, P4|intros s5 o5 P5|intros; j3t|intros; j3t].
  apply lock_seg_mdi, P5.
Qed.

Lemma lock_write_footer ss sos s :
  pre s -> lockr (write_footer o F ss sos s) (write_footer o None ss sos s).
Proof.
  intro P. unfold write_footer.
  apply (lock_bind o); [lk|intros s1 P1|side|side].
  (* the checksum only depends on the state, which is identical on both sides *)
  lk.
Qed.

Lemma lock_close_fin start s offs :
  pre s -> lockr (close_fin o F start s offs) (close_fin o None start s offs).
Proof.
  intro P. unfold close_fin. cbv zeta.
  apply (lock_bind o); [|intros s1 P1|side|side].
  - destruct (negb (o_skip_so o) && _); [|lk].
    apply (lock_write_all o); auto using lock_write_record_dst, J_write_record_dst.
  - apply (lock_bind o); [apply lock_write_footer, P1|intros s2 P2; lk|side|side].
Qed.

Lemma lock_close_tail s : pre s -> lockr (close_tail o F s) (close_tail o None s).
Proof.
  intro P. unfold close_tail. cbv zeta. apply (lock_seq3e o).
  - apply lock_write_summary. eapply pre_io; [exact P|ios].
  - intros s1 offs P1. apply lock_close_fin, P1.
  - intros. apply J_steps, J_close_fin.
  - intros. apply J_steps, J_close_fin.
Qed.

Lemma lock_close s : pre s -> lockr (close o compress F s) (close o compress None s).
Proof.
  intro P. rewrite !close_unfold.
  apply (lock_bind o); [destruct (o_chunked o); [apply lock_flush_active_chunk, P|lk]|intros s1 P1|side|side].
  cbv zeta.
  apply (lock_bind o); [apply lock_write_record_dst; eapply pre_io; [exact P1|ios]|intros s2 P2|side|side].
  apply lock_close_tail, P2.
Qed.

Lemma pre_init : pre init_state.
Proof. split; [|split]; cbn; [apply Nat.le_0_l|reflexivity|reflexivity]. Qed.

Lemma lock_new_writer : lockr (new_writer o F) (new_writer o None).
Proof. pose proof pre_init as P0. unfold new_writer. lk. Qed.

Lemma lock_step c s :
  pre s -> lockr (step o lib_id compress F c s) (step o lib_id compress None c s).
Proof.
  intro P. destruct c; cbn [step];
  auto using lock_write_header, lock_write_schema, lock_write_channel, lock_write_message,
    lock_write_attachment, lock_write_metadata, lock_close.
Qed.

Definition outrel (s0 s : wstate) : Prop := w_out s = w_out s0 \/ hitrel f s0 s.

Lemma lock_run cs : forall s, pre s ->
  outrel (run_st o lib_id compress None cs s) (run_st o lib_id compress F cs s).
Proof.
  induction cs as [|c r IH]; intros s P; cbn [run_st].
  - left. reflexivity.
  - destruct (lock_step c s P) as [[E P']|B].
    + rewrite E in *. apply IH, P'.
    + right. eapply hitrel_steps; [exact B|apply steps_run_st|apply steps_run_st].
Qed.

End LockTop.

Lemma prefix_of_outrel f s0 s : outrel f s0 s ->
  exists suffix, concat (rev (w_out s0)) = concat (firstn (S (ft_index f)) (rev (w_out s))) ++ suffix.
Proof.
  intros [E|(acc & t & rest & l0 & l & E1 & E2 & E3)].
  - rewrite E. exists (concat (skipn (S (ft_index f)) (rev (w_out s0)))).
    rewrite <- concat_app, firstn_skipn. reflexivity.
  - exists (t ++ concat (rev l0)). rewrite E1, E2, !rev_app_distr. cbn [rev].
    rewrite (firstn_app_exact' (S (ft_index f)) (rev rest ++ [acc]) (rev l))
      by (rewrite app_length, rev_length; cbn; lia).
    rewrite !concat_app. cbn [concat]. rewrite !app_nil_r, <- !app_assoc. reflexivity.
Qed.

Theorem C14_prefix_thm : forall o lib comp cs (f : fault),
  let R := W o lib comp (Some f) cs in
  let R0 := W o lib comp None cs in
  exists suffix, file_of R0 = concat (firstn (S (ft_index f)) (r_writes R)) ++ suffix.
Proof.
  intros o lib comp cs f R R0. subst R R0. unfold file_of. rewrite !W_unfold.
  set (o' := effective_opts o).
  assert (H : outrel f
    (match new_writer o' None with (s, Some _) => s | (s, None) => run_st o' lib comp None cs s end)
    (match new_writer o' (Some f) with (s, Some _) => s | (s, None) => run_st o' lib comp (Some f) cs s end)).
  { destruct (lock_new_writer o' f) as [[E P]|B].
    - rewrite E in *. destruct (new_writer o' None) as [s [e|]]; cbn [fst] in P.
      + left. reflexivity.
      + apply lock_run, P.
    - right. destruct (new_writer o' (Some f)) as [sf [ef|]], (new_writer o' None) as [s0 [e0|]]; cbn [fst] in B;
      (eapply (hitrel_steps o'); [exact B| |]); first [apply steps_run_st | apply st_io, iosame_refl]. }
  apply prefix_of_outrel in H. destruct H as [suffix H]. exists suffix.
  destruct (new_writer o' (Some f)) as [sf [ef|]], (new_writer o' None) as [s0 [e0|]]; cbn [r_writes]; exact H.
Qed.

(* ------------------------------------------------------------------------- *)
(* Part 5: C06 - fault-free runs: bytes = rendered trace, running CRC          *)
(* ------------------------------------------------------------------------- *)
Definition out_bytes (s : wstate) : bytes := concat (rev (w_out s)).
Definition tr_bytes (T : list item) : bytes := concat (map render_item (rev T)).

Lemma tr_bytes_app T2 T1 : tr_bytes (T2 ++ T1) = tr_bytes T1 ++ tr_bytes T2.
Proof. unfold tr_bytes. rewrite rev_app_distr, map_app, concat_app. reflexivity. Qed.
Lemma tr_bytes_one it : tr_bytes [it] = render_item it.
Proof. unfold tr_bytes. cbn. apply app_nil_r. Qed.
Lemma tr_bytes_nil : tr_bytes [] = [].
Proof. reflexivity. Qed.
Lemma blen_app a b : blen (a ++ b) = blen a + blen b.
Proof. unfold blen. rewrite app_length. lia. Qed.

Lemma le_mod n : forall x, le n (x mod 2 ^ (8 * N.of_nat n)) = le n x.
Proof.
  induction n as [|n IH]; intro x; [reflexivity|]. cbn [le].
  replace (8 * N.of_nat (S n)) with (8 + 8 * N.of_nat n) by lia.
  rewrite N.pow_add_r. change (2 ^ 8) with 256.
  assert (Hp : 2 ^ (8 * N.of_nat n) <> 0) by (apply N.pow_nonzero; lia).
  set (P := 2 ^ (8 * N.of_nat n)) in *.
  rewrite N.mod_mul_r by lia.
  rewrite (N.mul_comm 256 ((x / 256) mod P)).
  f_equal.
  - rewrite <- (byte_of_N_mod x), <- (byte_of_N_mod (_ + _)). f_equal.
    rewrite N.mod_add by lia. apply N.mod_mod. lia.
  - rewrite N.div_add by lia.
    rewrite (N.div_small (x mod 256)) by (apply N.mod_lt; lia). rewrite N.add_0_l.
    apply IH.
Qed.

Lemma u64_mod x : u64 (x mod two64) = u64 x.
Proof. unfold u64. change two64 with (2 ^ (8 * N.of_nat 8)). apply le_mod. Qed.

Definition tsame (s s' : wstate) : Prop :=
  w_trace s' = w_trace s /\ w_out s' = w_out s /\ w_size s' = w_size s /\ w_crc s' = w_crc s.
Lemma tsame_refl s : tsame s s.
Proof. unfold tsame; auto. Qed.
Ltac tss := unfold tsame; cbn; repeat split; reflexivity.

Section C06.
Variable o : wopts.
Variable lib_id : bytes.
Variable compress : nat -> bytes -> bytes.

Lemma tsame_add_schema sc s : tsame s (add_schema sc s).
Proof. unfold add_schema. destruct (assoc_get _ _); tss. Qed.
Lemma tsame_add_channel c s : tsame s (add_channel c s).
Proof. unfold add_channel. destruct (assoc_get _ _); tss. Qed.
Lemma tsame_stats_time lt s : tsame s (stats_time lt s).
Proof.
  unfold stats_time. destruct (w_st_end s <? lt); cbn;
  match goal with |- context [if ?c then _ else _] => destruct c end; tss.
Qed.

(* M s s' B T: between s and s' the bytes B went to the destination and the items T were logged *)
Definition M (s s' : wstate) (B : bytes) (T : list item) : Prop :=
  w_trace s' = T ++ w_trace s /\
  out_bytes s' = out_bytes s ++ B /\
  w_size s' = w_size s + blen B /\
  w_crc s' = (if o_crc o then crc_update (w_crc s) B else w_crc s).

Lemma M_tsame s s' : tsame s s' -> M s s' [] [].
Proof.
  intros (A & B & C & D). unfold M, out_bytes. rewrite A, B, C, D, app_nil_r. cbn.
  repeat split; try lia. destruct (o_crc o); reflexivity.
Qed.

Lemma M_trans s s1 s2 B1 B2 T1 T2 : M s s1 B1 T1 -> M s1 s2 B2 T2 -> M s s2 (B1 ++ B2) (T2 ++ T1).
Proof.
  intros (A1 & A2 & A3 & A4) (C1 & C2 & C3 & C4). unfold M.
  rewrite C1, C2, C3, C4, A1, A2, A3, A4, blen_app, <- !app_assoc. repeat split; try lia.
  destruct (o_crc o); [rewrite crc_update_app|]; reflexivity.
Qed.

Lemma M_eq s s' B T B' T' : M s s' B T -> B = B' -> T = T' -> M s s' B' T'.
Proof. intros; subst; auto. Qed.

(* deterministic pieces *)
Definition MJ (s : wstate) (r : wres) (B : bytes) (T : list item) : Prop :=
  snd r = None /\ M s (fst r) B T.

Lemma MJ_dst p s : MJ s (dst_write o None p s) p [].
Proof.
  unfold MJ, dst_write, M, out_bytes. cbn. rewrite concat_app. cbn. rewrite app_nil_r.
  repeat split.
Qed.
Lemma MJ_log it s : MJ s (log it s) [] [it].
Proof. unfold MJ, log, M, out_bytes. cbn. rewrite app_nil_r. repeat split; try lia. destruct (o_crc o); reflexivity. Qed.
Lemma MJ_bind s a k B1 T1 B2 T2 :
  MJ s a B1 T1 -> (forall s1, MJ s1 (k s1) B2 T2) -> MJ s (bindw a k) (B1 ++ B2) (T2 ++ T1).
Proof.
  intros [E1 M1] H. destruct a as [s1 e]. cbn in E1. subst e. cbn [bindw fst] in *.
  destruct (H s1) as [E2 M2]. split; [exact E2|]. eapply M_trans; eauto.
Qed.

Lemma MJ_write_record_dst op body s :
  MJ s (write_record_dst o None op body s) (frame op body) [IRec op body].
Proof.
  unfold write_record_dst.
  pose proof (MJ_bind s _ _ _ _ _ _ (MJ_dst (frame_head op (blen body)) s)
    (fun s1 => MJ_bind s1 _ _ _ _ _ _ (MJ_dst body s1) (fun s2 => MJ_log (IRec op body) s2))) as H.
  destruct H as [H1 H2]. split; [exact H1|].
  eapply M_eq; [exact H2| |reflexivity]. unfold frame. rewrite app_nil_r. reflexivity.
Qed.

(* per-item CRC facts (C06_chunk_crc, C06_attach_crc) *)
Definition item_ok (it : item) : Prop :=
  match it with
  | IChunk k => exists n plain, k_records k = compress n plain /\ k_usize k = blen plain /\
                                k_crc k = (if o_crc o then crc32 plain else 0)
  | IAttach a data crc => crc = crc32 (enc_attachment_fields a ++ data)
  | _ => True
  end.

Definition E (s s' : wstate) : Prop := exists T, M s s' (tr_bytes T) T /\ Forall item_ok T.

Lemma E_tsame s s' : tsame s s' -> E s s'.
Proof. intro H. exists []. split; [apply M_tsame, H|constructor]. Qed.
Lemma E_trans s s1 s2 : E s s1 -> E s1 s2 -> E s s2.
Proof.
  intros (T1 & M1 & F1) (T2 & M2 & F2). exists (T2 ++ T1). split.
  - eapply M_eq; [eapply M_trans; eauto| |reflexivity]. symmetry. apply tr_bytes_app.
  - apply Forall_app; auto.
Qed.
Lemma E_of_MJ s r B it : MJ s r B [it] -> B = render_item it -> item_ok it -> snd r = None /\ E s (fst r).
Proof.
  intros [H1 H2] -> H3. split; [exact H1|]. exists [it]. split; [|constructor; auto].
  rewrite tr_bytes_one. exact H2.
Qed.

Definition EJ (s : wstate) (r : wres) : Prop := snd r = None -> E s (fst r).

Lemma EJ_ret s s' e : tsame s s' -> EJ s (s', e).
Proof. intros H _. apply E_tsame, H. Qed.
Lemma EJ_err s s' e : EJ s (s', Some e).
Proof. intro H. discriminate H. Qed.
Lemma EJ_bind s a k : EJ s a -> (forall s1, EJ s1 (k s1)) -> EJ s (bindw a k).
Proof.
  intros Ha Hk. destruct a as [s1 [e|]]; cbn [bindw]; [apply EJ_err|].
  intro H. eapply E_trans; [apply Ha; reflexivity|apply Hk, H].
Qed.
Lemma EJ_seq s s1 e1 r :
  EJ s (s1, e1) -> (e1 = None -> EJ s1 r) -> (forall e, e1 = Some e -> r = (s1, Some e)) -> EJ s r.
Proof.
  intros Ha H1 H2. destruct e1 as [e|].
  - rewrite (H2 e eq_refl). apply EJ_err.
  - intro H. eapply E_trans; [apply Ha; reflexivity|apply H1; auto].
Qed.
Lemma EJ_seq3e {T} s (x : wstate * option err * T) k :
  EJ s (fst x) -> (forall s1 t, EJ s1 (k s1 t)) -> EJ s (seq3e x k).
Proof.
  destruct x as [[s1 e1] t]. cbn [fst seq3e]. intros H Hk.
  eapply EJ_seq; [exact H| |]; intros; subst; [apply Hk|reflexivity].
Qed.
Lemma EJ_io_pre s s' r : tsame s s' -> EJ s' r -> EJ s r.
Proof. intros Hs H E1. eapply E_trans; [apply E_tsame, Hs|apply H, E1]. Qed.

Lemma EJ_write_record_dst op body s : EJ s (write_record_dst o None op body s).
Proof.
  intros _. eapply E_of_MJ; [apply MJ_write_record_dst|reflexivity|exact I].
Qed.
Lemma EJ_write_record_chunk op body s : EJ s (write_record_chunk op body s).
Proof. apply EJ_ret. tss. Qed.
Lemma EJ_write_record_auto op body s : EJ s (write_record_auto o None op body s).
Proof. unfold write_record_auto. destruct (in_chunk o s); auto using EJ_write_record_dst, EJ_write_record_chunk. Qed.

Ltac efun := eauto using EJ_write_record_dst, EJ_write_record_chunk, EJ_write_record_auto.
Ltac et :=
  lazymatch goal with
  | |- EJ _ (bindw _ _) => apply EJ_bind; [et | intro; et]
  | |- EJ _ (if ?c then _ else _) => destruct c; et
  | |- EJ _ (let _ := _ in _) => cbv zeta; et
  | |- EJ _ (_, Some _) => apply EJ_err
  | |- EJ _ (_, _) => apply EJ_ret;
       first [tss | eauto using tsame_refl, tsame_add_schema, tsame_add_channel, tsame_stats_time]
  | |- _ => first [ solve [efun] | eapply EJ_io_pre; [|solve [efun]]; tss ]
  end.

Lemma EJ_write_header h s : EJ s (write_header o lib_id None h s).
Proof. unfold write_header. et. Qed.
Lemma EJ_write_schema sc s : EJ s (write_schema o None sc s).
Proof. unfold write_schema. et. Qed.
Lemma EJ_write_channel c s : EJ s (write_channel o None c s).
Proof. unfold write_channel. et. Qed.
Lemma EJ_write_msgindex mi s : EJ s (write_msgindex o None mi s).
Proof. unfold write_msgindex. et. Qed.
Lemma EJ_write_metadata m s : EJ s (write_metadata o None m s).
Proof. unfold write_metadata. et. Qed.

Lemma EJ_write_msgindexes l : forall offs s, EJ s (fst (write_msgindexes o None l offs s)).
Proof.
  induction l as [|mi r IH]; intros offs s; cbn [write_msgindexes].
  - apply EJ_ret, tsame_refl.
  - destruct (mi_entries mi) as [|e es]; [apply IH|].
    pose proof (EJ_write_msgindex mi s) as H.
    destruct (write_msgindex o None mi s) as [s' [e'|]]; cbn [fst].
    + exact H.
    + eapply EJ_seq; [exact H| |discriminate]. intros _. apply IH.
Qed.

Lemma EJ_wcwi_tail k mis cs s : EJ s (wcwi_tail o None k mis cs s).
Proof.
  unfold wcwi_tail. apply EJ_seq3e.
  - destruct (negb (o_skip_mi o)); [apply EJ_write_msgindexes|apply EJ_ret, tsame_refl].
  - intros. apply EJ_ret. tss.
Qed.

Definition wcwi_head (k : chunk) (s : wstate) : wres :=
  let head := frame_head OpChunk (blen (enc_chunk_top k) + blen (k_records k)) ++ enc_chunk_top k in
  do* s := dst_write o None head s in
  do* s := dst_write o None (k_records k) s in log (IChunk k) s.

Lemma wcwi_regroup k mis s :
  write_chunk_with_indexes o None k mis s =
  if k_usize k =? 0 then (s, None) else bindw (wcwi_head k s) (wcwi_tail o None k mis (w_size s)).
Proof.
  rewrite wcwi_unfold. destruct (k_usize k =? 0); [reflexivity|]. unfold wcwi_head. cbv zeta.
  destruct (dst_write o None _ s) as [s1 [e1|]]; cbn [bindw]; [reflexivity|].
  destruct (dst_write o None _ s1) as [s2 [e2|]]; cbn [bindw]; reflexivity.
Qed.

Lemma MJ_wcwi_head k s : MJ s (wcwi_head k s) (render_item (IChunk k)) [IChunk k].
Proof.
  unfold wcwi_head. cbv zeta.
  pose proof (MJ_bind s _ _ _ _ _ _
    (MJ_dst (frame_head OpChunk (blen (enc_chunk_top k) + blen (k_records k)) ++ enc_chunk_top k) s)
    (fun s1 => MJ_bind s1 _ _ _ _ _ _ (MJ_dst (k_records k) s1) (fun s2 => MJ_log (IChunk k) s2))) as H.
  destruct H as [H1 H2]. split; [exact H1|].
  eapply M_eq; [exact H2| |reflexivity].
  cbn [render_item]. unfold frame, enc_chunk. rewrite blen_app, app_nil_r, <- !app_assoc. reflexivity.
Qed.

Lemma EJ_write_chunk_with_indexes k mis s :
  item_ok (IChunk k) -> EJ s (write_chunk_with_indexes o None k mis s).
Proof.
  intro Hk. rewrite wcwi_regroup. destruct (k_usize k =? 0); [apply EJ_ret, tsame_refl|].
  apply EJ_bind; [|intro; apply EJ_wcwi_tail].
  intros _. eapply E_of_MJ; [apply MJ_wcwi_head|reflexivity|exact Hk].
Qed.

Lemma EJ_flush_active_chunk s : EJ s (flush_active_chunk o compress None s).
Proof.
  unfold flush_active_chunk. destruct (w_cbuf s) as [|b l] eqn:Eb; [apply EJ_ret, tsame_refl|].
  destruct (if w_cur_count s =? 0 then _ else _) as [st en].
  apply EJ_bind; [|intro; apply EJ_ret; tss].
  eapply EJ_io_pre; [|apply EJ_write_chunk_with_indexes]; [tss|].
  cbn. exists (w_nchunks s), (b :: l). auto.
Qed.

Lemma EJ_wm_tail m s : EJ s (wm_tail o compress None m s).
Proof.
  unfold wm_tail. cbv zeta. destruct (w_cur_end _ <? m_log m); destruct (m_log m <? w_cur_start _);
  (apply EJ_bind; [|intro; apply EJ_ret, tsame_stats_time];
   match goal with |- context [if ?c then flush_active_chunk _ _ _ _ else _] => destruct c end;
   [eapply EJ_io_pre; [|apply EJ_flush_active_chunk]; tss | apply EJ_ret; tss]).
Qed.

Lemma EJ_write_message m s : EJ s (write_message o compress None m s).
Proof.
  unfold write_message. destruct (assoc_get _ _); [|apply EJ_err].
  match goal with |- context [in_chunk o ?s'] => destruct (in_chunk o s') end.
  - eapply EJ_io_pre; [|apply (EJ_bind _ _ (wm_tail o compress None m));
      [apply EJ_write_record_chunk|intro; apply EJ_wm_tail]]. tss.
  - eapply EJ_io_pre; [|apply EJ_bind; [apply EJ_write_record_dst|intro; apply EJ_ret, tsame_stats_time]]. tss.
Qed.

Lemma copy_frags_None fr : forall n s, exists s',
  copy_frags o None fr n s = (s', None, n + blen (concat fr)) /\ M s s' (concat fr) [].
Proof.
  induction fr as [|p r IH]; intros n s; cbn [copy_frags concat].
  - exists s. split; [f_equal; cbn; lia|apply M_tsame, tsame_refl].
  - destruct (MJ_dst p s) as [e m]. destruct (dst_write o None p s) as [s1 r1]. cbn [fst snd] in e, m. subst r1.
    destruct (IH (n + blen p) s1) as (s' & H1 & H2). exists s'. split.
    + rewrite H1. f_equal. rewrite blen_app. lia.
    + eapply M_eq; [eapply M_trans; eauto|reflexivity|reflexivity].
Qed.

Lemma frame_head_mod op n : frame_head op (n mod two64) = frame_head op n.
Proof. unfold frame_head. rewrite u64_mod. reflexivity. Qed.

Lemma EJ_write_attachment a src s : EJ s (write_attachment o None a src s).
Proof.
  rewrite wa_unfold. cbv zeta.
  set (fields := enc_attachment_fields a).
  destruct (MJ_dst (frame_head OpAttachment ((blen fields + a_size a + 4) mod two64)) s) as [e1 m1].
  destruct (dst_write o None _ s) as [s1 r1]. cbn [fst snd] in e1, m1. subst r1. cbn [bindw].
  destruct (MJ_dst fields s1) as [e2 m2].
  destruct (dst_write o None fields s1) as [s2 r2]. cbn [fst snd] in e2, m2. subst r2. cbn [bindw].
  unfold wa_tail. cbv zeta. fold fields.
  destruct (copy_frags_None (as_frags src) 0 s2) as (s3 & H3 & m3). rewrite H3. cbn [seq3e].
  destruct (as_fail src); [apply EJ_err|].
  rewrite N.add_0_l.
  destruct (N.eqb_spec (blen (concat (as_frags src))) (a_size a)) as [Hn|Hn]; cbn [negb]; [|apply EJ_err].
  set (data := concat (as_frags src)) in *. set (crc := crc32 (fields ++ data)).
  destruct (MJ_dst (u32 crc) s3) as [e4 m4].
  destruct (dst_write o None (u32 crc) s3) as [s4 r4]. cbn [fst snd] in e4, m4. subst r4. cbn [bindw].
  destruct (MJ_log (IAttach a data crc) s4) as [e5 m5].
  destruct (log (IAttach a data crc) s4) as [s5 r5]. cbn [fst snd] in e5, m5. subst r5. cbn [bindw].
  eapply EJ_seq with (s1 := s5) (e1 := None); [|intros _; apply EJ_ret; tss|discriminate].
  intros _. cbn [fst]. exists [IAttach a data crc]. split; [|constructor; [reflexivity|constructor]].
  pose proof (M_trans _ _ _ _ _ _ _ m1 (M_trans _ _ _ _ _ _ _ m2 (M_trans _ _ _ _ _ _ _ m3 (M_trans _ _ _ _ _ _ _ m4 m5)))) as H.
  eapply M_eq; [exact H| |reflexivity].
  rewrite tr_bytes_one. cbn [render_item]. unfold frame. fold fields.
  rewrite frame_head_mod, !blen_app, <- Hn, app_nil_r.
  replace (blen (u32 crc)) with 4 by (unfold blen; rewrite u32_length; reflexivity).
  rewrite N.add_assoc. reflexivity.
Qed.

Lemma EJ_write_all {A} (g : A -> wstate -> wres) l :
  (forall x s, EJ s (g x s)) -> forall s, EJ s (write_all g l s).
Proof.
  intro Hg. induction l as [|x r IH]; intro s; cbn [write_all].
  - apply EJ_ret, tsame_refl.
  - apply EJ_bind; auto.
Qed.

Definition EJ3 s (r : wstate * option err * list sumoffset) := EJ s (fst r).

Lemma EJ3_seg cond body op s offs : (forall s, EJ s (body s)) -> EJ3 s (seg cond body op s offs).
Proof.
  intro Hb. unfold EJ3, seg. destruct (cond s); [|apply EJ_ret, tsame_refl].
  specialize (Hb s). destruct (body s) as [s' [e|]]; exact Hb.
Qed.
Lemma EJ3_seq3 s x k : EJ3 s x -> (forall s1 offs, EJ3 s1 (k s1 offs)) -> EJ3 s (seq3 x k).
Proof.
  unfold EJ3, seq3. destruct x as [[s1 e1] offs]. cbn [fst]. intros H Hk.
  eapply EJ_seq; [exact H| |]; intros; subst; [apply Hk|reflexivity].
Qed.

Lemma EJ_write_summary s : EJ s (fst (write_summary o None s)).
Proof.
  rewrite write_summary_segs. change (EJ3 s (seq3 (seg_schemas o None s []) (fun s offs =>
  seq3 (seg_channels o None s offs) (fun s offs =>
  seq3 (seg_stats o None s offs) (fun s offs =>
  seq3 (seg_ci o None s offs) (fun s offs =>
  seq3 (seg_ai o None s offs) (fun s offs => seg_mdi o None s offs))))))).
  repeat (apply EJ3_seq3; [|intros]);
  apply EJ3_seg; intro; first [apply EJ_write_all; intros; auto using EJ_write_schema, EJ_write_channel, EJ_write_record_dst
                              | apply EJ_write_record_dst].
Qed.

(* ----- footer ----- *)
Definition footer_head (ss sos : N) : bytes := frame_head OpFooter 20 ++ u64 ss ++ u64 sos.

Lemma render_footer ss sos crc : render_item (IFooter ss sos crc) = footer_head ss sos ++ u32 crc.
Proof.
  cbn [render_item]. unfold frame, enc_footer, footer_head. cbn [f_summary_start f_summary_offset_start f_crc].
  replace (blen (u64 ss ++ u64 sos ++ u32 crc)) with 20.
  - rewrite <- !app_assoc. reflexivity.
  - unfold blen. rewrite !app_length, !u64_length, u32_length. reflexivity.
Qed.
Lemma footer_head_length ss sos : length (footer_head ss sos) = 25%nat.
Proof. unfold footer_head, frame_head. cbn [length app]. rewrite !app_length, !u64_length. reflexivity. Qed.
Lemma footer_head_firstn ss sos crc : firstn 25 (render_item (IFooter ss sos crc)) = footer_head ss sos.
Proof. rewrite render_footer. apply firstn_app_exact'. symmetry. apply footer_head_length. Qed.

Lemma MJ_write_footer ss sos s :
  let crc := if o_crc o then crc_final (crc_update (w_crc s) (footer_head ss sos)) else 0 in
  MJ s (write_footer o None ss sos s) (render_item (IFooter ss sos crc)) [IFooter ss sos crc].
Proof.
  intro crc. unfold write_footer. fold (footer_head ss sos).
  destruct (MJ_dst (footer_head ss sos) s) as [e1 m1].
  destruct (dst_write o None (footer_head ss sos) s) as [s1 r1]. cbn [fst snd] in e1, m1. subst r1. cbn [bindw].
  assert (Hc : checksum o s1 = crc).
  { unfold checksum, crc. destruct m1 as (_ & _ & _ & C). rewrite C. destruct (o_crc o); reflexivity. }
  rewrite Hc.
  pose proof (MJ_bind s1 _ _ _ _ _ _ (MJ_dst (u32 crc) s1) (fun s2 => MJ_log (IFooter ss sos crc) s2)) as [H1 H2].
  split; [exact H1|].
  eapply M_eq; [eapply M_trans; [exact m1|exact H2]| |reflexivity].
  rewrite render_footer, app_nil_r. reflexivity.
Qed.

Lemma bindw_None a k s' : bindw a k = (s', None) -> exists s1, a = (s1, None) /\ k s1 = (s', None).
Proof. destruct a as [s1 [e|]]; cbn [bindw]; intro H; [discriminate|eauto]. Qed.
Lemma seq3e_None {T} (x : wstate * option err * T) k s' :
  seq3e x k = (s', None) -> exists s1 t, x = (s1, None, t) /\ k s1 t = (s', None).
Proof. destruct x as [[s1 [e|]] t]; cbn [seq3e]; intro H; [discriminate|eauto]. Qed.

(* what a state reached without errors from init_state satisfies *)
Definition PreC (s : wstate) : Prop :=
  out_bytes s = tr_bytes (w_trace s) /\
  w_size s = blen (out_bytes s) /\
  w_crc s = (if o_crc o then crc_update crc_init (out_bytes s) else crc_init) /\
  Forall item_ok (w_trace s).

Lemma PreC_of_E s : E init_state s -> PreC s.
Proof.
  intros (T & (A & B & C & D) & Fo). cbn in A, B, C, D. rewrite app_nil_r in A. subst T.
  unfold PreC. rewrite B. repeat split; auto.
Qed.

Lemma close_spec s s' :
  PreC s -> close o compress None s = (s', None) ->
  exists Tpre Tsum ss sos c1 c2,
    w_trace s' = IMagic :: IFooter ss sos c2 :: Tsum ++ IRec OpDataEnd (enc_dataend {| de_crc := c1 |}) :: Tpre /\
    out_bytes s' = tr_bytes (w_trace s') /\
    c1 = (if o_crc o then crc32 (tr_bytes Tpre) else 0) /\
    c2 = (if o_crc o then crc32 (tr_bytes Tsum ++ footer_head ss sos) else 0) /\
    Forall item_ok (w_trace s').
Proof.
  intros (P1 & P2 & P3 & P4) H. rewrite close_unfold in H.
  apply bindw_None in H. destruct H as (s1 & Hfl & H). cbv zeta in H.
  assert (Ea : E s s1).
  { assert (X : EJ s (if o_chunked o then flush_active_chunk o compress None s else (s, None)))
      by (destruct (o_chunked o); [apply EJ_flush_active_chunk|apply EJ_ret, tsame_refl]).
    rewrite Hfl in X. apply X. reflexivity. }
  destruct Ea as (Ta & (A1 & A2 & A3 & A4) & Fa).
  apply bindw_None in H. destruct H as (s2 & Hde & H).
  set (s1' := s1 <| w_closed := true |>) in *.
  set (c1 := checksum o s1') in *.
  pose proof (MJ_write_record_dst OpDataEnd (enc_dataend {| de_crc := c1 |}) s1') as [_ (D1 & D2 & D3 & D4)].
  rewrite Hde in D1, D2, D3, D4. cbn [fst] in D1, D2, D3, D4.
  unfold close_tail in H. cbv zeta in H.
  apply seq3e_None in H. destruct H as (s3 & offs & Hsum & H).
  set (s2' := s2 <| w_crc := crc_init |>) in *.
  assert (Eb : E s2' s3).
  { pose proof (EJ_write_summary s2') as X. rewrite Hsum in X. apply X. reflexivity. }
  destruct Eb as (Tb & (B1 & B2 & B3 & B4) & Fb).
  unfold close_fin in H. cbv zeta in H.
  apply bindw_None in H. destruct H as (s4 & Hoff & H).
  assert (Ec : E s3 s4).
  { match type of Hoff with ?x = _ => assert (X : EJ s3 x) end.
    { destruct (negb (o_skip_so o) && _); [|apply EJ_ret, tsame_refl].
      apply EJ_write_all. intros. apply EJ_write_record_dst. }
    rewrite Hoff in X. apply X. reflexivity. }
  destruct Ec as (Tc & (C1 & C2 & C3 & C4) & Fc).
  apply bindw_None in H. destruct H as (s5 & Hft & H).
  match type of Hft with write_footer _ _ ?a ?b _ = _ => set (ss := a) in *; set (sos := b) in * end.
  pose proof (MJ_write_footer ss sos s4) as X. cbv zeta in X.
  set (c2 := if o_crc o then crc_final (crc_update (w_crc s4) (footer_head ss sos)) else 0) in *.
  destruct X as [_ (F1 & F2 & F3 & F4)]. rewrite Hft in F1, F2, F3, F4. cbn [fst] in F1, F2, F3, F4.
  apply bindw_None in H. destruct H as (s6 & Hmg & H).
  pose proof (MJ_dst magic s5) as [_ (G1 & G2 & G3 & G4)]. rewrite Hmg in G1, G2, G3, G4. cbn [fst] in G1, G2, G3, G4.
  unfold log in H. inversion H; subst s'. clear H.
  set (sF := s6 <| w_trace := IMagic :: w_trace s6 |>).
  assert (HtF : w_trace sF = IMagic :: w_trace s6) by reflexivity.
  assert (HoF : out_bytes sF = out_bytes s6) by reflexivity.
  exists (Ta ++ w_trace s), (Tc ++ Tb), ss, sos, c1, c2.
  assert (Htr : w_trace s6 = IFooter ss sos c2 :: (Tc ++ Tb) ++ IRec OpDataEnd (enc_dataend {| de_crc := c1 |}) :: Ta ++ w_trace s).
  { rewrite G1, F1, C1, B1. cbn [app]. change (w_trace s2') with (w_trace s2). rewrite D1.
    change (w_trace s1') with (w_trace s1). rewrite A1, <- !app_assoc. reflexivity. }
  split; [rewrite HtF, Htr; reflexivity|].
  split.
  { rewrite HoF, HtF.
    change (IMagic :: w_trace s6) with ([IMagic] ++ w_trace s6). rewrite tr_bytes_app, tr_bytes_one.
    rewrite G2, F2, C2, B2. change (out_bytes s2') with (out_bytes s2). rewrite D2.
    change (out_bytes s1') with (out_bytes s1). rewrite A2, P1, Htr.
    change (IFooter ss sos c2 :: (Tc ++ Tb) ++ IRec OpDataEnd (enc_dataend {| de_crc := c1 |}) :: Ta ++ w_trace s)
      with ([IFooter ss sos c2] ++ (Tc ++ Tb) ++ [IRec OpDataEnd (enc_dataend {| de_crc := c1 |})] ++ Ta ++ w_trace s).
    rewrite !tr_bytes_app, !tr_bytes_one. cbn [render_item]. rewrite <- !app_assoc. reflexivity. }
  split.
  { unfold c1, checksum. change (w_crc s1') with (w_crc s1). rewrite A4, P3.
    destruct (o_crc o); [|reflexivity]. rewrite <- crc_update_app, P1, tr_bytes_app. reflexivity. }
  split.
  { unfold c2. rewrite C4, B4. change (w_crc s2') with crc_init.
    destruct (o_crc o); [|reflexivity]. rewrite <- !crc_update_app, tr_bytes_app, <- app_assoc. reflexivity. }
  { rewrite HtF. constructor; [exact I|]. rewrite Htr. constructor; [exact I|].
    apply Forall_app. split; [apply Forall_app; auto|]. constructor; [exact I|]. apply Forall_app; auto. }
Qed.

Lemma EJ_new_writer : EJ init_state (new_writer o None).
Proof.
  unfold new_writer. apply EJ_bind.
  - destruct (o_skip_magic o); [apply EJ_ret, tsame_refl|].
    intros _. eapply E_of_MJ; [apply (MJ_bind _ _ _ _ _ _ _ (MJ_dst magic init_state) (fun s => MJ_log IMagic s))| |exact I].
    cbn [render_item]. apply app_nil_r.
  - intro s1. et.
Qed.

Lemma EJ_step c s : c <> CClose -> EJ s (step o lib_id compress None c s).
Proof.
  intro Hc. destruct c; cbn [step]; try congruence;
  auto using EJ_write_header, EJ_write_schema, EJ_write_channel, EJ_write_message,
    EJ_write_attachment, EJ_write_metadata.
Qed.

Lemma E_run cs : forall s,
  Forall (fun c => c <> CClose) cs ->
  Forall (fun x : option err * nat => fst x = None) (run_res o lib_id compress None cs s) ->
  E s (run_st o lib_id compress None cs s).
Proof.
  induction cs as [|c r IH]; intros s Hc Hr; cbn [run_st run_res] in *.
  - apply E_tsame, tsame_refl.
  - inversion Hc; subst. inversion Hr; subst. cbn [fst] in *.
    eapply E_trans; [apply (EJ_step c s); assumption|apply IH; assumption].
Qed.

Lemma run_st_app flt a b s :
  run_st o lib_id compress flt (a ++ b) s = run_st o lib_id compress flt b (run_st o lib_id compress flt a s).
Proof. revert s. induction a as [|c r IH]; intro s; cbn [run_st app]; auto. Qed.
Lemma run_res_app flt a b s :
  run_res o lib_id compress flt (a ++ b) s =
  run_res o lib_id compress flt a s ++ run_res o lib_id compress flt b (run_st o lib_id compress flt a s).
Proof. revert s. induction a as [|c r IH]; intro s; cbn [run_st run_res app]; [reflexivity|]. rewrite IH. reflexivity. Qed.

Lemma C06_core cs' s0 :
  new_writer o None = (s0, None) ->
  Forall (fun c => c <> CClose) cs' ->
  Forall (fun x : option err * nat => fst x = None) (run_res o lib_id compress None (cs' ++ [CClose]) s0) ->
  let s' := run_st o lib_id compress None (cs' ++ [CClose]) s0 in
  exists Tpre Tsum ss sos c1 c2,
    rev (w_trace s') = Tpre ++ IRec OpDataEnd (enc_dataend {| de_crc := c1 |}) :: Tsum ++ [IFooter ss sos c2; IMagic] /\
    concat (rev (w_out s')) = concat (map render_item (rev (w_trace s'))) /\
    c1 = (if o_crc o then crc32 (concat (map render_item Tpre)) else 0) /\
    c2 = (if o_crc o then crc32 (concat (map render_item Tsum) ++ firstn 25 (render_item (IFooter ss sos c2))) else 0) /\
    Forall item_ok (w_trace s').
Proof.
  intros Hnw Hc Hr s'. subst s'. rewrite run_res_app in Hr. rewrite run_st_app.
  apply Forall_app in Hr. destruct Hr as [Hr1 Hr2].
  set (s1 := run_st o lib_id compress None cs' s0) in *.
  assert (E0 : E init_state s0).
  { pose proof EJ_new_writer as X. rewrite Hnw in X. apply X. reflexivity. }
  assert (E1 : E init_state s1) by (eapply E_trans; [exact E0|apply E_run; assumption]).
  apply PreC_of_E in E1.
  cbn [run_res run_st step] in *. inversion Hr2 as [|x l Hx _]; subst. cbn [fst] in Hx.
  destruct (close o compress None s1) as [s' e] eqn:Ecl. cbn [fst snd] in *. subst e.
  destruct (close_spec s1 s' E1 Ecl) as (Tpre & Tsum & ss & sos & c1 & c2 & H1 & H2 & H3 & H4 & H5).
  exists (rev Tpre), (rev Tsum), ss, sos, c1, c2.
  split; [|split; [|split; [|split]]].
  - rewrite H1. cbn [rev]. rewrite rev_app_distr. cbn [rev]. rewrite <- !app_assoc. reflexivity.
  - exact H2.
  - exact H3.
  - rewrite footer_head_firstn. exact H4.
  - exact H5.
Qed.

Lemma C06_running_core cs s0 :
  new_writer o None = (s0, None) ->
  Forall (fun c => c <> CClose) cs ->
  Forall (fun x : option err * nat => fst x = None) (run_res o lib_id compress None cs s0) ->
  PreC (run_st o lib_id compress None cs s0).
Proof.
  intros Hnw Hc Hr. apply PreC_of_E.
  assert (E0 : E init_state s0).
  { pose proof EJ_new_writer as X. rewrite Hnw in X. apply X. reflexivity. }
  eapply E_trans; [exact E0|apply E_run; assumption].
Qed.

End C06.

Lemma o_crc_eff o : o_crc (effective_opts o) = o_crc o.
Proof. unfold effective_opts. destruct (_ && _); reflexivity. Qed.

Lemma item_ok_eff o comp it : item_ok (effective_opts o) comp it -> item_ok o comp it.
Proof. destruct it; cbn; auto. rewrite o_crc_eff. auto. Qed.

Definition C06_hyps (o : wopts) (lib : bytes) (comp : nat -> bytes -> bytes) (cs' : list wcall) : Prop :=
  let R := W o lib comp None (cs' ++ [CClose]) in
  r_new R = None /\
  Forall (fun x : option err * nat => fst x = None) (r_calls R) /\
  Forall (fun c => c <> CClose) cs'.

Theorem C06_structure_thm : forall o lib comp cs',
  C06_hyps o lib comp cs' ->
  let R := W o lib comp None (cs' ++ [CClose]) in
  exists Tpre Tsum ss sos c1 c2,
    rev (w_trace (r_final R)) =
      Tpre ++ IRec OpDataEnd (enc_dataend {| de_crc := c1 |}) :: Tsum ++ [IFooter ss sos c2; IMagic] /\
    file_of R = concat (map render_item (rev (w_trace (r_final R)))) /\
    c1 = (if o_crc o then crc32 (concat (map render_item Tpre)) else 0) /\
    c2 = (if o_crc o then crc32 (concat (map render_item Tsum) ++ firstn 25 (render_item (IFooter ss sos c2))) else 0) /\
    Forall (item_ok o comp) (w_trace (r_final R)).
Proof.
  intros o lib comp cs' (H1 & H2 & H3) R. subst R. unfold file_of. revert H1 H2. rewrite W_unfold.
  destruct (new_writer (effective_opts o) None) as [s0 [e|]] eqn:Enw; cbn [r_new r_calls r_writes r_final];
    [discriminate|].
  intros _ H2.
  destruct (C06_core (effective_opts o) lib comp cs' s0 Enw H3 H2)
    as (Tpre & Tsum & ss & sos & c1 & c2 & A & B & C & D & F).
  rewrite o_crc_eff in C, D.
  exists Tpre, Tsum, ss, sos, c1, c2. repeat split; auto.
  eapply Forall_impl; [|exact F]. intro it. apply item_ok_eff.
Qed.

Theorem C06_running_thm : forall o lib comp cs,
  let R := W o lib comp None cs in
  r_new R = None ->
  Forall (fun x : option err * nat => fst x = None) (r_calls R) ->
  Forall (fun c => c <> CClose) cs ->
  let s := r_final R in
  file_of R = concat (map render_item (rev (w_trace s))) /\
  w_size s = blen (file_of R) /\
  w_crc s = (if o_crc o then crc_update crc_init (file_of R) else crc_init).
Proof.
  intros o lib comp cs R. subst R. unfold file_of. rewrite W_unfold.
  destruct (new_writer (effective_opts o) None) as [s0 [e|]] eqn:Enw; cbn [r_new r_calls r_writes r_final];
    [discriminate|].
  intros _ H2 H3.
  destruct (C06_running_core (effective_opts o) lib comp cs s0 Enw H3 H2) as (A & B & C & _).
  rewrite o_crc_eff in C. repeat split; assumption.
Qed.

Theorem C06_data_crc_thm : forall o lib comp cs',
  C06_hyps o lib comp cs' ->
  let R := W o lib comp None (cs' ++ [CClose]) in
  exists Tpre Tpost c,
    rev (w_trace (r_final R)) = Tpre ++ IRec OpDataEnd (enc_dataend {| de_crc := c |}) :: Tpost /\
    file_of R = concat (map render_item Tpre) ++ render_item (IRec OpDataEnd (enc_dataend {| de_crc := c |}))
                ++ concat (map render_item Tpost) /\
    c = (if o_crc o then crc32 (concat (map render_item Tpre)) else 0).
Proof.
  intros o lib comp cs' H R.
  destruct (C06_structure_thm o lib comp cs' H) as (Tpre & Tsum & ss & sos & c1 & c2 & A & B & C & D & F).
  fold R in A, B. exists Tpre, (Tsum ++ [IFooter ss sos c2; IMagic]), c1.
  split; [exact A|]. split; [|exact C].
  rewrite B, A, map_app, concat_app. reflexivity.
Qed.

Theorem C06_summary_crc_thm : forall o lib comp cs',
  C06_hyps o lib comp cs' ->
  let R := W o lib comp None (cs' ++ [CClose]) in
  exists Tpre c1 Tsum ss sos c,
    rev (w_trace (r_final R)) =
      Tpre ++ IRec OpDataEnd (enc_dataend {| de_crc := c1 |}) :: Tsum ++ [IFooter ss sos c; IMagic] /\
    file_of R = concat (map render_item Tpre) ++ render_item (IRec OpDataEnd (enc_dataend {| de_crc := c1 |}))
                ++ concat (map render_item Tsum) ++ render_item (IFooter ss sos c) ++ magic /\
    c = (if o_crc o then crc32 (concat (map render_item Tsum) ++ firstn 25 (render_item (IFooter ss sos c))) else 0).
Proof.
  intros o lib comp cs' H R.
  destruct (C06_structure_thm o lib comp cs' H) as (Tpre & Tsum & ss & sos & c1 & c2 & A & B & C & D & F).
  fold R in A, B. exists Tpre, c1, Tsum, ss, sos, c2.
  split; [exact A|]. split; [|exact D].
  rewrite B, A, map_app, concat_app. cbn [map concat]. rewrite map_app, concat_app. cbn [map concat render_item].
  rewrite app_nil_r. reflexivity.
Qed.

Theorem C06_chunk_crc_thm : forall o lib comp cs',
  C06_hyps o lib comp cs' ->
  let R := W o lib comp None (cs' ++ [CClose]) in
  forall k, In (IChunk k) (w_trace (r_final R)) ->
  exists n plain, k_records k = comp n plain /\ k_usize k = blen plain /\
                  k_crc k = (if o_crc o then crc32 plain else 0).
Proof.
  intros o lib comp cs' H R k Hin.
  destruct (C06_structure_thm o lib comp cs' H) as (Tpre & Tsum & ss & sos & c1 & c2 & A & B & C & D & F).
  fold R in F. rewrite Forall_forall in F. exact (F _ Hin).
Qed.

Theorem C06_attach_crc_thm : forall o lib comp cs',
  C06_hyps o lib comp cs' ->
  let R := W o lib comp None (cs' ++ [CClose]) in
  forall a data crc, In (IAttach a data crc) (w_trace (r_final R)) ->
  crc = crc32 (enc_attachment_fields a ++ data).
Proof.
  intros o lib comp cs' H R a data crc Hin.
  destruct (C06_structure_thm o lib comp cs' H) as (Tpre & Tsum & ss & sos & c1 & c2 & A & B & C & D & F).
  fold R in F. rewrite Forall_forall in F. exact (F _ Hin).
Qed.

(* ------------------------------------------------------------------------- *)
(* Part 6: a concrete chunked, CRC-enabled workload for non-vacuity examples   *)
(* ------------------------------------------------------------------------- *)
Definition ex_o : wopts :=
  {| o_crc := true; o_chunked := true; o_chunksize := 40; o_comp := []; o_custom := false;
     o_skip_mi := false; o_skip_stats := false; o_skip_rsh := false; o_skip_rch := false;
     o_skip_ai := false; o_skip_mdi := false; o_skip_ci := false; o_skip_so := false;
     o_override_lib := false; o_skip_magic := false |}.
Definition ex_o_nocrc : wopts :=
  {| o_crc := false; o_chunked := true; o_chunksize := 40; o_comp := []; o_custom := false;
     o_skip_mi := false; o_skip_stats := false; o_skip_rsh := false; o_skip_rch := false;
     o_skip_ai := false; o_skip_mdi := false; o_skip_ci := false; o_skip_so := false;
     o_override_lib := false; o_skip_magic := false |}.
Definition ex_lib : bytes := [x6d; x63].
Definition ex_comp (n : nat) (b : bytes) : bytes := b.
Definition ex_msg (t : N) : message :=
  {| m_chan := 1; m_seq := t; m_log := t; m_pub := t; m_data := [x01; x02; x03] |}.
Definition ex_att : attachment :=
  {| a_log := 7; a_create := 8; a_name := [x61]; a_media := [x62]; a_size := 3; a_data := [] |}.
Definition ex_src : asrc := {| as_frags := [[x0a; x0b]; [x0c]]; as_fail := false |}.
Definition ex_src_fail : asrc := {| as_frags := [[x0a; x0b]; [x0c]]; as_fail := true |}.
Definition ex_src_short : asrc := {| as_frags := [[x0a; x0b]]; as_fail := false |}.
Definition ex_cs_pre : list wcall :=
  [CHeader {| h_profile := []; h_library := [] |};
   CSchema {| s_id := 1; s_name := [x73]; s_encoding := [x65]; s_data := [x64] |};
   CChannel {| c_id := 1; c_schema := 1; c_topic := [x74]; c_menc := [x6d]; c_meta := [] |};
   CMessage (ex_msg 10); CMessage (ex_msg 20); CMessage (ex_msg 30);
   CAttachment ex_att ex_src;
   CMetadata {| md_name := [x6e]; md_meta := [([x6b], [x76])] |}].
Definition ex_cs : list wcall := ex_cs_pre ++ [CClose].
Definition ex_fault : fault := {| ft_index := 5; ft_mode := FShort; ft_permanent := false |}.
Definition ex_fault_perm : fault := {| ft_index := 5; ft_mode := FErr; ft_permanent := true |}.
Definition ex_fault_new : fault := {| ft_index := 0; ft_mode := FErr; ft_permanent := false |}.
Definition is_chunk (it : item) : bool := match it with IChunk _ => true | _ => false end.
Definition is_attach (it : item) : bool := match it with IAttach _ _ _ => true | _ => false end.
