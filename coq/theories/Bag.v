(* Bag.v - executable model of go/ros/bag2mcap.go (Bag2MCAP / processBag): the ROS 1 bag record walk,
   header field scans, connection -> schema/channel mapping, message conversion, composed with the
   MCAP writer model (Writer.v).  Bag chunk decompression (lz4, bz2) is the same kind of oracle as in
   Lexer.v. *)
From Coq Require Import List NArith ZArith Bool.
From Coq.Strings Require Import Byte.
From RecordUpdate Require Import RecordSet.
From Mcap Require Import Bytes GoSem Crc32 Records Writer Lexer.
Import ListNotations RecordSetNotations.
Open Scope N_scope.
Open Scope go_scope.

Definition str (l : list N) : bytes := map byte_of_N l.
Definition bag_magic : bytes := str [35;82;79;83;66;65;71;32;86;50;46;48;10].      (* "#ROSBAG V2.0\n" *)
Definition k_op : bytes := str [111;112].
Definition k_conn : bytes := str [99;111;110;110].
Definition k_topic : bytes := str [116;111;112;105;99].
Definition k_time : bytes := str [116;105;109;101].
Definition k_compression : bytes := str [99;111;109;112;114;101;115;115;105;111;110].
Definition k_type : bytes := str [116;121;112;101].
Definition k_msgdef : bytes := str [109;101;115;115;97;103;101;95;100;101;102;105;110;105;116;105;111;110].
Definition k_md5 : bytes := str [109;100;53;115;117;109].
Definition s_ros1msg : bytes := str [114;111;115;49;109;115;103].
Definition s_ros1 : bytes := str [114;111;115;49].
Definition s_none : bytes := str [110;111;110;101].
Definition s_lz4 : bytes := str [108;122;52].
Definition s_bz2 : bytes := str [98;122;50].

(* split a field "key=value" at the first '=' *)
Fixpoint split_eq (s : bytes) (acc : bytes) : option (bytes * bytes) :=
  match s with
  | [] => None
  | b :: r => if Byte.to_N b =? 61 then Some (rev acc, r) else split_eq r (b :: acc)
  end.

(* extractHeaderValue: scan length-prefixed fields, return the value of the first field named key *)
Fixpoint extract_value (fuel : nat) (hdr : bytes) (key : bytes) : outcome bytes :=
  match fuel with
  | O => OutOfFuel
  | S f =>
    match hdr with
    | [] => Err EOther                                   (* key not found *)
    | _ =>
      if Nat.ltb (length hdr) 4 then Err EOther else
      let n := unle (firstn 4 hdr) in
      let rest := skipn 4 hdr in
      if blen rest <? n then Err EOther else
      let fld := take n rest in
      match split_eq fld [] with
      | None => Err EOther
      | Some (k, v) => if bytes_eqb k key then Ok v else extract_value f (drop n rest) key
      end
    end
  end.

(* headerToMap: all fields into a map (later duplicates overwrite) *)
Fixpoint header_to_map (fuel : nat) (data : bytes) (acc : kvs) : outcome kvs :=
  match fuel with
  | O => OutOfFuel
  | S f =>
    match data with
    | [] => Ok acc
    | _ =>
      if Nat.ltb (length data) 4 then Err EOther else
      let n := unle (firstn 4 data) in
      let rest := skipn 4 data in
      if blen rest <? n then Err EOther else
      match split_eq (take n rest) [] with
      | None => Err EOther
      | Some (k, v) => header_to_map f (drop n rest) (kv_set k v acc)
      end
    end
  end.

Fixpoint kv_get (k : bytes) (l : kvs) : bytes :=
  match l with [] => [] | x :: r => if bytes_eqb (fst x) k then snd x else kv_get k r end.
Fixpoint kv_del (k : bytes) (l : kvs) : kvs :=
  match l with [] => [] | x :: r => if bytes_eqb (fst x) k then r else x :: kv_del k r end.
Fixpoint sk_get (k : bytes) (l : list (bytes * N)) : option N :=
  match l with [] => None | x :: r => if bytes_eqb (fst x) k then Some (snd x) else sk_get k r end.

Record bstate := {
  b_w : wstate;
  b_seq : N;
  b_schemas : list (bytes * N)         (* "type/md5sum" -> schema id *)
}.

Section Convert.
Variable o : wopts.                      (* effective writer options *)
Variable lib_id : bytes.
Variable compress : nat -> bytes -> bytes.
Variable dstream : doracle.

Definition wstep (c : wcall) (s : bstate) : bstate * option err :=
  let '(w', e) := step o lib_id compress None c (b_w s) in
  ({| b_w := w'; b_seq := b_seq s; b_schemas := b_schemas s |}, e).

(* connection record callback *)
Definition on_connection (hdr data : bytes) (s : bstate) : bstate * option err :=
  match extract_value (S (length hdr)) hdr k_conn with
  | Ok conn =>
    if Nat.ltb (length conn) 4 then (s, Some EOther) else
    let conn_id := unle (firstn 4 conn) in
    match extract_value (S (length hdr)) hdr k_topic with
    | Ok topic =>
      match header_to_map (S (length data)) data [] with
      | Ok m =>
        let typ := kv_get k_type m in
        let m := kv_del k_type m in
        let msgdef := kv_get k_msgdef m in
        let m := kv_del k_msgdef m in
        let key := typ ++ x2f :: kv_get k_md5 m in
        let '(s, e, sid) :=
          match sk_get key (b_schemas s) with
          | Some sid => (s, None, sid)
          | None =>
            let sid := (N.of_nat (length (b_schemas s)) + 1) mod two16 in
            let '(s', e) := wstep (CSchema {| s_id := sid; s_name := typ; s_encoding := s_ros1msg; s_data := msgdef |}) s in
            match e with
            | Some e => (s', Some e, sid)
            | None => ({| b_w := b_w s'; b_seq := b_seq s'; b_schemas := b_schemas s' ++ [(key, sid)] |}, None, sid)
            end
          end in
        match e with
        | Some e => (s, Some e)
        | None =>
          if 65535 <? conn_id then (s, Some EOther) else
          wstep (CChannel {| c_id := conn_id; c_schema := sid; c_topic := topic; c_menc := s_ros1; c_meta := m |}) s
        end
      | Err e => (s, Some e)
      | _ => (s, Some EOther)
      end
    | Err e => (s, Some e)
    | _ => (s, Some EOther)
    end
  | Err e => (s, Some e)
  | _ => (s, Some EOther)
  end.

(* message record callback *)
Definition on_message (hdr data : bytes) (s : bstate) : bstate * option err :=
  match extract_value (S (length hdr)) hdr k_conn with
  | Ok conn =>
    if Nat.ltb (length conn) 4 then (s, Some EOther) else
    let conn_id := unle (firstn 4 conn) in
    match extract_value (S (length hdr)) hdr k_time with
    | Ok tm =>
      if Nat.ltb (length tm) 8 then (s, Some EOther) else
      let nsecs := unle (firstn 4 tm) * 1000000000 + unle (firstn 4 (skipn 4 tm)) in
      if 65535 <? conn_id then (s, Some EOther) else
      let '(s', e) := wstep (CMessage {| m_chan := conn_id; m_seq := b_seq s; m_log := nsecs; m_pub := nsecs; m_data := data |}) s in
      match e with
      | Some e => (s', Some e)
      | None => ({| b_w := b_w s'; b_seq := (b_seq s' + 1) mod two32; b_schemas := b_schemas s' |}, None)
      end
    | Err e => (s, Some e)
    | _ => (s, Some EOther)
    end
  | Err e => (s, Some e)
  | _ => (s, Some EOther)
  end.

(* processBag's record loop. base: the bag after the magic; chunk: the active chunk reader *)
Fixpoint bag_loop (fuel : nat) (base : rdr) (chunk : option rdr) (s : bstate) : bstate * option err :=
  match fuel with
  | O => (s, Some EOther)
  | S f =>
    let cur := match chunk with Some r => r | None => base end in
    let set_cur (r : rdr) := match chunk with Some _ => (base, Some r) | None => (r, None) end in
    let '(hl, e, r1) := rd_full 4 cur in
    match e with
    | Some EEOF =>
      match chunk with
      | Some _ => bag_loop f base None s
      | None => (s, None)
      end
    | Some e => (s, Some e)
    | None =>
      let hlen := unle hl in
      let '(hdr, e, r2) := rd_full hlen r1 in
      match e with
      | Some e => (s, Some e)
      | None =>
        let '(dl, e, r3) := rd_full 4 r2 in
        match e with
        | Some e => (s, Some e)
        | None =>
          let dlen := unle dl in
          match extract_value (S (length hdr)) hdr k_op with
          | Ok [] => (s, Some EOther)
          | Ok (opb :: _) =>
            let '(data, e, r4) := rd_full dlen r3 in
            match e with
            | Some e => (s, Some e)
            | None =>
              let '(base', chunk') := set_cur r4 in
              let op := Byte.to_N opb in
              if op =? 5 then
                match extract_value (S (length hdr)) hdr k_compression with
                | Ok comp =>
                  if bytes_eqb comp s_none then
                    bag_loop f base' (Some {| r_buf := data; r_end := None; r_seek := true |}) s
                  else if bytes_eqb comp s_lz4 || bytes_eqb comp s_bz2 then
                    let '(plain, pend) := dstream comp data None in
                    bag_loop f base' (Some {| r_buf := plain; r_end := pend; r_seek := false |}) s
                  else (s, Some EOther)
                | Err e => (s, Some e)
                | _ => (s, Some EOther)
                end
              else if op =? 7 then
                match on_connection hdr data s with
                | (s', None) => bag_loop f base' chunk' s'
                | (s', Some e) => (s', Some e)
                end
              else if op =? 2 then
                match on_message hdr data s with
                | (s', None) => bag_loop f base' chunk' s'
                | (s', Some e) => (s', Some e)
                end
              else bag_loop f base' chunk' s
            end
          | Err e => (s, Some e)
          | _ => (s, Some EOther)
          end
        end
      end
    end
  end.

End Convert.

Record bagres := { br_err : option err; br_writes : list bytes; br_final : wstate }.

(* Bag2MCAP *)
Definition bag2mcap (o : wopts) (lib_id : bytes) (compress : nat -> bytes -> bytes) (dstream : doracle)
           (fuel : nat) (input : bytes) : bagres :=
  let o := effective_opts o in
  match new_writer o None with
  | (w, Some e) => {| br_err := Some e; br_writes := rev (w_out w); br_final := w |}
  | (w, None) =>
    let s0 := {| b_w := w; b_seq := 0; b_schemas := [] |} in
    let finish (s : bstate) (e : option err) :=
      let '(w', _) := close o compress None (b_w s) in              (* deferred writer.Close(): its error is dropped *)
      {| br_err := e; br_writes := rev (w_out w'); br_final := w' |} in
    match wstep o lib_id compress (CHeader {| h_profile := map byte_of_N [114;111;115;49]; h_library := [] |}) s0 with
    | (s1, Some e) => finish s1 (Some e)
    | (s1, None) =>
      let src := {| r_buf := input; r_end := None; r_seek := false |} in
      let '(m, e, r1) := rd_full 13 src in
      match e with
      | Some e => finish s1 (Some e)
      | None =>
        if negb (bytes_eqb m bag_magic) then finish s1 (Some EOther) else
        let '(s2, e) := bag_loop o lib_id compress dstream fuel r1 None s1 in
        finish s2 e
      end
    end
  end.
