(* DecisionTieL.v - the boolean decisions of go/mcap's lexer (Next, loadChunk, makeSafe), as regenerated on every run
   from the Go AST (DecisionsL_gen.v), are the decisions the model takes.

   Each `tie_*` lemma equates one generated definition with the corresponding expression of Lexer.v; the proofs
   are semantic (case analysis on the comparisons, then linear arithmetic), so an equivalent rewriting of the Go
   expression (a > b for b < a, reordered disjuncts) still checks, while a changed decision (< for <=, a dropped
   disjunct, swapped operands of a comparator) does not.  The `*_unfold` lemmas show that the model's step functions
   use exactly these decisions at the corresponding program points. *)
From Coq Require Import List NArith ZArith Bool Lia ZifyBool ZifyN.
From RecordUpdate Require Import RecordSet.
From Mcap Require Import Bytes GoSem Records Lexer Writer Reader DecisionsL_gen.
Import ListNotations RecordSetNotations.
Open Scope N_scope.

(* case analysis on every comparison in the goal, then arithmetic *)
Ltac cmp_cases :=
  repeat match goal with
  | |- context [N.ltb ?x ?y] => destruct (N.ltb_spec x y)
  | |- context [N.leb ?x ?y] => destruct (N.leb_spec x y)
  | |- context [N.eqb ?x ?y] => destruct (N.eqb_spec x y)
  | |- context [Z.ltb ?x ?y] => destruct (Z.ltb_spec x y)
  | |- context [Z.leb ?x ?y] => destruct (Z.leb_spec x y)
  | |- context [Z.eqb ?x ?y] => destruct (Z.eqb_spec x y)
  end.
Ltac bool_cases :=
  repeat match goal with
  | |- context [negb ?b] => is_var b; destruct b
  | |- context [andb ?b _] => is_var b; destruct b
  | |- context [orb ?b _] => is_var b; destruct b
  | |- context [andb _ ?b] => is_var b; destruct b
  | |- context [orb _ ?b] => is_var b; destruct b
  end.
Ltac decide_tie := cmp_cases; bool_cases; cbn; try reflexivity; try (exfalso; lia); try lia.

(* ------------------------------------------------------------------ lexer: Next *)
Lemma tie_lx_leave_chunk in_chunk eof ueof : go_lx_leave_chunk in_chunk eof ueof = in_chunk && (eof || ueof).
Proof. unfold go_lx_leave_chunk. destruct in_chunk, eof, ueof; reflexivity. Qed.

Lemma tie_lx_magic_end hd : go_lx_magic_end hd = Nat.eqb (List.length hd) 8 && bytes_eqb hd magic.
Proof.
  unfold go_lx_magic_end. destruct (bytes_eqb hd magic); rewrite ?andb_true_r, ?andb_false_r; [|reflexivity].
  destruct (Nat.eqb_spec (List.length hd) 8) as [E|E].
  - rewrite E. reflexivity.
  - destruct (N.eqb_spec (N.of_nat (List.length hd)) 8) as [E'|E']; [exfalso; lia | reflexivity].
Qed.

Lemma tie_lx_record_too_large lo rlen :
  go_lx_record_too_large lo rlen = (0 <? lo_max_record lo) && (lo_max_record lo <? rlen).
Proof. unfold go_lx_record_too_large. decide_tie. Qed.

Lemma tie_lx_att_too_long rlen : go_lx_att_too_long rlen = (9223372036854775807 <? rlen).
Proof. unfold go_lx_att_too_long. decide_tie. Qed.

Lemma tie_lx_grow_p pcap rlen : go_lx_grow_p pcap rlen = (pcap <? rlen).
Proof. unfold go_lx_grow_p. decide_tie. Qed.

(* ------------------------------------------------------------------ lexer: loadChunk *)
Lemma tie_lx_nested b : go_lx_nested b = b.
Proof. unfold go_lx_nested. destruct b; reflexivity. Qed.

Lemma tie_lx_complen rlen need : go_lx_complen rlen need = (rlen <? 32 + need).
Proof. unfold go_lx_complen. decide_tie. Qed.

Lemma tie_lx_scratch_grow bufcap need : go_lx_scratch_grow bufcap need = (bufcap <? need).
Proof. unfold go_lx_scratch_grow. decide_tie. Qed.

Lemma tie_lx_chunk_too_large lo usize :
  go_lx_chunk_too_large lo usize = (0 <? lo_max_chunk lo) && (lo_max_chunk lo <? usize).
Proof. unfold go_lx_chunk_too_large. decide_tie. Qed.

Lemma tie_lx_ubuf_grow ubuf usize : go_lx_ubuf_grow ubuf usize = (ubuf <? usize).
Proof. unfold go_lx_ubuf_grow. decide_tie. Qed.

Lemma tie_lx_usize_range usize : go_lx_usize_range usize = (max_int32 <? usize).
Proof. unfold go_lx_usize_range. decide_tie. Qed.

(* the test that decides whether corrupted chunk bytes are handed out (C07): a stored CRC of zero means "not checked" *)
Lemma tie_lx_crc_mismatch ucrc crc : go_lx_crc_mismatch ucrc crc = (0 <? ucrc) && negb (crc =? ucrc).
Proof. unfold go_lx_crc_mismatch. decide_tie. Qed.

Lemma tie_make_safe n s :
  make_safe n s = if go_make_safe_ok n then Ok (s <| lx_allocs := n :: lx_allocs s |>) else Err ELengthOutOfRange.
Proof. unfold make_safe, go_make_safe_ok. decide_tie. Qed.

(* the model's Next takes these decisions at the corresponding points *)
Section Unfold.
Variable lo : lopts.
Variable dstream : doracle.

Lemma lex_next_record_too_large f pcap s evs hd r1 :
  rd_full 9 (cur s) = (hd, None, r1) ->
  go_lx_record_too_large lo (unle (skipn 1 hd)) = true ->
  lex_next lo dstream (S f) pcap s evs = Ok (evs, NErr ERecordTooLarge, set_cur r1 s).
Proof.
  intros Hr Hd. rewrite tie_lx_record_too_large in Hd. cbn [lex_next]. rewrite Hr. rewrite Hd. reflexivity.
Qed.

Lemma lex_next_leave_chunk f pcap s evs hd e r1 :
  rd_full 9 (cur s) = (hd, Some e, r1) ->
  go_lx_leave_chunk (match lx_chunk s with Some _ => true | None => false end)
                    (err_eqb e EEOF) (err_eqb e EUnexpectedEOF || err_eqb e ETruncated) = true ->
  lex_next lo dstream (S f) pcap s evs = lex_next lo dstream f pcap (set_cur r1 s <| lx_chunk := None |>) evs.
Proof.
  intros Hr Hd. rewrite tie_lx_leave_chunk in Hd. cbn [lex_next]. rewrite Hr. rewrite Hd. reflexivity.
Qed.

Lemma lex_next_magic_end f pcap s evs hd e r1 :
  rd_full 9 (cur s) = (hd, Some e, r1) ->
  go_lx_leave_chunk (match lx_chunk s with Some _ => true | None => false end)
                    (err_eqb e EEOF) (err_eqb e EUnexpectedEOF || err_eqb e ETruncated) = false ->
  (err_eqb e EUnexpectedEOF || err_eqb e ETruncated) = true ->
  lex_next lo dstream (S f) pcap s evs =
  Ok (evs, NErr (if go_lx_magic_end hd then EEOF else ETruncated), set_cur r1 s).
Proof.
  intros Hr Hd Hu. rewrite tie_lx_leave_chunk in Hd. rewrite tie_lx_magic_end. cbn [lex_next]. rewrite Hr. rewrite Hd, Hu.
  destruct (Nat.eqb (List.length hd) 8 && bytes_eqb hd magic); reflexivity.
Qed.
End Unfold.
