(* Consts_gen.v - GENERATED on every run from /repo/go/mcap/{mcap.go,version.go} by tools/common.py *)
From Coq Require Import List NArith.
From Coq.Strings Require Import Byte.
Import ListNotations.
Open Scope N_scope.

Definition go_OpReserved : N := 0.
Definition go_OpHeader : N := 1.
Definition go_OpFooter : N := 2.
Definition go_OpSchema : N := 3.
Definition go_OpChannel : N := 4.
Definition go_OpMessage : N := 5.
Definition go_OpChunk : N := 6.
Definition go_OpMessageIndex : N := 7.
Definition go_OpChunkIndex : N := 8.
Definition go_OpAttachment : N := 9.
Definition go_OpAttachmentIndex : N := 10.
Definition go_OpStatistics : N := 11.
Definition go_OpMetadata : N := 12.
Definition go_OpMetadataIndex : N := 13.
Definition go_OpSummaryOffset : N := 14.
Definition go_OpDataEnd : N := 15.
Definition go_Magic : list N := [137; 77; 67; 65; 80; 48; 13; 10].
Definition go_Version : list N := [118; 49; 46; 57; 46; 48].
Definition go_CompressionZSTD : list N := [122; 115; 116; 100].
Definition go_CompressionLZ4 : list N := [108; 122; 52].
Definition go_CompressionNone : list N := [].
Definition go_makeSafe_limit : N := 2147483647.
Definition go_default_chunk_size : N := 1048576.
Definition go_ros_primitives : list (list N) := [[98; 111; 111; 108]; [105; 110; 116; 56]; [117; 105; 110; 116; 56]; [105; 110; 116; 49; 54]; [117; 105; 110; 116; 49; 54]; [105; 110; 116; 51; 50]; [117; 105; 110; 116; 51; 50]; [105; 110; 116; 54; 52]; [117; 105; 110; 116; 54; 52]; [102; 108; 111; 97; 116; 51; 50]; [102; 108; 111; 97; 116; 54; 52]; [115; 116; 114; 105; 110; 103]; [116; 105; 109; 101]; [100; 117; 114; 97; 116; 105; 111; 110]; [99; 104; 97; 114]; [98; 121; 116; 101]].
Definition go_ros_separator : list N := [61; 61; 61; 61; 61; 61; 61; 61; 61; 61; 61; 61; 61; 61; 61; 61; 61; 61; 61; 61; 61; 61; 61; 61; 61; 61; 61; 61; 61; 61; 61; 61; 61; 61; 61; 61; 61; 61; 61; 61; 61; 61; 61; 61; 61; 61; 61; 61; 61; 61; 61; 61; 61; 61; 61; 61; 61; 61; 61; 61; 61; 61; 61; 61; 61; 61; 61; 61; 61; 61; 61; 61; 61; 61; 61; 61; 61; 61; 61; 61; 10].
Definition go_bag_magic : list N := [35; 82; 79; 83; 66; 65; 71; 32; 86; 50; 46; 48; 10].
Definition py_op_ATTACHMENT : N := 9.
Definition py_op_ATTACHMENT_INDEX : N := 10.
Definition py_op_CHANNEL : N := 4.
Definition py_op_CHUNK : N := 6.
Definition py_op_CHUNK_INDEX : N := 8.
Definition py_op_DATA_END : N := 15.
Definition py_op_FOOTER : N := 2.
Definition py_op_HEADER : N := 1.
Definition py_op_MESSAGE : N := 5.
Definition py_op_MESSAGE_INDEX : N := 7.
Definition py_op_METADATA : N := 12.
Definition py_op_METADATA_INDEX : N := 13.
Definition py_op_SCHEMA : N := 3.
Definition py_op_STATISTICS : N := 11.
Definition py_op_SUMMARY_OFFSET : N := 14.
Definition py_magic : list N := [137; 77; 67; 65; 80; 48; 13; 10].
Definition py_magic_size : N := 8.
Definition py_record_size_limit : N := 4294967296.
