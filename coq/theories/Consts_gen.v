(* Consts_gen.v - GENERATED on every run from /repo/go/mcap/{mcap.go,version.go} by tools/common.py *)
From Coq Require Import List NArith.
From Coq.Strings Require Import Byte.
Import ListNotations.
Open Scope N_scope.

Definition go_OpReserved : N := 0.
Definition go_OpHeader : N := 1.
Definition go_OpFooter : N := 2.
Definition go_OpSchema : N := 3.
Definition go_OpChannel : N := 4.
Definition go_OpMessage : N := 5.
Definition go_OpChunk : N := 6.
Definition go_OpMessageIndex : N := 7.
Definition go_OpChunkIndex : N := 8.
Definition go_OpAttachment : N := 9.
Definition go_OpAttachmentIndex : N := 10.
Definition go_OpStatistics : N := 11.
Definition go_OpMetadata : N := 12.
Definition go_OpMetadataIndex : N := 13.
Definition go_OpSummaryOffset : N := 14.
Definition go_OpDataEnd : N := 15.
Definition go_Magic : list N := [137; 77; 67; 65; 80; 48; 13; 10].
Definition go_Version : list N := [118; 49; 46; 57; 46; 48].
Definition go_CompressionZSTD : list N := [122; 115; 116; 100].
Definition go_CompressionLZ4 : list N := [108; 122; 52].
Definition go_CompressionNone : list N := [].
