(* Writer.v - executable model of go/mcap/writer.go (+ write_sizer.go, crc_writer.go,
   counting_writer.go).  The model produces the *sequence of Write calls* made on the
   destination, threads errors with the same `if err != nil` structure as the Go code,
   and supports injecting a fault at the k-th destination write. *)
From Coq Require Import List NArith ZArith Bool.
From Coq.Strings Require Import Byte.
From RecordUpdate Require Import RecordSet.
From Mcap Require Import Bytes GoSem Crc32 Records.
Import ListNotations RecordSetNotations.
Open Scope N_scope.

(* ---------- options ---------- *)
Record wopts := {
  o_crc : bool;              (* IncludeCRC *)
  o_chunked : bool;
  o_chunksize : Z;           (* ChunkSize, int64; 0 -> 1 MiB when chunked *)
  o_comp : bytes;            (* Compression name *)
  o_custom : bool;           (* a CustomCompressor is supplied (its format is o_comp) *)
  o_skip_mi : bool;          (* SkipMessageIndexing *)
  o_skip_stats : bool;
  o_skip_rsh : bool;         (* SkipRepeatedSchemas *)
  o_skip_rch : bool;         (* SkipRepeatedChannelInfos *)
  o_skip_ai : bool;          (* SkipAttachmentIndex *)
  o_skip_mdi : bool;         (* SkipMetadataIndex *)
  o_skip_ci : bool;          (* SkipChunkIndex *)
  o_skip_so : bool;          (* SkipSummaryOffsets *)
  o_override_lib : bool;
  o_skip_magic : bool
}.

Definition comp_zstd : bytes := [x7a; x73; x74; x64].
Definition comp_lz4 : bytes := [x6c; x7a; x34].

(* ---------- fault injection on the destination ---------- *)
Inductive fmode := FErr | FShort.     (* error with 0 bytes accepted / short write + error *)
Record fault := { ft_index : nat; ft_mode : fmode; ft_permanent : bool }.

(* ---------- attachment data source ---------- *)
(* what io.Copy sees: successive non-empty Read results, then EOF or an error *)
Record asrc := { as_frags : list bytes; as_fail : bool }.

(* ---------- calls ---------- *)
Inductive wcall :=
| CHeader (h : header)
| CSchema (s : schema)
| CChannel (c : channel)
| CMessage (m : message)
| CAttachment (a : attachment) (src : asrc)   (* a_data is ignored; data come from src *)
| CMetadata (m : metadata)
| CClose.

(* ---------- ghost trace: what has been emitted, structurally ---------- *)
Inductive item :=
| IMagic
| IRec (op : byte) (body : bytes)                  (* a record written through writeRecord *)
| IChunk (k : chunk)                               (* chunk record: head + payload *)
| IAttach (a : attachment) (data : bytes) (crc : N)
| IFooter (ss sos crc : N).

Definition render_item (it : item) : bytes :=
  match it with
  | IMagic => magic
  | IRec op body => frame op body
  | IChunk k => frame OpChunk (enc_chunk k)
  | IAttach a data crc => frame OpAttachment (enc_attachment_fields a ++ data ++ u32 crc)
  | IFooter ss sos crc => frame OpFooter (enc_footer {| f_summary_start := ss; f_summary_offset_start := sos; f_crc := crc |})
  end.

(* ---------- state ---------- *)
Record wstate := {
  w_trace : list item;        (* ghost: items completely written, newest first *)
  w_out : list bytes;         (* bytes accepted by the destination per Write call, newest first *)
  w_nw : nat;                 (* number of Write calls made on the destination so far *)
  w_failed : bool;            (* a permanent fault has triggered *)
  w_size : N;                 (* writeSizer.size *)
  w_crc : N;                  (* raw running CRC state of the writeSizer *)
  w_cbuf : bytes;             (* uncompressed bytes of the active chunk *)
  w_nchunks : nat;            (* chunks flushed so far (ordinal given to the compressor oracle) *)
  w_cur_start : N; w_cur_end : N; w_cur_count : N;
  w_msgidx : list (N * list (N * N));   (* per channel: entries of the active chunk (map) *)
  w_channel_ids : list N; w_schema_ids : list N;
  w_channels : list (N * channel); w_schemas : list (N * schema);
  w_chunk_indexes : list chunkindex;    (* oldest first *)
  w_att_indexes : list attindex;
  w_md_indexes : list mdindex;
  (* Statistics *)
  w_st_messages : N; w_st_schemas : N; w_st_channels : N; w_st_attachments : N;
  w_st_metadata : N; w_st_chunks : N; w_st_start : N; w_st_end : N;
  w_st_counts : list (N * N);
  w_closed : bool
}.
#[export] Instance eta_wstate : Settable _ := settable! Build_wstate
  < w_trace; w_out; w_nw; w_failed; w_size; w_crc; w_cbuf; w_nchunks; w_cur_start; w_cur_end; w_cur_count;
    w_msgidx; w_channel_ids; w_schema_ids; w_channels; w_schemas; w_chunk_indexes;
    w_att_indexes; w_md_indexes; w_st_messages; w_st_schemas; w_st_channels; w_st_attachments;
    w_st_metadata; w_st_chunks; w_st_start; w_st_end; w_st_counts; w_closed >.

Definition wres := (wstate * option err)%type.     (* None = nil error *)

Definition bindw (x : wres) (f : wstate -> wres) : wres :=
  match x with
  | (s, None) => f s
  | (s, Some e) => (s, Some e)
  end.
Notation "'do*' s ':=' c 'in' k" := (bindw c (fun s => k))
  (at level 200, s name, c at level 100, k at level 200, right associativity).

Section WithEnv.
Variable o : wopts.
Variable lib_id : bytes.                 (* "mcap-go/" ++ version *)
Variable compress : nat -> bytes -> bytes.  (* chunk ordinal -> uncompressed records -> stored payload *)
Variable flt : option fault.

(* ----- destination write through writeSizer (+ crcWriter) ----- *)
Definition dst_write (p : bytes) (s : wstate) : wres :=
  let k := w_nw s in
  let s1 := s <| w_nw := S k |> <| w_size := w_size s + blen p |>
              <| w_crc := if o_crc o then crc_update (w_crc s) p else w_crc s |> in
  let hit := match flt with
             | Some f => if Nat.eqb (ft_index f) k then true
                         else ft_permanent f && w_failed s
             | None => false end in
  if hit then
    let first := match flt with Some f => Nat.eqb (ft_index f) k | None => false end in
    let acc := match flt with
               | Some f => match ft_mode f with
                           | FShort => if first then firstn (length p / 2) p else []
                           | FErr => [] end
               | None => [] end in
    (s1 <| w_out := acc :: w_out s |> <| w_failed := true |>, Some EInjected)
  else (s1 <| w_out := p :: w_out s |>, None).

(* write into the chunk compressor (bytes.Buffer / codec: never fails) *)
Definition chunk_write (p : bytes) (s : wstate) : wres := (s <| w_cbuf := w_cbuf s ++ p |>, None).

Definition log (it : item) (s : wstate) : wres := (s <| w_trace := it :: w_trace s |>, None).

(* writeRecord: two writes, 9-byte head then body *)
Definition write_record_dst (op : byte) (body : bytes) (s : wstate) : wres :=
  do* s := dst_write (frame_head op (blen body)) s in
  do* s := dst_write body s in log (IRec op body) s.
Definition write_record_chunk (op : byte) (body : bytes) (s : wstate) : wres :=
  do* s := chunk_write (frame_head op (blen body)) s in chunk_write body s.
Definition in_chunk (s : wstate) : bool := o_chunked o && negb (w_closed s).
Definition write_record_auto (op : byte) (body : bytes) (s : wstate) : wres :=
  if in_chunk s then write_record_chunk op body s else write_record_dst op body s.

Definition checksum (s : wstate) : N := if o_crc o then crc_final (w_crc s) else 0.

Fixpoint nmem (k : N) (l : list N) : bool :=
  match l with [] => false | x :: r => (x =? k) || nmem k r end.
Fixpoint assoc_get {A} (k : N) (l : list (N * A)) : option A :=
  match l with [] => None | x :: r => if fst x =? k then Some (snd x) else assoc_get k r end.

(* ----- WriteHeader ----- *)
Definition sep_lib : bytes := [x3b; x20].   (* "; " *)
Definition header_library (h : header) : bytes :=
  if o_override_lib o then h_library h
  else if negb (bytes_eqb (h_library h) []) && negb (bytes_eqb (h_library h) lib_id)
       then lib_id ++ sep_lib ++ h_library h else lib_id.
Definition write_header (h : header) (s : wstate) : wres :=
  write_record_dst OpHeader (enc_header {| h_profile := h_profile h; h_library := header_library h |}) s.

(* ----- WriteSchema / AddSchema ----- *)
Definition add_schema (sc : schema) (s : wstate) : wstate :=
  match assoc_get (s_id sc) (w_schemas s) with
  | Some _ => s
  | None => s <| w_schema_ids := w_schema_ids s ++ [s_id sc] |>
              <| w_schemas := w_schemas s ++ [(s_id sc, sc)] |>
              <| w_st_schemas := w_st_schemas s + 1 |>
  end.
Definition write_schema (sc : schema) (s : wstate) : wres :=
  if s_id sc =? 0 then (s, Some EOther) else
  do* s := write_record_auto OpSchema (enc_schema sc) s in
  (add_schema sc s, None).

(* ----- WriteChannel / AddChannel ----- *)
Definition add_channel (c : channel) (s : wstate) : wstate :=
  match assoc_get (c_id c) (w_channels s) with
  | Some _ => s
  | None => s <| w_st_channels := w_st_channels s + 1 |>
              <| w_channels := w_channels s ++ [(c_id c, c)] |>
              <| w_channel_ids := w_channel_ids s ++ [c_id c] |>
  end.
Definition write_channel (c : channel) (s : wstate) : wres :=
  if (0 <? c_schema c) && negb (match assoc_get (c_schema c) (w_schemas s) with Some _ => true | None => false end)
  then (s, Some EUnknownSchema) else
  do* s := write_record_auto OpChannel (enc_channel c) s in
  (add_channel c s, None).

(* ----- message indexes of the active chunk ----- *)
Fixpoint mi_add (ch : N) (e : N * N) (l : list (N * list (N * N))) : list (N * list (N * N)) :=
  match l with
  | [] => [(ch, [e])]
  | x :: r => if fst x =? ch then (ch, snd x ++ [e]) :: r else x :: mi_add ch e r
  end.
Definition mi_reset (l : list (N * list (N * N))) : list (N * list (N * N)) :=
  map (fun x => (fst x, @nil (N * N))) l.

(* ----- WriteMessageIndex ----- *)
Definition write_msgindex (mi : msgindex) (s : wstate) : wres :=
  write_record_dst OpMessageIndex (enc_msgindex mi) s.

(* write the message indexes (non-empty ones, in channel-registration order), collecting offsets *)
Fixpoint write_msgindexes (l : list msgindex) (offs : list (N * N)) (s : wstate)
  : wstate * option err * list (N * N) :=
  match l with
  | [] => (s, None, offs)
  | mi :: r =>
    match mi_entries mi with
    | [] => write_msgindexes r offs s
    | _ =>
      let offs' := offs ++ [(mi_chan mi, w_size s)] in
      match write_msgindex mi s with
      | (s', None) => write_msgindexes r offs' s'
      | (s', Some e) => (s', Some e, offs')
      end
    end
  end.

(* ----- WriteChunkWithIndexes (the part flushActiveChunk uses) ----- *)
Definition write_chunk_with_indexes (k : chunk) (mis : list msgindex) (s : wstate) : wres :=
  if k_usize k =? 0 then (s, None) else
  let chunk_start := w_size s in
  let head := frame_head OpChunk (blen (enc_chunk_top k) + blen (k_records k)) ++ enc_chunk_top k in
  do* s := dst_write head s in
  do* s := dst_write (k_records k) s in
  do* s := log (IChunk k) s in
  let chunk_end := w_size s in
  let '(s, e, offs) := if negb (o_skip_mi o) then write_msgindexes mis [] s else (s, None, []) in
  match e with
  | Some e => (s, Some e)
  | None =>
    let mi_end := w_size s in
    let ci := {| ci_start := k_start k; ci_end := k_end k; ci_offset := chunk_start;
                 ci_length := chunk_end - chunk_start; ci_mioffsets := offs;
                 ci_milength := mi_end - chunk_end; ci_comp := k_comp k;
                 ci_csize := blen (k_records k); ci_usize := k_usize k |} in
    (s <| w_chunk_indexes := w_chunk_indexes s ++ [ci] |> <| w_st_chunks := w_st_chunks s + 1 |>, None)
  end.

(* ----- flushActiveChunk ----- *)
Definition flush_active_chunk (s : wstate) : wres :=
  match w_cbuf s with
  | [] => (s, None)
  | _ =>
    let plain := w_cbuf s in
    let crc := if o_crc o then crc32 plain else 0 in
    let '(st, en) := if w_cur_count s =? 0 then (0, 0) else (w_cur_start s, w_cur_end s) in
    let k := {| k_start := st; k_end := en; k_usize := blen plain; k_crc := crc;
                k_comp := o_comp o; k_records := compress (w_nchunks s) plain |} in
    let s := s <| w_cbuf := [] |> <| w_nchunks := S (w_nchunks s) |> in
    let mis := if o_skip_mi o then [] else
      flat_map (fun ch => match assoc_get ch (w_msgidx s) with
                          | Some (e :: es) => [{| mi_chan := ch; mi_entries := e :: es |}]
                          | _ => [] end) (w_channel_ids s) in
    do* s := write_chunk_with_indexes k mis s in
    (s <| w_msgidx := mi_reset (w_msgidx s) |> <| w_cur_start := max_u64 |> <| w_cur_end := 0 |>
       <| w_cur_count := 0 |>, None)
  end.

(* ----- WriteMessage ----- *)
Definition stats_time (lt : N) (s : wstate) : wstate :=
  let s := if w_st_end s <? lt then s <| w_st_end := lt |> else s in
  if (lt <? w_st_start s) || (w_st_messages s <=? 1) then s <| w_st_start := lt |> else s.
Definition bump_count (ch : N) (l : list (N * N)) : list (N * N) :=
  nn_set ch (match nn_get ch l with Some v => v + 1 | None => 1 end) l.
Definition write_message (m : message) (s : wstate) : wres :=
  match assoc_get (m_chan m) (w_channels s) with
  | None => (s, Some EOther)
  | Some _ =>
    let body := enc_message m in
    let s := s <| w_st_counts := bump_count (m_chan m) (w_st_counts s) |>
               <| w_st_messages := w_st_messages s + 1 |> in
    if in_chunk s then
      let s := s <| w_msgidx := mi_add (m_chan m) (m_log m, blen (w_cbuf s)) (w_msgidx s) |> in
      do* s := write_record_chunk OpMessage body s in
      let s := s <| w_cur_count := w_cur_count s + 1 |> in
      let s := if w_cur_end s <? m_log m then s <| w_cur_end := m_log m |> else s in
      let s := if m_log m <? w_cur_start s then s <| w_cur_start := m_log m |> else s in
      do* s := (if (o_chunksize o <? Z.of_N (blen (w_cbuf s)))%Z then flush_active_chunk s else (s, None)) in
      (stats_time (m_log m) s, None)
    else
      do* s := write_record_dst OpMessage body s in
      (stats_time (m_log m) s, None)
  end.

(* ----- WriteAttachment ----- *)
Fixpoint copy_frags (fr : list bytes) (n : N) (s : wstate) : wstate * option err * N :=
  match fr with
  | [] => (s, None, n)
  | p :: r =>
    match dst_write p s with
    | (s', None) => copy_frags r (n + blen p) s'
    | (s', Some e) => (s', Some e, n)
    end
  end.
Definition write_attachment (a : attachment) (src : asrc) (s : wstate) : wres :=
  let fields := enc_attachment_fields a in
  let reclen := (blen fields + a_size a + 4) mod two64 in
  let off := w_size s in
  do* s := dst_write (frame_head OpAttachment reclen) s in
  do* s := dst_write fields s in
  let '(s, e, n) := copy_frags (as_frags src) 0 s in
  match e with
  | Some e => (s, Some e)
  | None =>
    if as_fail src then (s, Some EInjected) else
    if negb (n =? a_size a) then (s, Some EAttachmentSize) else
    let crc := crc32 (fields ++ concat (as_frags src)) in
    do* s := dst_write (u32 crc) s in
    do* s := log (IAttach a (concat (as_frags src)) crc) s in
    let ai := {| ai_offset := off; ai_length := (9 + blen fields + a_size a + 4) mod two64;
                 ai_log := a_log a; ai_create := a_create a; ai_size := a_size a;
                 ai_name := a_name a; ai_media := a_media a |} in
    (s <| w_att_indexes := w_att_indexes s ++ [ai] |> <| w_st_attachments := w_st_attachments s + 1 |>, None)
  end.

(* ----- WriteMetadata ----- *)
Definition write_metadata (m : metadata) (s : wstate) : wres :=
  let body := enc_metadata m in
  let off := w_size s in
  do* s := write_record_dst OpMetadata body s in
  let mx := {| mx_offset := off; mx_length := 9 + blen body; mx_name := md_name m |} in
  (s <| w_md_indexes := w_md_indexes s ++ [mx] |> <| w_st_metadata := w_st_metadata s + 1 |>, None).

(* ----- summary section ----- *)
Fixpoint write_all {A} (f : A -> wstate -> wres) (l : list A) (s : wstate) : wres :=
  match l with
  | [] => (s, None)
  | x :: r => do* s := f x s in write_all f r s
  end.

Definition stats_record (s : wstate) : statistics :=
  {| st_messages := w_st_messages s; st_schemas := w_st_schemas s; st_channels := w_st_channels s;
     st_attachments := w_st_attachments s; st_metadata := w_st_metadata s; st_chunks := w_st_chunks s;
     st_start := w_st_start s; st_end := w_st_end s;
     st_counts := flat_map (fun ch => match nn_get ch (w_st_counts s) with
                                      | Some v => [(ch, v)] | None => [] end) (w_channel_ids s) |}.

Definition group (op : byte) (start : N) (s : wstate) : sumoffset :=
  {| so_op := op; so_start := start; so_length := w_size s - start |}.

Definition write_summary (s : wstate) : wstate * option err * list sumoffset :=
  let offs := [] in
  (* schemas *)
  let '(s, e, offs) :=
    if negb (o_skip_rsh o) && negb (match w_schemas s with [] => true | _ => false end) then
      let start := w_size s in
      match write_all (fun sc => write_schema sc) (map snd (w_schemas s)) s with
      | (s, None) => (s, None, offs ++ [group OpSchema start s])
      | (s, Some e) => (s, Some e, offs)
      end
    else (s, None, offs) in
  match e with Some e => (s, Some e, offs) | None =>
  (* channels *)
  let '(s, e, offs) :=
    if negb (o_skip_rch o) && negb (match w_channels s with [] => true | _ => false end) then
      let start := w_size s in
      match write_all (fun c => write_channel c) (map snd (w_channels s)) s with
      | (s, None) => (s, None, offs ++ [group OpChannel start s])
      | (s, Some e) => (s, Some e, offs)
      end
    else (s, None, offs) in
  match e with Some e => (s, Some e, offs) | None =>
  (* statistics *)
  let '(s, e, offs) :=
    if negb (o_skip_stats o) then
      let start := w_size s in
      match write_record_dst OpStatistics (enc_statistics (stats_record s)) s with
      | (s, None) => (s, None, offs ++ [group OpStatistics start s])
      | (s, Some e) => (s, Some e, offs)
      end
    else (s, None, offs) in
  match e with Some e => (s, Some e, offs) | None =>
  (* chunk indexes *)
  let '(s, e, offs) :=
    if negb (o_skip_ci o) && negb (match w_chunk_indexes s with [] => true | _ => false end) then
      let start := w_size s in
      match write_all (fun ci => write_record_dst OpChunkIndex (enc_chunkindex ci)) (w_chunk_indexes s) s with
      | (s, None) => (s, None, offs ++ [group OpChunkIndex start s])
      | (s, Some e) => (s, Some e, offs)
      end
    else (s, None, offs) in
  match e with Some e => (s, Some e, offs) | None =>
  (* attachment indexes *)
  let '(s, e, offs) :=
    if negb (o_skip_ai o) && negb (match w_att_indexes s with [] => true | _ => false end) then
      let start := w_size s in
      match write_all (fun ai => write_record_dst OpAttachmentIndex (enc_attindex ai)) (w_att_indexes s) s with
      | (s, None) => (s, None, offs ++ [group OpAttachmentIndex start s])
      | (s, Some e) => (s, Some e, offs)
      end
    else (s, None, offs) in
  match e with Some e => (s, Some e, offs) | None =>
  (* metadata indexes *)
  if negb (o_skip_mdi o) && negb (match w_md_indexes s with [] => true | _ => false end) then
    let start := w_size s in
    match write_all (fun mx => write_record_dst OpMetadataIndex (enc_mdindex mx)) (w_md_indexes s) s with
    | (s, None) => (s, None, offs ++ [group OpMetadataIndex start s])
    | (s, Some e) => (s, Some e, offs)
    end
  else (s, None, offs)
  end end end end end.

(* ----- WriteFooter ----- *)
Definition write_footer (ss sos : N) (s : wstate) : wres :=
  let head := frame_head OpFooter 20 ++ u64 ss ++ u64 sos in
  do* s := dst_write head s in
  let crc := checksum s in
  do* s := dst_write (u32 crc) s in log (IFooter ss sos crc) s.

(* ----- Close ----- *)
Definition close (s : wstate) : wres :=
  do* s := (if o_chunked o then flush_active_chunk s else (s, None)) in
  let s := s <| w_closed := true |> in
  do* s := write_record_dst OpDataEnd (enc_dataend {| de_crc := checksum s |}) s in
  let s := s <| w_crc := crc_init |> in
  let start := w_size s in
  let '(s, e, offs) := write_summary s in
  match e with
  | Some e => (s, Some e)
  | None =>
    let ss := match offs with [] => 0 | _ => start end in
    let write_offsets := negb (o_skip_so o) && negb (match offs with [] => true | _ => false end) in
    let sos := if write_offsets then w_size s else 0 in
    do* s := (if write_offsets
              then write_all (fun so => write_record_dst OpSummaryOffset (enc_sumoffset so)) offs s
              else (s, None)) in
    do* s := write_footer ss sos s in
    do* s := dst_write magic s in log IMagic s
  end.

(* ----- NewWriter ----- *)
Definition init_state : wstate :=
  {| w_trace := []; w_out := []; w_nw := 0; w_failed := false; w_size := 0; w_crc := crc_init; w_cbuf := [];
     w_nchunks := 0; w_cur_start := max_u64; w_cur_end := 0; w_cur_count := 0; w_msgidx := [];
     w_channel_ids := []; w_schema_ids := []; w_channels := []; w_schemas := [];
     w_chunk_indexes := []; w_att_indexes := []; w_md_indexes := [];
     w_st_messages := 0; w_st_schemas := 0; w_st_channels := 0; w_st_attachments := 0;
     w_st_metadata := 0; w_st_chunks := 0; w_st_start := 0; w_st_end := 0; w_st_counts := [];
     w_closed := false |}.

Definition new_writer : wres :=
  do* s := (if o_skip_magic o then (init_state, None)
            else do* s := dst_write magic init_state in log IMagic s) in
  if o_chunked o then
    if o_custom o then
      (if bytes_eqb (o_comp o) [] then (s, Some EOther) else (s, None))
    else if bytes_eqb (o_comp o) comp_zstd || bytes_eqb (o_comp o) comp_lz4 || bytes_eqb (o_comp o) []
    then (s, None) else (s, Some EOther)
  else (s, None).

Definition step (c : wcall) (s : wstate) : wres :=
  match c with
  | CHeader h => write_header h s
  | CSchema sc => write_schema sc s
  | CChannel ch => write_channel ch s
  | CMessage m => write_message m s
  | CAttachment a src => write_attachment a src s
  | CMetadata m => write_metadata m s
  | CClose => close s
  end.

(* run every call regardless of earlier errors (as a caller that ignores errors would);
   returns the final state and the per-call results *)
Fixpoint run_calls (cs : list wcall) (s : wstate) (acc : list (option err * nat))
  : wstate * list (option err * nat) :=
  match cs with
  | [] => (s, rev acc)
  | c :: r => let '(s', e) := step c s in run_calls r s' ((e, w_nw s') :: acc)
  end.

End WithEnv.

(* effective options after NewWriter's mutation of the caller's struct *)
Definition effective_opts (o : wopts) : wopts :=
  if o_chunked o && (o_chunksize o =? 0)%Z then
    {| o_crc := o_crc o; o_chunked := o_chunked o; o_chunksize := 1048576; o_comp := o_comp o;
       o_custom := o_custom o; o_skip_mi := o_skip_mi o; o_skip_stats := o_skip_stats o;
       o_skip_rsh := o_skip_rsh o; o_skip_rch := o_skip_rch o; o_skip_ai := o_skip_ai o;
       o_skip_mdi := o_skip_mdi o; o_skip_ci := o_skip_ci o; o_skip_so := o_skip_so o;
       o_override_lib := o_override_lib o; o_skip_magic := o_skip_magic o |}
  else o.

Record wresult := {
  r_new : option err;              (* NewWriter's result *)
  r_calls : list (option err * nat);   (* per-call result and number of destination writes made so far *)
  r_writes : list bytes;           (* bytes accepted per destination Write call, in order *)
  r_final : wstate
}.

Definition W (o : wopts) (lib_id : bytes) (compress : nat -> bytes -> bytes) (flt : option fault)
           (cs : list wcall) : wresult :=
  let o := effective_opts o in
  match new_writer o flt with
  | (s, Some e) => {| r_new := Some e; r_calls := []; r_writes := rev (w_out s); r_final := s |}
  | (s, None) =>
    let '(s', rs) := run_calls o lib_id compress flt cs s [] in
    {| r_new := None; r_calls := rs; r_writes := rev (w_out s'); r_final := s' |}
  end.

Definition file_of (r : wresult) : bytes := concat (r_writes r).
