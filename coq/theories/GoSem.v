(* GoSem.v - outcome type that keeps Go errors, panics and process exits apart, plus
   the small enum of error classes that the correspondence harness compares on. *)
From Coq Require Import List NArith Bool.
Import ListNotations.

Inductive err :=
| EShortBuffer          (* io.ErrShortBuffer *)
| EEOF                  (* io.EOF *)
| EUnexpectedEOF        (* io.ErrUnexpectedEOF, not wrapped in ErrTruncatedRecord *)
| ETruncated            (* *ErrTruncatedRecord (unwraps to io.ErrUnexpectedEOF) *)
| EBadMagic             (* *ErrBadMagic *)
| ERecordTooLarge       (* ErrRecordTooLarge *)
| EChunkTooLarge        (* ErrChunkTooLarge *)
| ENestedChunk          (* ErrNestedChunk *)
| EInvalidZeroOpcode    (* ErrInvalidZeroOpcode *)
| EInvalidChunkCrc      (* *errInvalidChunkCrc *)
| ELengthOutOfRange     (* ErrLengthOutOfRange *)
| EBadOffset            (* ErrBadOffset *)
| EUnknownSchema        (* ErrUnknownSchema *)
| EAttachmentSize       (* ErrAttachmentDataSizeIncorrect *)
| EUnexpectedToken      (* *ErrUnexpectedToken *)
| EMetadataNotFound
| EInjected             (* fault injected by the harness into a source or a sink *)
| ECallback             (* error returned by a user callback *)
| EOther.               (* any other error value (fmt.Errorf without a sentinel, codec errors) *)

Definition err_eqb (a b : err) : bool :=
  match a, b with
  | EShortBuffer, EShortBuffer | EEOF, EEOF | EUnexpectedEOF, EUnexpectedEOF
  | ETruncated, ETruncated | EBadMagic, EBadMagic | ERecordTooLarge, ERecordTooLarge
  | EChunkTooLarge, EChunkTooLarge | ENestedChunk, ENestedChunk
  | EInvalidZeroOpcode, EInvalidZeroOpcode | EInvalidChunkCrc, EInvalidChunkCrc
  | ELengthOutOfRange, ELengthOutOfRange | EBadOffset, EBadOffset
  | EUnknownSchema, EUnknownSchema | EAttachmentSize, EAttachmentSize
  | EUnexpectedToken, EUnexpectedToken | EMetadataNotFound, EMetadataNotFound
  | EInjected, EInjected | ECallback, ECallback | EOther, EOther => true
  | _, _ => false
  end.

Inductive outcome (A : Type) :=
| Ok (a : A)
| Err (e : err)
| Panic (site : N)        (* Go run-time panic: slice/index out of range, makeslice, nil deref *)
| Exit (site : N)         (* log.Fatal / os.Exit reached *)
| OutOfFuel.              (* a fuelled loop ran out of fuel: non-termination candidate *)
Arguments Ok {A} a.
Arguments Err {A} e.
Arguments Panic {A} site.
Arguments Exit {A} site.
Arguments OutOfFuel {A}.

Definition bind {A B} (x : outcome A) (f : A -> outcome B) : outcome B :=
  match x with
  | Ok a => f a
  | Err e => Err e
  | Panic s => Panic s
  | Exit s => Exit s
  | OutOfFuel => OutOfFuel
  end.

Declare Scope go_scope.
Notation "'let*' x ':=' c 'in' k" := (bind c (fun x => k))
  (at level 200, x pattern, c at level 100, k at level 200, right associativity) : go_scope.

(* fmt.Errorf("...: %w", err) keeps the class; used to document wrapping sites *)
Definition wrap {A} (x : outcome A) : outcome A := x.

Definition is_ok {A} (x : outcome A) : bool := match x with Ok _ => true | _ => false end.
Definition no_crash {A} (x : outcome A) : bool :=
  match x with Ok _ | Err _ => true | _ => false end.

(* makeSafe: refuses anything >= MaxInt32 *)
Definition max_int32 : N := 2147483647.
