(* Bytes.v - little-endian codecs on lists of bytes (mirrors go/mcap/utils.go putUintN, getUintN).
   Model file: definitions only (extracted); proofs live in BytesFacts.v. *)
From Coq Require Import List NArith ZArith Bool.
From Coq.Strings Require Import Byte.
Import ListNotations.
Open Scope N_scope.

Definition bytes := list byte.

Definition byte_of_N (n : N) : byte :=
  match Byte.of_N (n mod 256) with Some b => b | None => x00 end.

(* n-byte little-endian encoding of x (truncating: Go's uintN conversion) *)
Fixpoint le (n : nat) (x : N) : bytes :=
  match n with O => [] | S n => byte_of_N x :: le n (x / 256) end.

Fixpoint unle (bs : bytes) : N :=
  match bs with [] => 0 | b :: bs => Byte.to_N b + 256 * unle bs end.

Definition u16 (x : N) : bytes := le 2 x.
Definition u32 (x : N) : bytes := le 4 x.
Definition u64 (x : N) : bytes := le 8 x.

Definition blen (b : bytes) : N := N.of_nat (length b).

(* putPrefixedString / putPrefixedBytes: uint32(len) ++ data *)
Definition pstr (s : bytes) : bytes := u32 (blen s) ++ s.

Definition byte_eqb (a b : byte) : bool := Byte.eqb a b.

Fixpoint bytes_eqb (a b : bytes) : bool :=
  match a, b with
  | [], [] => true
  | x :: a', y :: b' => Byte.eqb x y && bytes_eqb a' b'
  | _, _ => false
  end.

(* lexicographic byte order, as Go's string comparison (sort.Strings) *)
Fixpoint bytes_ltb (a b : bytes) : bool :=
  match a, b with
  | _, [] => false
  | [], _ :: _ => true
  | x :: a', y :: b' =>
      if Byte.to_N x <? Byte.to_N y then true
      else if Byte.to_N y <? Byte.to_N x then false
      else bytes_ltb a' b'
  end.

Definition bytes_leb (a b : bytes) : bool := negb (bytes_ltb b a).

(* sub-list [off, off+n) *)
Definition sub (b : bytes) (off n : nat) : bytes := firstn n (skipn off b).

Definition magic : bytes := [x89; x4d; x43; x41; x50; x30; x0d; x0a].

Definition two16 : N := 65536.
Definition two32 : N := 4294967296.
Definition two64 : N := 18446744073709551616.
Definition max_u64 : N := 18446744073709551615.
